r"""py2coq - fail-closed translator from a small subset of Python SOURCE TEXT to Gallina.

Part of the trusted base of the translator tie (coq/gen/README.md).  The input is the text of a .py file (never an imported
object); the output is Gallina text over the definitions of coq/gen/PyPrelude.v (`result`, `bind`, `py_*`, `tensor`).
Whatever is not listed below raises `Untranslatable(node, reason)`; nothing is guessed.

VALUES   int -> Z;  bool -> bool;  list / tuple / Sequence / torch.Size / iterator of T -> list T;  a fixed-length tuple
         display (a, b) -> a Gallina pair;  Tensor -> PyPrelude.tensor (offset, numel, shape);  float hyperparameters ->
         Hyper.pynum (only compared, never computed with);  `int | Sequence[int]` -> a Gallina sum type listed in `UNIONS`;
         Callable[[int], int] -> a total function Z -> Z;  an exception object passed as argument -> py_exception (opaque);
         str -> String.string;  a dict with keys of a type K listed in EQB -> `dict (K * V)` = the list of its items in insertion
         order (Gallina list (K * V); PyPrelude.py_dict_*);  a nested dict of tensors / plain values -> StateDict.tree (`tree`,
         with `key`, `lf`: types of the hand model, used as types only);  a value obtained by walking into a local dict with
         setdefault -> a reference PyTree.ref (`ref:<root>`).
         Parameter types come from the annotations (`ANN`) or from the target (`Target.types`); the types of locals are inferred
         from the expressions bound to them.
OUTCOMES every translated function returns `result T`: `Ret v`, `Raise <class> <site>` or `OutOfFuel` (PyPrelude.v).
         Sub-expressions that can raise are evaluated in Python's left-to-right order through `bind`.

EXPRESSIONS (e : T means "e has inferred type T")
  n, True, False, -n            literal (an int literal compared with a pynum is `PInt n`, a float literal `PFlt (p # q)` exact)
  x                             a parameter or a local bound earlier on EVERY path reaching this point
  <atom>                        a sub-expression whose source text is listed in Target.atoms becomes the named parameter
                                (`step.item()`, `group[KEY]`, an attribute `self.x` that the function only reads)
  a + b, a - b, a * b           Z.add / Z.sub / Z.mul on Z;  `+` on two lists is `++`;  l * n and (x,) * n : py_list_mul (n copies)
  a // b, a % b                 py_floordiv / py_mod (ZeroDivisionError when b = 0; otherwise Z.div / Z.modulo = Python floor)
  a < b <= c ...                chained comparison = conjunction, middle operands evaluated once, short-circuit kept;
                                on Z: Z.ltb / Z.leb / Z.eqb (`a > b` is emitted as `b <? a`, `a != b` as negb (a =? b));
                                on pynum: Hyper.pn_ltb / pn_leb / pn_eqb;  `l == []`, `l != []` : py_is_empty
  not a, a and b, a or b        negb, &&, || on bool (a sequence in boolean position is `negb (py_is_empty l)`); if b can
                                raise it is evaluated only when Python evaluates it;  `l1 or l2` on lists: py_or_list
  a if c else b                 if c then a else b
  len(l) prod(l) math.prod(l) sum(l) list(l) tuple(l)          py_len py_prod py_prod py_sum, identity, identity
  [a, b], (a, b), l[i], l[a:], p[0] / p[1] on a pair           list, pair, py_index (IndexError), py_slice_from, fst / snd
  l[a:b]                                                        py_slice l a b (never raises; negative bounds from the end, clipped)
  zip(a, b, .., strict=True) (2 to 4 sequences)                 py_zip_strict, nested to the left: ValueError when the lengths differ
  x is None, x is not None                                      for x of a type `option T`: py_is_none x, negb (py_is_none x)
  filter(lambda t: c, l), all(c for t in l), all(l)            List.filter, List.forallb with a pure c / on a list of bools
  any(c for t in l)                                             negb (forallb (fun t => negb c) l); any(not c ..) = negb (forallb c ..)
  [e for x in l], tuple(e for x in l), list(e for x in l)      map (fun x => e) l;  py_mapM (left to right) when e can raise;
  [.. for x in l if c]                                          the same over filter (fun x => c) l, c pure
  [a, *l, b]                                                    [a] ++ l ++ [b]
  accumulate(l, initial=a)                                      py_accumulate ([a] ++ l), i.e. accumulate(chain([a], l))
  len(set(l))                                                   py_len_set: number of distinct ints (a set is not a value otherwise)
  enumerate(l)                                                  py_enumerate: [(0, l0); (1, l1); ...]
  sorted(l, key=operator.itemgetter(1) | lambda p: p[1], reverse=True)
                                                                py_sorted_desc_snd: STABLE, descending in the int second component
  sorted(idx, key=l.__getitem__, reverse=True)                  py_sorted_desc_getitem l idx: keys l[i] first (IndexError), then as above
  h[0] for a heapified h                                        pq_peek h: the least element (heap invariant), IndexError if empty
  g(e) with g a Callable parameter;  lambda x: e as an argument  application;  (fun x => e) with a pure int e
  {}, {k: v}; d[k]; k in d, k not in d; a | b; d.items()       [], [(k, v)]; py_dict_getitem (KeyError); py_dict_contains; py_dict_or; d
  a if isinstance(x, dict) else b                               for x of a type in DICT_UNIONS (tree): match x with Node d => a | Leaf l => b
  reduce(or_, l, init)                                          fold_left py_dict_or l init
  reduce(lambda a, x: e, l, init)                               py_for (fun a x => e) l init; with e = a.setdefault(x, {}) and init a
                                                                never-aliased local dict of trees: a setdefault walk, a is a reference
                                                                (PyTree.ref_root init, ref_setdefault: AttributeError on a non-dict)
  (e for a, b in l), [e for a, b in l]                          comprehension over a list of pairs (d.items())
  f(e, ..) for f in Target.foreign (json.dumps, json.loads)     application of a module parameter: total (`dumps l`) or partial
                                                                (`py_of_option (loads s) ValueError`)
  sorted(l) on str, "sep".join(l)                               py_sorted_str (byte-wise order), py_str_join;  l.sort() as a statement on
                                                                a never-aliased local list of str: re-binding to py_sorted_str l
  h(e, ..), Cls.h(e, ..), self.h(e, ..) for a pure helper h (a module-level function of the same file, or a @staticmethod of the
                                                                target's class) whose body is plain assignments of new locals and a final
                                                                `return e'`: e' with locals and parameters replaced by what they stand for
  h(a, b) as a statement, for a module-level procedure h(a, b) -> None without `return`, called with exactly its parameter names:
                                                                its body in place (raise sites 100 + ordinal)
  compress(l, s) chain(l1, l2) accumulate(l) pairwise(l)       py_compress, ++, py_accumulate, py_pairwise
  range(n), range(a, b)                                        py_range
  t.size() t.numel() t.narrow(0, a, n) t.view(l)               t_shape t_len t_narrow0 t_view (first argument of narrow must be 0)
  t.dim(), torch.split(t, b, dim=d)                             for t a strided view (type `view`, PyPrelude.py_view): pv_dim, pv_split
  (x,)                                                          the one-element sequence [x]
  (s for t in A for s in f(t))                                  concat (map f A); through py_mapM when f can raise
  f(args), f(k=v, ...)          call of a function translated in the same run (nested def, itself, or - by the source text of the
                                callee expression, Target.calls, e.g. `super().__post_init__` or `Base.static_method` - an earlier
                                target): positional / keyword arguments matched to its parameters, the `self.x` atoms the callee
                                reads are passed on under the same names; a recursive function gets an explicit fuel argument
STATEMENTS (a block is translated together with "what follows it", so a variable is only visible where Python binds it)
  x = e, x: T = e               let x := e in ...        (`x = f(..)` : bind (f ..) (fun x => ...))
  (a, b) = e                    let '(a, b) := e in ...  for a pair e;  for a list e: bind (py_unpack2 e) .. (ValueError unless len(e) = 2)
  a, *rest = l                  bind (py_uncons l) (fun '(a, rest) => ...)      (ValueError on an empty l)
  *init, a = l                  bind (py_unsnoc l) (fun '(init, a) => ...)      (ValueError on an empty l)
  d[k] = v, d |= e              on a never-aliased local dict: re-binding of d to py_dict_set eqb k v d / py_dict_or eqb d e
  x = d                         for a never-aliased local dict d of trees: x is a reference to d (ref_root d)
  x[k] = v                      for a reference x into d: re-binding of d to what ref_setitem x k v returns (TypeError on a plain
                                value, UnmodelledEffect on a tensor); the references into d are stale afterwards and cannot be used
  x.extend(l), x += l           re-binding of x to x ++ l (same condition on x as append);  d.update(e) is d |= e
  if [not] isinstance(x, dict)  for x of a type in DICT_UNIONS: a match on x (the statement form of the conditional expression above)
  continue                      inside a translated for loop: the rest of the body is skipped (the loop state as it is)
  x[i] = e, x.append(e)         re-binding of x to py_setitem x i e / x ++ [e]; only if x is a local initialised by a list
  x[i] += e, x[i] -= e          display, a list comprehension, list(..) or [..] * n that is never aliased (never bound to another
                                name, stored or passed on), or a list owned by self listed in Target.state (below)
  heapq.heapify(h); heapq.heappush(h, p); x = heapq.heappop(h); (a, b) = heapq.heappop(h)
                                on such a local list h of int pairs: re-binding of h to pq_heapify h / pq_push h p / the rest
                                returned by pq_pop h (PyPrelude: the heap is a bag, pop removes the lexicographic minimum or
                                raises IndexError); heappop only in these two statement forms; heapq.heapreplace(h, p) as a
                                statement: pq_replace h p (pop the minimum, push p).  After heapify h has the type `heap`: only
                                heapq calls and h[0] are allowed on it (the other heapq calls require a heapified list)
  x = self.attr                 for an attribute listed in Target.state: x is a second name for the SAME list - reads and updates
                                through x are those of the state list; x must be unbound before and is never re-bound
  if c: A elif d: B else: C     if c then A;rest else ...   (rest is duplicated into the branches that fall through);
                                `if (y := e) <op> ...` binds y first; `if [not] isinstance(x, Sequence)` on a parameter whose type is
                                listed in UNIONS is a match on x; x has the type of the case in the branch AND in the copy of what
                                follows (falling back to the union type there if the narrowed type does not support a use)
  for x in l: / for a, (b, c) in l: (any nesting of names matching the element type)
                                bind (py_for (fun state x => body; Ret state) l state) (fun state => rest); state = the locals
                                bound before the loop that the body re-binds; no return/break/continue inside
  return e / raise E(..) / assert c          Ret e / Raise E k / if c then rest else Raise AssertionError k;
                                k = Target.site_base + ordinal of the statement among the raise/assert statements of the function;
                                `raise p` for a parameter p annotated Exception is Raise PassedException k;
                                a function annotated `-> None` may fall off the end or `return` without a value: Ret tt
  def g(...) inside a function  lifted to a top-level definition; the enclosing function's variables it reads become its
                                leading parameters (they must not be re-bound after the def).  A nested def that consists of one
                                `return e` and calls the enclosing function back (mutual recursion) is not lifted: each call of it
                                is replaced by e with the arguments substituted, so that the enclosing function is directly recursive
  docstrings, pass, calls listed in Target.ignore_calls (logging), bare f-strings whose fields cannot raise      no effect
  decorators                    only staticmethod / classmethod / abstractmethod / torch.no_grad() / torch.compiler.disable (no effect on the value)
STATE    Target.state lists `self.x` attributes (lists) that the function updates in place: they become parameters AND results -
         the function returns Ret (Returned v | Raised E k, final lists) (PyPrelude.completion), so an update made before a
         `raise` statement is kept.  Such a function cannot be called from translated code.
RECURSION a function that calls itself becomes `Fixpoint f (fuel : nat) ... := match fuel with O => OutOfFuel | S fuel => ..`;
          the first call from outside passes Target.fuel (a Gallina term over the caller's parameters).
TARGET MODES  "function": a def (possibly a method, found by qualified name); its Target.atoms / Target.state are extra parameters;
          "decision": one `if` statement of a loop body (Target.stop_before), or a whole function body (stop_before = None), as the
          function (tags of the actions executed, in order; ends with `continue` / `return`?) of Target.atoms.  An action is an
          assignment / expression statement / return whose source text starts with a key of Target.actions (a statement with tensor
          side effects: what it computes is not a value here; `return E` counts as the action `x = E`; a key "re:<regex>" is matched
          against the whole statement); `x = <reference>` (names / attributes / subscripts, no call) for a new local x makes x another
          name of that object: later statements are read with x replaced by it; `x = <tensor expression>` is passed over only if its
          text matches an entry of Target.opaque; a call of a module-level procedure that only logs is dropped; `return x` of a name ends the function; an `if` whose branches only
          log is dropped even if its test is not translatable; raise statements are `Raise E k` as usual;
          "alias": Class.method resolved through the single-inheritance chain of classes in the file: the translation of the
          defining class's method (an earlier target) gets the name Target.coq_name, `Ret tt` if no class of the chain defines it
          (the chain must end in a class named in Target.names, assumed not to define the method);  "exprs": the right-hand sides of the unique
          assignments to the listed variable names inside a function, as functions of Target.atoms; a local that is bound exactly
          once in the function, by `x = e` earlier in the same statement list, is replaced by e (assumption, as for the atoms:
          the statements in between do not change what the atoms of e denote);  "prefix": the statements
          of a function up to (excluding) the first statement whose text starts with Target.stop_before, returning the tuple
          Target.returns of locals; statements whose text starts with an entry of Target.drop are left out of this slice - allowed
          only if what they write (names bound, receivers of mutating method calls) is read by no kept statement: the result is
          the value of the returned locals PROVIDED the function completes.
"""
from __future__ import annotations

import ast
import copy
import hashlib
import re
from dataclasses import dataclass, field
from fractions import Fraction
from pathlib import Path


class Untranslatable(Exception):
    def __init__(self, node, reason: str):
        self.node, self.reason = node, reason
        where = f"line {node.lineno}: `{ast.unparse(node)[:80]}`" if isinstance(node, ast.AST) and hasattr(node, "lineno") else str(node)
        super().__init__(f"Untranslatable: {reason} at {where}")


ANN = {"int": "Z", "bool": "bool", "Sequence[int]": "list Z", "tuple[int, ...]": "list Z", "list[int]": "list Z", "torch.Size": "list Z",
       "Sequence[bool]": "list bool", "Tensor": "tensor", "list[Tensor]": "list tensor", "tuple[Tensor, ...]": "list tensor",
       "float": "pynum", "tuple[float, float]": "(pynum * pynum)", "Iterator[tuple[int, int]]": "list (Z * Z)",
       "tuple[tuple[int, int], ...]": "list (Z * Z)", "list[bool]": "list bool", "Callable[[int], int]": "(Z -> Z)", "None": "unit",
       "Exception": "py_exception", "str": "string"}
# `int | Sequence[int]`-like parameters: Gallina sum type -> (constructor, type) of the Sequence case and of the scalar case
UNIONS = {"iro_t": (("IroSeq", "list pynum"), ("IroScalar", "pynum")), "root_override": (("OvList", "list Z"), ("OvInt", "Z"))}
EXN = {"ValueError", "AssertionError", "IndexError", "ZeroDivisionError", "TypeError", "NotImplementedError", "ArithmeticError"}
# `x: dict | Tensor`-like values: Gallina sum type -> (constructor, type) of the dict case and of the other case
DICT_UNIONS = {"tree": (("Node", "dict (key * tree)"), ("Leaf", "lf"))}
EQB = {"key": "key_eqb", "fkey": "fkey_eqb", "string": "String.eqb", "nat": "Nat.eqb", "Z": "Z.eqb"}      # == of dict keys, by key type
HEAPQ = ("heapq.heapify", "heapq.heappush", "heapq.heappop", "heapq.heapreplace")
HEAP = "heap"            # type of a local list of int pairs after heapq.heapify: only heapq calls and h[0] (the least element) are allowed on it
RESERVED = {"end", "in", "at", "fix", "fun", "forall", "exists", "match", "with", "let", "if", "then", "else", "as", "return", "using", "where",
            "Type", "Set", "Prop", "fuel", "key", "tree", "lf", "ref", "string", "dumps", "loads", "fkey", "bind", "Ret", "Raise", "result", "list", "length", "map", "filter", "fst", "snd", "tensor", "nat", "Z", "bool", "S", "O"}


@dataclass
class Target:
    file: str                      # path relative to the repository root
    qualname: str                  # "f" or "Class.f"
    mode: str = "function"         # "function" | "exprs" | "prefix"
    coq_name: str | None = None
    names: list = field(default_factory=list)        # exprs mode: variable names
    atoms: list = field(default_factory=list)        # [(source text, parameter name, type)] - become parameters, in this order
    types: dict = field(default_factory=dict)        # parameter name / annotation text -> Gallina type
    params: list | None = None     # function/prefix mode: the parameters to keep (others must be unused), default all but self
    fuel: str | None = None        # Gallina term for the fuel of the first call of a recursive nested function
    stop_before: str | None = None
    returns: list = field(default_factory=list)
    ignore_calls: tuple = ("logger.warning", "logger.info", "logger.debug")
    prefix: str = ""               # prepended to every Gallina name emitted for this target (two copies of one function)
    site_base: int = 0             # added to the ordinals of this function's raise/assert sites (unique sites across functions)
    calls: dict = field(default_factory=dict)        # source text of a callee expression -> coq_name of a function translated earlier in the run
    state: list = field(default_factory=list)        # [(source text, name, type)]: lists owned by `self` that the function updates in place
    drop: list = field(default_factory=list)         # mode "prefix": source-text prefixes of statements left out of the slice (they may only
                                                     # write names that no kept statement reads; the result is "if the function completes")
    opaque: list = field(default_factory=list)       # mode "decision": regexes of the assignments `x = <tensor expression>` that may be passed over
    actions: dict = field(default_factory=dict)      # mode "decision": source text of a statement with (tensor) side effects -> its tag (int)
    foreign: dict = field(default_factory=dict)      # source text of a foreign function -> (Gallina function, [argument types], result type,
                                                     # exception class or None): a parameter of the generated module, pure and total
                                                     # (None) or partial (returns option; None = the exception)


def is_list(t): return t.startswith("list ")
def is_dict(t): return t.startswith("dict ")                 # dict (K * V): Gallina list (K * V), the items in insertion order
def dict_kv(t): return t[6:-1].split(" * ", 1)
def split_prod(t):
    """components of a product type "(A * (B * C) * D)" (top level only); [t] for anything else"""
    if not (t.startswith("(") and t.endswith(")")):
        return [t]
    out, depth, cur = [], 0, ""
    for tok in t[1:-1].split(" "):
        depth += tok.count("(") - tok.count(")")
        if tok == "*" and depth == 0:
            out.append(cur.strip())
            cur = ""
        else:
            cur += " " + tok
    return out + [cur.strip()] if out else [t]


def atom_params(atoms):
    """the parameters declared by an atom list: entries whose name is an identifier, once each (several source texts may denote the
    same parameter; a name that is not an identifier is a Gallina expression over the parameters, e.g. A.dim() = (py_len shape))"""
    out = []
    for _, p, ty in atoms:
        if re.fullmatch(r"[A-Za-z_][A-Za-z_0-9]*", p) and (p, ty) not in out:
            out.append((p, ty))
    return out


def gtype(t): return re.sub(r"\bview\b", "py_view", re.sub(r"\bstring\b", "String.string", t.replace("dict (", "list (")))      # the Gallina spelling of a type
def same(t1, t2): return t1 == t2 or (is_list(t1) and is_list(t2) and "list ?" in (t1, t2)) or (is_dict(t1) and is_dict(t2) and "dict ?" in (t1, t2))     # `list ?`: an empty display, element type open
def elem(t): return t[5:].strip() if not t[5:].startswith("(") else t[5:]
def ident(n): return n + "_" if n in RESERVED else n
def unp(n): return ast.unparse(n)


class Subst(ast.NodeTransformer):
    """replaces the loads of the names in `m` by (copies of) the expressions they stand for"""

    def __init__(self, m):
        self.m = m

    def visit_Name(self, n):
        return copy.deepcopy(self.m[n.id]) if isinstance(n.ctx, ast.Load) and n.id in self.m else n


def substituted(node, m):
    return ast.fix_missing_locations(Subst(m).visit(copy.deepcopy(node))) if m else node


def is_reference(e):
    """an expression that only NAMES an existing object: names, attributes, subscripts with name / constant keys (no calls)"""
    return isinstance(e, (ast.Name, ast.Constant)) or (isinstance(e, ast.Attribute) and is_reference(e.value)) \
        or (isinstance(e, ast.Subscript) and is_reference(e.value) and is_reference(e.slice))


class Fn:
    """Translation of one function body."""

    def __init__(self, tr: "Translator", tgt: Target, name: str, recursive: bool):
        self.tr, self.tgt, self.name, self.recursive = tr, tgt, name, recursive
        self.sites = {}           # (line, column) of a raise/assert statement -> its ordinal in source order (set by Translator)
        self.tmp = 0
        self.ret_type = None
        self.mutated: set = set()
        self.state = [n for _, n, _ in tgt.state]
        self.fparams: set = set()  # decision mode: the parameters of the function (never re-bound by an opaque binding)
        self.loop_ends: list = []  # innermost last: what `continue` does
        self.ret_unit = False      # the function is annotated `-> None`
        self.inline: dict = {}     # exprs mode: name -> the expression bound to it just before (see Translator.exprs)

    # ---- helpers
    def fresh(self):
        self.tmp += 1
        return f"t{self.tmp}_"

    @staticmethod
    def wrap(binds, code):
        for name, eff in reversed(binds):
            code = f"bind {eff} (fun {name} =>\n{code})"
        return code

    @staticmethod
    def gname(name, env):
        return env.get("@ren", {}).get(name) or ident(name)

    @staticmethod
    def is_lit(node):
        if isinstance(node, ast.UnaryOp) and isinstance(node.op, ast.USub):
            node = node.operand
        return isinstance(node, ast.Constant) and isinstance(node.value, (int, float))

    def pattern(self, target, ty, node):
        """a for / unpacking target (a name, or a possibly nested tuple of names) against a (product) type: Gallina pattern, bindings"""
        if isinstance(target, ast.Name):
            if ty.startswith("(") and ty.endswith(")") and split_prod(ty) == [ty] and ty.count("(") == 1:
                ty = ty[1:-1]                              # (option Z) -> option Z
            return ident(target.id), {target.id: ty}
        parts = split_prod(ty)
        if not isinstance(target, ast.Tuple) or len(parts) != len(target.elts) or len(parts) < 2:
            raise Untranslatable(node, f"target `{unp(target)}` does not match a {ty}")
        pats, binds = [], {}
        for e, t in zip(target.elts, parts):
            p, b = self.pattern(e, t, node)
            pats.append(p)
            binds.update(b)
        return "(" + ", ".join(pats) + ")", binds

    def atom(self, node):
        s = unp(node)
        for src, pname, ty in [*self.tgt.atoms, *self.tgt.state]:
            if s == src:
                return pname, ty
        return None

    def ret(self, code):
        """normal completion with value `code` (in state mode together with the current state lists)"""
        return f"Ret (Returned {code}, ({', '.join(self.state)}))" if self.state else f"Ret {code}"

    def exc(self, cls, k):
        return f"Ret (Raised {cls} {k}, ({', '.join(self.state)}))" if self.state else f"Raise {cls} {k}"

    def truthy(self, node, env):
        b, c, t = self.expr(node, env)
        if t == "bool":
            return b, c
        if is_list(t):
            return b, f"(negb (py_is_empty {c}))"
        raise Untranslatable(node, f"truth value of a {t}")

    def lit(self, node, want):
        """int/float/bool literal (optionally negated) or None"""
        neg = isinstance(node, ast.UnaryOp) and isinstance(node.op, ast.USub) and isinstance(node.operand, ast.Constant)
        v = node.operand.value if neg else node.value if isinstance(node, ast.Constant) else None
        if v is None or isinstance(v, (str, bytes)) or v is Ellipsis:
            return None
        if isinstance(v, bool):
            return ("true" if v else "false"), "bool"
        v = -v if neg else v
        if want == "pynum":
            if isinstance(v, int):
                return f"(PInt ({v}))", "pynum"
            fr = Fraction(v)      # exact value of the float literal
            return f"(PFlt (QArith_base.Qmake ({fr.numerator}) {fr.denominator}))", "pynum"
        if isinstance(v, int):
            return f"({v})", "Z"
        raise Untranslatable(node, "float literal outside a comparison with a float hyperparameter")

    # ---- expressions: returns (binds, code, type)
    def expr(self, node, env, want=None):
        a = self.atom(node)
        if a:
            return [], a[0], a[1]
        l = self.lit(node, want)
        if l:
            return [], l[0], l[1]
        m = getattr(self, "e_" + type(node).__name__, None)
        if m is None:
            raise Untranslatable(node, f"expression form {type(node).__name__} is outside the subset")
        return m(node, env, want)

    def e_Name(self, n, env, want):
        if n.id in env.get("@alias", {}):                  # a local name for a list owned by self (Target.state): the same list
            n = ast.copy_location(ast.Name(id=env["@alias"][n.id], ctx=ast.Load()), n)
        if n.id not in env and n.id in self.inline:        # exprs mode: a local bound once, earlier in the same block, by `x = e`
            node, self.inline = self.inline[n.id], {k: v for k, v in self.inline.items() if k != n.id}
            try:
                return self.expr(node, env, want)
            finally:
                self.inline[n.id] = node
        if n.id not in env:
            raise Untranslatable(n, f"name `{n.id}` is not a parameter, a local bound on every path, or a listed atom")
        return [], self.gname(n.id, env), env[n.id]

    def e_BinOp(self, n, env, want):
        if isinstance(n.left, ast.Tuple) and len(n.left.elts) == 1:          # (x,) * n
            b0, c0, t0 = self.expr(n.left.elts[0], env)
            bl, cl, tl = b0, f"[{c0}]", "list " + t0
        else:
            bl, cl, tl = self.expr(n.left, env)
        br, cr, tr_ = self.expr(n.right, env)
        op = type(n.op).__name__
        if op == "Add" and is_list(tl) and same(tl, tr_):
            return bl + br, f"({cl} ++ {cr})", (tr_ if tl == "list ?" else tl)
        if op == "BitOr" and is_dict(tl) and same(tl, tr_):                      # a | b on dicts
            ty = tr_ if tl == "dict ?" else tl
            return bl + br, f"(py_dict_or {self.dict_eqb(n, ty)} {cl} {cr})", ty
        if op == "Mult" and is_list(tl) and tr_ == "Z":
            return bl + br, f"(py_list_mul {cl} {cr})", tl
        if tl != "Z" or tr_ != "Z":
            raise Untranslatable(n, f"operator {op} on {tl} and {tr_}")
        if op in ("Add", "Sub", "Mult"):
            return bl + br, f"({cl} {dict(Add='+', Sub='-', Mult='*')[op]} {cr})", "Z"
        if op in ("FloorDiv", "Mod"):
            t = self.fresh()
            return bl + br + [(t, f"(py_{'floordiv' if op == 'FloorDiv' else 'mod'} {cl} {cr})")], t, "Z"
        raise Untranslatable(n, f"operator {op} is outside the subset")

    def e_UnaryOp(self, n, env, want):
        if isinstance(n.op, ast.Not):
            b, c = self.truthy(n.operand, env)
            return b, f"(negb {c})", "bool"
        if isinstance(n.op, ast.USub):
            b, c, t = self.expr(n.operand, env)
            if t == "Z":
                return b, f"(- {c})", "Z"
        raise Untranslatable(n, "unary operator outside the subset")

    def short_circuit(self, ba, ca, bb, cb, is_and):
        """a and b / a or b with b evaluated only when Python evaluates it"""
        if not bb:
            return ba, f"({ca} {'&&' if is_and else '||'} {cb})"
        t = self.fresh()
        later = self.wrap(bb, f"Ret {cb}")
        eff = f"(if {ca} then {later} else Ret false)" if is_and else f"(if {ca} then Ret true else {later})"
        return ba + [(t, eff)], t

    def e_BoolOp(self, n, env, want):
        is_and = isinstance(n.op, ast.And)
        first = self.expr(n.values[0], env)
        if is_list(first[2]) and not is_and and len(n.values) == 2:
            b2, c2, t2 = self.expr(n.values[1], env)
            if t2 != first[2] or b2:
                raise Untranslatable(n, "`or` on sequences of different types / with a raising right operand")
            return first[0], f"(py_or_list {first[1]} {c2})", t2
        b, c = self.truthy(n.values[0], env)
        for v in n.values[1:]:
            bv, cv = self.truthy(v, env)
            b, c = self.short_circuit(b, c, bv, cv, is_and)
        return b, c, "bool"

    def cmp1(self, node, op, cl, tl, cr, tr_):
        o = type(op).__name__
        if o in ("Gt", "GtE"):       # a > b is b < a: one normal form, operands already evaluated in source order
            cl, tl, cr, tr_, o = cr, tr_, cl, tl, {"Gt": "Lt", "GtE": "LtE"}[o]
        neg = o == "NotEq"
        o = "Eq" if neg else o
        if tl == tr_ == "Z":
            c = f"({cl} {dict(Eq='=?', Lt='<?', LtE='<=?')[o]} {cr})"
        elif tl == tr_ == "pynum":
            c = f"({dict(Eq='pn_eqb', Lt='pn_ltb', LtE='pn_leb')[o]} {cl} {cr})"
        elif o == "Eq" and is_list(tl) and cr == "[]":
            c = f"(py_is_empty {cl})"
        elif o == "Eq" and tl in UNIONS and tr_ == UNIONS[tl][1][1]:     # a sequence never equals a number
            (sq, _), (sc, ty) = UNIONS[tl]
            c = f"(match {cl} with {sc} v_ => {'pn_eqb v_ ' + cr if ty == 'pynum' else '(v_ =? ' + cr + ')'} | {sq} _ => false end)"
        else:
            raise Untranslatable(node, f"comparison {o} between {tl} and {tr_}")
        return f"(negb {c})" if neg else c

    def e_Compare(self, n, env, want):
        if len(n.ops) == 1 and isinstance(n.ops[0], (ast.Is, ast.IsNot)) and isinstance(n.comparators[0], ast.Constant) and n.comparators[0].value is None:
            b, c, t = self.expr(n.left, env)                                        # x is None / x is not None for an Optional x
            if not t.startswith("option "):
                raise Untranslatable(n, f"`is None` on a {t}")
            return b, (f"(py_is_none {c})" if isinstance(n.ops[0], ast.Is) else f"(negb (py_is_none {c}))"), "bool"
        if len(n.ops) == 1 and isinstance(n.ops[0], (ast.In, ast.NotIn)):             # k in d / k not in d on a dict
            bk, ck, tk = self.expr(n.left, env)
            bd, cd, td = self.expr(n.comparators[0], env)
            if not is_dict(td) or td == "dict ?" or dict_kv(td)[0] != tk:
                raise Untranslatable(n, f"`in` between a {tk} and a {td}")
            c = f"(py_dict_contains {self.dict_eqb(n, td)} {ck} {cd})"
            return bk + bd, (c if isinstance(n.ops[0], ast.In) else f"(negb {c})"), "bool"
        operands = [n.left, *n.comparators]
        # type of the non-literal side decides how literals are read
        ty = next((self.expr(x, env)[2] for x in operands if not self.is_lit(x) and not isinstance(x, ast.List)), "Z")
        lw = "pynum" if ty in ("pynum", "iro_t") else None
        parts = []
        for x in operands:
            if isinstance(x, ast.List) and not x.elts:
                parts.append(([], "[]", "nil"))
            else:
                parts.append(self.expr(x, env, lw))
        binds, code = list(parts[0][0]), None
        for i, op in enumerate(n.ops):
            (bl, cl, tl), (br, cr, tr_) = parts[i], parts[i + 1]
            if i == 0:
                binds += br
                code = self.cmp1(n, op, cl, tl, cr, tr_)
            else:
                c = self.cmp1(n, op, cl, tl, cr, tr_)
                binds, code = self.short_circuit(binds, code, br, c, True)
        return binds, code, "bool"

    def e_IfExp(self, n, env, want):
        t = n.test
        if isinstance(t, ast.Call) and unp(t.func) == "isinstance" and len(t.args) == 2 and isinstance(t.args[0], ast.Name) \
                and unp(t.args[1]) == "dict" and env.get(t.args[0].id) in DICT_UNIONS:      # a if isinstance(x, dict) else b: a match on x
            x, ren = t.args[0].id, env.get("@ren", {})
            (dc, dt), (oc, ot) = DICT_UNIONS[env[x]]
            gx = self.gname(x, env)
            b1, c1, t1 = self.expr(n.body, {**env, x: dt, "@ren": {**ren, x: gx + "_dict"}}, want)
            b2, c2, t2 = self.expr(n.orelse, {**env, x: ot, "@ren": {**ren, x: gx + "_leaf"}}, want)
            if not same(t1, t2):
                raise Untranslatable(n, f"conditional expression with branches of types {t1} and {t2}")
            tmp = self.fresh()
            return [(tmp, f"(match {gx} with\n| {dc} {gx}_dict => {self.wrap(b1, 'Ret ' + c1)}\n| {oc} {gx}_leaf => {self.wrap(b2, 'Ret ' + c2)}\nend)")], tmp, (t2 if t1 == "dict ?" else t1)
        bc, cc = self.truthy(n.test, env)
        b1, c1, t1 = self.expr(n.body, env, want)
        b2, c2, t2 = self.expr(n.orelse, env, want)
        if t1 != t2:
            raise Untranslatable(n, f"conditional expression with branches of types {t1} and {t2}")
        if not b1 and not b2:
            return bc, f"(if {cc} then {c1} else {c2})", t1
        t = self.fresh()
        return bc + [(t, f"(if {cc} then {self.wrap(b1, 'Ret ' + c1)} else {self.wrap(b2, 'Ret ' + c2)})")], t, t1

    def seq_of(self, elts, env, want=None):
        binds, codes, tys = [], [], []
        for e in elts:
            b, c, t = self.expr(e, env, want)
            binds += b
            codes.append(c)
            tys.append(t)
        return binds, codes, tys

    def e_List(self, n, env, want):
        if any(isinstance(e, ast.Starred) for e in n.elts):                        # [a, *l, b] = [a] ++ l ++ [b]
            binds, parts, ty = [], [], None
            for e in n.elts:
                b, c, t = self.expr(e.value if isinstance(e, ast.Starred) else e, env)
                binds += b
                t = t if isinstance(e, ast.Starred) else "list " + t
                if not is_list(t) or (ty and not same(ty, t)):
                    raise Untranslatable(n, f"list display mixing {ty} and {t}")
                ty = t if ty in (None, "list ?") else ty
                parts.append(c if isinstance(e, ast.Starred) else f"[{c}]")
            return binds, "(" + " ++ ".join(parts) + ")", ty
        b, cs, ts = self.seq_of(n.elts, env)
        if not cs:
            if want and is_list(want) and want != "list ?":
                return [], f"(@nil ({gtype(elem(want))}))", want         # the annotation fixes the element type
            return [], "[]", "list ?"
        if len(set(ts)) != 1:
            raise Untranslatable(n, f"list display with element types {ts}")
        return b, "[" + "; ".join(cs) + "]", "list " + ts[0]

    def e_Dict(self, n, env, want):
        if not n.keys:
            return [], "[]", (want if want and is_dict(want) else "dict ?")
        if len(n.keys) != 1 or n.keys[0] is None:
            raise Untranslatable(n, "dict display with more than one item / with ** unpacking")
        bk, ck, tk = self.expr(n.keys[0], env)
        bv, cv, tv = self.expr(n.values[0], env)
        if tk not in EQB:
            raise Untranslatable(n, f"dict keys of type {tk}")
        return bk + bv, f"[({ck}, {cv})]", f"dict ({tk} * {tv})"

    def dict_eqb(self, node, t):
        if not is_dict(t) or t == "dict ?" or dict_kv(t)[0] not in EQB:
            raise Untranslatable(node, f"dict operation on a {t}")
        return EQB[dict_kv(t)[0]]

    def e_Tuple(self, n, env, want):
        b, cs, ts = self.seq_of(n.elts, env)
        if len(cs) == 1:                                   # (x,): a one-element sequence
            return b, f"[{cs[0]}]", "list " + ts[0]
        if len(cs) < 2:
            raise Untranslatable(n, "empty tuple display")
        return b, "(" + ", ".join(cs) + ")", "(" + " * ".join(ts) + ")"

    def e_Subscript(self, n, env, want):
        b, c, t = self.expr(n.value, env)
        if isinstance(n.slice, ast.Slice):
            if is_list(t) and n.slice.lower is not None and n.slice.upper is not None and n.slice.step is None:      # x[a:b]
                bi, cs, ts = self.seq_of([n.slice.lower, n.slice.upper], env)
                if ts != ["Z", "Z"]:
                    raise Untranslatable(n, "slice bounds are not ints")
                return b + bi, f"(py_slice {c} {cs[0]} {cs[1]})", t
            if not is_list(t) or n.slice.lower is None or n.slice.upper is not None or n.slice.step is not None:
                raise Untranslatable(n, "only slices x[a:] and x[a:b] of sequences are in the subset")
            bi, ci, ti = self.expr(n.slice.lower, env)
            if ti != "Z":
                raise Untranslatable(n, "slice bound is not an int")
            return b + bi, f"(py_slice_from {c} {ci})", t
        if t.startswith("(") and t.count("*") == 1 and isinstance(n.slice, ast.Constant) and n.slice.value in (0, 1):
            a, bb = t[1:-1].split(" * ")
            return b, f"({'fst' if n.slice.value == 0 else 'snd'} {c})", (a if n.slice.value == 0 else bb)
        if is_dict(t) and t != "dict ?":                                                # d[k]: KeyError if absent
            bi, ci, ti = self.expr(n.slice, env)
            if ti != dict_kv(t)[0]:
                raise Untranslatable(n, f"lookup of a {ti} in a {t}")
            tmp = self.fresh()
            return b + bi + [(tmp, f"(py_dict_getitem {self.dict_eqb(n, t)} {c} {ci})")], tmp, dict_kv(t)[1]
        if t == HEAP and isinstance(n.slice, ast.Constant) and n.slice.value == 0:
            tmp = self.fresh()
            return b + [(tmp, f"(pq_peek {c})")], tmp, "(Z * Z)"
        if not is_list(t):
            raise Untranslatable(n, f"subscript of a {t}")
        bi, ci, ti = self.expr(n.slice, env)
        if ti != "Z":
            raise Untranslatable(n, "index is not an int")
        tmp = self.fresh()
        return b + bi + [(tmp, f"(py_index {c} {ci})")], tmp, elem(t)

    def pure_lambda(self, var, body, env, ty, node):
        e2 = dict(env)
        e2[var] = ty
        b, c = self.truthy(body, e2)
        if b:
            raise Untranslatable(node, "the condition of filter/all can raise")
        return f"(fun {ident(var)} => {c})"

    def comprehension(self, node, env):
        """[e for x in l] / (e for x in l) as the argument of tuple()/list(): map, or py_mapM when e can raise"""
        if len(node.generators) == 2 and all(isinstance(g.target, ast.Name) and not g.ifs and not g.is_async for g in node.generators) \
                and isinstance(node.elt, ast.Name) and node.elt.id == node.generators[1].target.id:
            # (s for t in A for s in f(t)): the sequences f(t), t in A, one after the other
            g1, g2 = node.generators
            b, c, t = self.expr(g1.iter, env)
            if not is_list(t):
                raise Untranslatable(node, f"comprehension over a {t}")
            bi, ci, ti = self.expr(g2.iter, {**env, g1.target.id: elem(t)})
            if not is_list(ti):
                raise Untranslatable(node, f"inner comprehension over a {ti}")
            x = ident(g1.target.id)
            if not bi:
                return b, f"(concat (map (fun {x} => {ci}) {c}))", ti
            tmp = self.fresh()
            return b + [(tmp, f"(py_mapM (fun {x} =>\n{self.wrap(bi, 'Ret ' + ci)}) {c})")], f"(concat {tmp})", ti
        if len(node.generators) != 1 or node.generators[0].is_async:
            raise Untranslatable(node, "comprehension with several `for` (other than a flattening `for t in A for s in f(t)`)")
        g = node.generators[0]
        b, c, t = self.expr(g.iter, env)
        if not is_list(t):
            raise Untranslatable(node, f"comprehension over a {t}")
        if isinstance(g.target, ast.Tuple) and len(g.target.elts) == 2 and all(isinstance(e, ast.Name) for e in g.target.elts) \
                and elem(t).startswith("(") and elem(t).count(" * ") == 1 and not g.ifs:              # (e for a, b in <list of pairs>)
            names, tys = [e.id for e in g.target.elts], elem(t)[1:-1].split(" * ")
            be, ce, te = self.expr(node.elt, {**env, **dict(zip(names, tys))})
            pat = "'(" + ", ".join(map(ident, names)) + ")"
            if not be:
                return b, f"(map (fun {pat} => {ce}) {c})", "list " + te
            tmp = self.fresh()
            return b + [(tmp, f"(py_mapM (fun {pat} =>\n{self.wrap(be, 'Ret ' + ce)}) {c})")], tmp, "list " + te
        if not isinstance(g.target, ast.Name):
            raise Untranslatable(node, "comprehension target other than a name or a pair of names over a list of pairs")
        for cond in g.ifs:                                 # [.. for x in l if c]: the elements of l that satisfy c (c pure), in order
            c = f"(filter {self.pure_lambda(g.target.id, cond, env, elem(t), node)} {c})"
        if isinstance(node.elt, ast.Name) and node.elt.id == g.target.id:
            return b, c, t
        be, ce, te = self.expr(node.elt, {**env, g.target.id: elem(t)})
        x = ident(g.target.id)
        if not be:
            return b, f"(map (fun {x} => {ce}) {c})", "list " + te
        tmp = self.fresh()
        return b + [(tmp, f"(py_mapM (fun {x} =>\n{self.wrap(be, 'Ret ' + ce)}) {c})")], tmp, "list " + te

    def reduce(self, n, env):
        """reduce(or_, l, init) on dicts: fold_left py_dict_or;  reduce(lambda a, x: e, l, init): py_for (fun a x => e) l init.
        reduce(lambda a, k: a.setdefault(k, {}), ks, root) with root a never-aliased local dict: the accumulator is a REFERENCE
        into root (PyTree.ref), starting at ref_root root."""
        fn, it, init = n.args
        bl, cl, tl = self.comprehension(it, env) if isinstance(it, ast.GeneratorExp) else self.expr(it, env)
        if not is_list(tl):
            raise Untranslatable(n, f"reduce over a {tl}")
        bi, ci, ti = self.expr(init, env, "dict ?" if isinstance(init, ast.Dict) else None)
        if unp(fn) == "or_":
            ty = elem(tl) if ti == "dict ?" else ti
            if not same(ty, elem(tl)):
                raise Untranslatable(n, f"reduce(or_) of {tl} from a {ti}")
            return bl + bi, f"(fold_left (fun a_ b_ => py_dict_or {self.dict_eqb(n, ty)} a_ b_) {cl} {ci})", ty
        if not (isinstance(fn, ast.Lambda) and len(fn.args.args) == 2 and not fn.args.defaults):
            raise Untranslatable(n, "reduce with a function other than or_ / a two-argument lambda")
        a, x = fn.args.args[0].arg, fn.args.args[1].arg
        walk = isinstance(fn.body, ast.Call) and isinstance(fn.body.func, ast.Attribute) and fn.body.func.attr == "setdefault" and unp(fn.body.func.value) == a
        if walk:
            if not (isinstance(init, ast.Name) and init.id in self.mutated and ti == "dict (key * tree)"):
                raise Untranslatable(n, "setdefault walk from something else than a never-aliased local dict of trees")
            ci, ti = f"(ref_root {ci})", "ref:" + init.id
        be, ce, te = self.expr(fn.body, {**env, a: ti, x: elem(tl)})
        if te != ti:
            raise Untranslatable(n, f"reduce whose function maps a {ti} to a {te}")
        tmp = self.fresh()
        return bl + bi + [(tmp, f"(py_for (fun {ident(a)} {ident(x)} =>\n{self.wrap(be, 'Ret ' + ce)}) {cl} {ci})")], tmp, ti

    def e_ListComp(self, n, env, want):
        return self.comprehension(n, env)

    def e_Call(self, n, env, want):
        f = unp(n.func)
        args, kws = n.args, n.keywords
        if f in self.tgt.calls or f in self.tr.funcs:                                 # translated function (nested, itself, or earlier target)
            return self.call_known(n, f, env)
        if f not in env and f in self.tr.helpers:
            # a pure helper of the same file / class - plain assignments of new locals, then `return e` - called as h(..), Cls.h(..) or
            # self.h(..): the call is replaced by e, with the helper's locals and parameters replaced by what they stand for
            h = self.tr.helpers[f]
            m = dict(zip([a.arg for a in h.args.args], self.match_args(n, [a.arg for a in h.args.args], args, kws)))
            free = {x.id for x in ast.walk(h) if isinstance(x, ast.Name)} - set(m) - {t.targets[0].id for t in h.body[:-1]}
            if free & {k for k in env if not k.startswith("@")}:
                raise Untranslatable(n, f"globals {sorted(free & set(env))} of {f} are shadowed by locals at the call")
            for st in h.body[:-1]:
                m[st.targets[0].id] = substituted(st.value, m)
            self.tr.helpers = {k: v for k, v in self.tr.helpers.items() if k != f}    # no recursion through helpers
            try:
                return self.expr(ast.copy_location(substituted(h.body[-1].value, m), n), env, want)
            finally:
                self.tr.helpers[f] = h
        if f == "torch.split" and len(args) == 2 and [k.arg for k in kws] == ["dim"]:   # torch.split(t, b, dim=d) on a strided view
            b, cs, ts = self.seq_of([*args, kws[0].value], env)
            if ts != ["view", "Z", "Z"]:
                raise Untranslatable(n, f"torch.split applied to {ts}")
            tmp = self.fresh()
            return b + [(tmp, f"(pv_split {cs[0]} {cs[1]} {cs[2]})")], tmp, "list view"
        if f in self.tgt.foreign and not kws:                                         # a foreign function that is a parameter of the module
            gname, atys, rty, exc = self.tgt.foreign[f]
            b, cs, ts = self.seq_of(args, env)
            if ts != atys:
                raise Untranslatable(n, f"{f} applied to {ts}, declared for {atys}")
            call = "(" + " ".join([gname, *cs]) + ")"
            if exc is None:
                return b, call, rty
            tmp = self.fresh()
            return b + [(tmp, f"(py_of_option {call} {exc})")], tmp, rty
        if f == "reduce" and len(args) == 3 and not kws:
            return self.reduce(n, env)
        if isinstance(n.func, ast.Attribute) and n.func.attr == "items" and not args and not kws:
            b, c, t = self.expr(n.func.value, env)
            if is_dict(t) and t != "dict ?":
                return b, c, "list " + t[5:]                                          # d.items(): the (key, value) pairs in insertion order
        if isinstance(n.func, ast.Attribute) and n.func.attr == "setdefault" and len(args) == 2 and not kws \
                and isinstance(args[1], ast.Dict) and not args[1].keys:               # r.setdefault(k, {}) on a reference into a local dict
            b, c, t = self.expr(n.func.value, env)
            bk, ck, tk = self.expr(args[0], env)
            if t.startswith("ref:") and tk == "key":
                tmp = self.fresh()
                return b + bk + [(tmp, f"(ref_setdefault {c} {ck})")], tmp, t
        if isinstance(n.func, ast.Attribute) and n.func.attr == "join" and len(args) == 1 and not kws \
                and isinstance(n.func.value, ast.Constant) and isinstance(n.func.value.value, str) and '"' not in n.func.value.value:
            b, c, t = self.expr(args[0], env)                                         # "sep".join(l)
            if t == "list string":
                return b, f'(py_str_join "{n.func.value.value}"%string {c})', "string"
        if f == "sorted" and len(args) == 1 and not kws:                              # sorted(l) on strings
            b, c, t = self.comprehension(args[0], env) if isinstance(args[0], ast.GeneratorExp) else self.expr(args[0], env)
            if t == "list string":
                return b, f"(py_sorted_str {c})", t
        if isinstance(n.func, ast.Name) and env.get(f) == "(Z -> Z)" and len(args) == 1 and not kws:      # a callable parameter: total function
            b, c, t = self.expr(args[0], env)
            if t != "Z":
                raise Untranslatable(n, f"callable parameter applied to a {t}")
            return b, f"({ident(f)} {c})", "Z"
        if f == "accumulate" and len(args) == 1 and len(kws) == 1 and kws[0].arg == "initial":     # accumulate(l, initial=a) = accumulate(chain([a], l))
            b, c, t = self.expr(args[0], env)
            bi, ci, ti = self.expr(kws[0].value, env)
            if t != "list Z" or ti != "Z":
                raise Untranslatable(n, f"accumulate of a {t} with initial {ti}")
            return b + bi, f"(py_accumulate ([{ci}] ++ {c}))", "list Z"
        if f in ("tuple", "list") and len(args) == 1 and not kws and isinstance(args[0], ast.GeneratorExp):
            return self.comprehension(args[0], env)
        if f == "len" and len(args) == 1 and isinstance(args[0], ast.Call) and unp(args[0].func) == "set" and len(args[0].args) == 1 and not kws:
            b, c, t = self.expr(args[0].args[0], env)
            if t != "list Z":
                raise Untranslatable(n, f"len(set(..)) of a {t}")
            return b, f"(py_len_set {c})", "Z"
        if f == "zip" and 2 <= len(args) <= 4 and [k.arg for k in kws] == ["strict"] and isinstance(kws[0].value, ast.Constant) and kws[0].value.value is True:
            b, cs, ts = self.seq_of(args, env)                                      # zip(a, b, .., strict=True): ValueError on different lengths
            if not all(is_list(t) for t in ts):
                raise Untranslatable(n, f"zip of {ts}")
            code = cs[0]
            for c in cs[1:]:
                tmp = self.fresh()
                b = b + [(tmp, f"(py_zip_strict {code} {c})")]
                code = tmp
            return b, code, "list (" + " * ".join(elem(t) for t in ts) + ")"
        if f == "enumerate" and len(args) == 1 and not kws:
            b, c, t = self.expr(args[0], env)
            if not is_list(t):
                raise Untranslatable(n, f"enumerate of a {t}")
            return b, f"(py_enumerate {c})", f"list (Z * {elem(t)})"
        if f == "sorted":                      # only: sorted(l, key=<second component>, reverse=True) on pairs with an int second component
            kw = {k.arg: k.value for k in kws}
            key = kw.get("key")
            if len(args) == 1 and set(kw) == {"key", "reverse"} and isinstance(key, ast.Attribute) and key.attr == "__getitem__" \
                    and isinstance(kw["reverse"], ast.Constant) and kw["reverse"].value is True:
                bl, cl, tl = self.expr(key.value, env)
                b, c, t = self.expr(args[0], env)
                if tl != "list Z" or t != "list Z":
                    raise Untranslatable(n, f"sorted({t}, key=<{tl}>.__getitem__)")
                tmp = self.fresh()
                return b + bl + [(tmp, f"(py_sorted_desc_getitem {cl} {c})")], tmp, "list Z"
            by_snd = key is not None and (unp(key) == "operator.itemgetter(1)" or (isinstance(key, ast.Lambda) and len(key.args.args) == 1
                                          and unp(key.body) == f"{key.args.args[0].arg}[1]"))
            if len(args) != 1 or set(kw) != {"key", "reverse"} or not by_snd or not (isinstance(kw["reverse"], ast.Constant) and kw["reverse"].value is True):
                raise Untranslatable(n, "sorted(..) other than sorted(l, key=operator.itemgetter(1) | lambda p: p[1], reverse=True)")
            b, c, t = self.expr(args[0], env)
            if not (is_list(t) and elem(t).endswith("* Z)")):
                raise Untranslatable(n, f"sorted by the second component of a {t}")
            return b, f"(py_sorted_desc_snd {c})", t
        if isinstance(n.func, ast.Attribute) and not f.startswith("math."):         # method calls on tensors
            b, c, t = self.expr(n.func.value, env)
            meth = n.func.attr
            if t == "view" and meth == "dim" and not args and not kws:
                return b, f"(pv_dim {c})", "Z"
            if t == "tensor" and meth in ("size", "numel") and not args and not kws:
                return b, f"({'t_shape' if meth == 'size' else 't_len'} {c})", ("list Z" if meth == "size" else "Z")
            if t == "tensor" and meth == "narrow":
                vals = self.match_args(n, ["dim", "start", "length"], args, kws)
                if not (isinstance(vals[0], ast.Constant) and vals[0].value == 0):
                    raise Untranslatable(n, "narrow along a dimension other than the literal 0")
                b1, cs, ts = self.seq_of(vals[1:], env)
                if ts != ["Z", "Z"]:
                    raise Untranslatable(n, "narrow with non-int arguments")
                return b + b1, f"(t_narrow0 {c} {cs[0]} {cs[1]})", "tensor"
            if t == "tensor" and meth == "view" and len(args) == 1 and not kws:
                b1, c1, t1 = self.expr(args[0], env)
                if t1 != "list Z":
                    raise Untranslatable(n, "view with something else than one list of ints")
                return b + b1, f"(t_view {c} {c1})", "tensor"
            raise Untranslatable(n, f"method `{meth}` on a {t} is outside the subset")
        if kws:
            raise Untranslatable(n, "keyword arguments to a builtin")
        if f in ("len", "prod", "math.prod", "sum", "list", "tuple", "accumulate", "pairwise") and len(args) == 1:
            b, c, t = self.expr(args[0], env)
            if not is_list(t):
                raise Untranslatable(n, f"{f} of a {t}")
            if f in ("list", "tuple"):
                return b, c, t
            if f == "len":
                return b, f"(py_len {c})", "Z"
            if f == "pairwise":
                return b, f"(py_pairwise {c})", f"list ({elem(t)} * {elem(t)})"
            if t != "list Z":
                raise Untranslatable(n, f"{f} of a {t}")
            return b, f"({dict(prod='py_prod', sum='py_sum', accumulate='py_accumulate').get(f.split('.')[-1])} {c})", ("list Z" if f == "accumulate" else "Z")
        if f in ("compress", "chain") and len(args) == 2:
            b1, c1, t1 = self.expr(args[0], env)
            b2, c2, t2 = self.expr(args[1], env)
            if f == "chain" and is_list(t1) and t1 == t2:
                return b1 + b2, f"({c1} ++ {c2})", t1
            if f == "compress" and is_list(t1) and t2 == "list bool":
                return b1 + b2, f"(py_compress {c1} {c2})", t1
            raise Untranslatable(n, f"{f} on {t1} and {t2}")
        if f == "range" and len(args) in (1, 2):
            b, cs, ts = self.seq_of(args, env)
            if set(ts) != {"Z"}:
                raise Untranslatable(n, "range of non-ints")
            return b, f"(py_range {'0' if len(cs) == 1 else cs[0]} {cs[-1]})", "list Z"
        if f == "filter" and len(args) == 2 and isinstance(args[0], ast.Lambda) and len(args[0].args.args) == 1:
            b, c, t = self.expr(args[1], env)
            if not is_list(t):
                raise Untranslatable(n, f"filter over a {t}")
            return b, f"(filter {self.pure_lambda(args[0].args.args[0].arg, args[0].body, env, elem(t), n)} {c})", t
        if f == "any" and len(args) == 1 and not isinstance(args[0], ast.GeneratorExp) and not kws:
            b, c, t = self.expr(args[0], env)
            if t != "list bool":
                raise Untranslatable(n, f"any(..) of a {t}")
            return b, f"(existsb (fun b_ => b_) {c})", "bool"
        if f == "all" and len(args) == 1 and not isinstance(args[0], ast.GeneratorExp):
            b, c, t = self.expr(args[0], env)
            if t != "list bool":
                raise Untranslatable(n, f"all(..) of a {t}")
            return b, f"(forallb (fun b_ => b_) {c})", "bool"
        if f == "any" and len(args) == 1 and isinstance(args[0], ast.GeneratorExp) and not kws:       # any(not P ..) is not all(P ..): one normal form
            elt = args[0].elt
            inner = elt.operand if isinstance(elt, ast.UnaryOp) and isinstance(elt.op, ast.Not) else ast.copy_location(ast.UnaryOp(op=ast.Not(), operand=elt), elt)
            call = ast.Call(func=ast.Name(id="all", ctx=ast.Load()), args=[ast.GeneratorExp(elt=inner, generators=args[0].generators)], keywords=[])
            b, c, t = self.expr(ast.fix_missing_locations(ast.copy_location(call, n)), env)
            return b, f"(negb {c})", "bool"
        if f == "all" and len(args) == 1 and isinstance(args[0], ast.GeneratorExp) and len(args[0].generators) == 1:
            g = args[0].generators[0]
            if g.ifs or g.is_async or not isinstance(g.target, ast.Name):
                raise Untranslatable(n, "generator with conditions / tuple targets")
            b, c, t = self.expr(g.iter, env)
            if not is_list(t):
                raise Untranslatable(n, f"all(...) over a {t}")
            return b, f"(forallb {self.pure_lambda(g.target.id, args[0].elt, env, elem(t), n)} {c})", "bool"
        raise Untranslatable(n, f"call of `{f}` is outside the subset")

    @staticmethod
    def match_args(n, params, args, kws):
        vals = dict(zip(params, args))
        if len(args) > len(params):
            raise Untranslatable(n, "too many positional arguments")
        for k in kws:
            if k.arg not in params or k.arg in vals:
                raise Untranslatable(n, f"unexpected / duplicate keyword argument {k.arg}")
            vals[k.arg] = k.value
        if set(vals) != set(params):
            raise Untranslatable(n, f"missing arguments {sorted(set(params) - set(vals))} (default values are outside the subset)")
        return [vals[p] for p in params]

    def call_known(self, n, f, env):
        if f in self.tgt.calls:
            if self.tgt.calls[f] not in self.tr.exported:
                raise Untranslatable(n, f"`{f}` is mapped to {self.tgt.calls[f]}, which was not translated earlier in this run")
            info = self.tr.exported[self.tgt.calls[f]]
        else:
            info = self.tr.funcs[f]
        vals = self.match_args(n, [p for p, _ in info["params"]], n.args, n.keywords)
        binds, codes = [], []
        # Python evaluates the arguments in the order they are WRITTEN (positional, then keywords)
        written = list(n.args) + [k.value for k in n.keywords]
        ptype = {id(v): ty for (_, ty), v in zip(info["params"], vals)}
        done = {}
        for v in written:
            if isinstance(v, ast.Lambda) and len(v.args.args) == 1 and not v.args.defaults:      # lambda x: <pure int expression> for a callable parameter
                bl, cl, tl = self.expr(v.body, {**env, v.args.args[0].arg: "Z"})
                if bl or tl != "Z":
                    raise Untranslatable(v, "lambda argument whose body can raise or is not an int")
                b, c, t = [], f"(fun {ident(v.args.args[0].arg)} => {cl})", "(Z -> Z)"
            else:
                b, c, t = self.expr(v, env, ptype.get(id(v)))
            binds += b
            done[id(v)] = (c, t)
        for (p, ty), v in zip(info["params"], vals):
            c, t = done[id(v)]
            if not same(t, ty):
                raise Untranslatable(n, f"argument `{p}` of {f} has type {t}, expected {ty}")
            codes.append(c)
        for cv in info["closure"]:
            if cv not in env:
                raise Untranslatable(n, f"closure variable {cv} of {f} is not bound here")
        if "inline" in info:
            free = {x.id for x in ast.walk(info["inline"]) if isinstance(x, ast.Name)}
            shadow = [k for k in env if not k.startswith("@") and k not in info["defenv"] and k in free and k not in dict(info["params"])]
            if shadow:
                raise Untranslatable(n, f"{shadow} at the call of {f} would capture names of its body")
            e2 = {**env, **dict(info["params"]), "@ren": {**env.get("@ren", {}), **{p: c for (p, _), c in zip(info["params"], codes)}}}
            b, c, t = self.expr(info["inline"], e2, info["ret"])
            if info["ret"] is not None and not same(info["ret"], t):
                raise Untranslatable(n, f"{f} returns a {t}, annotated {info['ret']}")
            return binds + b, c, (info["ret"] if t in ("dict ?", "list ?") else t)
        pre = [ident(cv) for cv in info["closure"]]
        mine = {pn: ty for _, pn, ty in self.tgt.atoms}
        for pn, ty in info.get("atoms", []):          # attributes of the same `self` that the callee reads: passed on under the same name
            if mine.get(pn) != ty:
                raise Untranslatable(n, f"{f} reads the attribute parameter `{pn}`, which is not an atom of the caller")
            codes.append(pn)
        if info["recursive"]:
            fuel = "fuel" if f == self.name else f"({self.tgt.fuel})"
            if f != self.name and not self.tgt.fuel:
                raise Untranslatable(n, "call of a recursive function without a Target.fuel")
            pre = [fuel] + pre
        t = self.fresh()
        return binds + [(t, "(" + " ".join([info["coq"], *pre, *codes]) + ")")], t, info["ret"]

    # ---- statements.  k(env) yields the code of what follows the block; it is only called on paths that fall through.
    def block(self, stmts, env, k):
        if not stmts:
            return k(env)
        s, rest = stmts[0], stmts[1:]
        nxt = lambda e: self.block(rest, e, k)                                    # noqa: E731
        if any(unp(s).startswith(pre) for pre in self.tgt.drop):                  # a statement left out of the slice (checked in prefix())
            return nxt(env)
        if self.tgt.actions:
            s = substituted(s, env.get("@subst"))          # decision mode: local names of existing objects are replaced by what they name
        if self.tgt.actions and isinstance(s, ast.Assign) and isinstance(s.value, ast.IfExp):
            # decision mode: x = a if c else b  is  if c: x = a  else: x = b  (so that the two assignments can be named as actions)
            mk = lambda v: ast.copy_location(ast.Assign(targets=s.targets, value=v), s)         # noqa: E731
            s = ast.fix_missing_locations(ast.copy_location(ast.If(test=s.value.test, body=[mk(s.value.body)], orelse=[mk(s.value.orelse)]), s))
        call = s.value if isinstance(s, (ast.Assign, ast.Expr, ast.Return)) else None
        while isinstance(call, (ast.Subscript, ast.Attribute)):                   # f(..)[1], f(..).Q: still the call of f
            call = call.value
        callee = unp(call.func) if isinstance(call, ast.Call) else None
        tag = next((t for pre, t in self.tgt.actions.items()
                    if (re.fullmatch(pre[3:], unp(s)) if pre.startswith("re:") else unp(s).startswith(pre) or callee == pre)), None) if self.tgt.actions else None
        if tag is None and self.tgt.actions and isinstance(s, ast.Return) and s.value is not None:
            # `return E` where `x = E` is a named action: the same computation, returned directly
            tag = next((t for pre, t in self.tgt.actions.items() if re.match(r"^[A-Za-z_][A-Za-z_0-9]* = ", pre) and pre.split(" = ", 1)[1] == unp(s.value)), None)
        if self.tgt.actions and tag is None and isinstance(s, ast.Assign) and len(s.targets) == 1 and isinstance(s.targets[0], ast.Name) \
                and s.targets[0].id not in env and s.targets[0].id not in self.fparams \
                and not any(re.search(rf"\b{s.targets[0].id}\b", a[0]) for a in self.tgt.atoms):
            x = s.targets[0].id
            if is_reference(s.value):                      # x = state_lists[KEY]: x is another name of that object
                return nxt({**env, "@subst": {**env.get("@subst", {}), x: s.value}})
            if any(re.fullmatch(pat, unp(s)) for pat in self.tgt.opaque):
                # x = <tensor expression> whose text the target lists (Target.opaque): a new local that no test can use (it is not in
                # the environment); the statements that use it must be actions.  Only for names that are neither parameters nor
                # part of an atom.
                return nxt({**env, "@subst": {k: v for k, v in env.get("@subst", {}).items() if k != x}})
        if tag is not None and isinstance(s, (ast.Assign, ast.Expr, ast.Return)):  # decision mode: a statement with (tensor) side effects
            code = f"let acts_ := (acts_ ++ [({tag})]) in\n"                       # is recorded by its tag; what it binds is not a value here
            return code + ("Ret (acts_, true)" if isinstance(s, ast.Return) else nxt(env))
        m = getattr(self, "s_" + type(s).__name__, None)
        if m is None:
            raise Untranslatable(s, f"statement form {type(s).__name__} is outside the subset")
        return m(s, env, nxt)

    def bind_var(self, name, binds, code, ty, env, nxt, node):
        for cv_owner, info in self.tr.funcs.items():
            if name in info["closure"] and info.get("owner") == self.name:
                raise Untranslatable(node, f"`{name}` is read by the nested function {cv_owner} and re-bound after its definition")
        if name in env.get("@ren", {}) or name in env.get("@alias", {}):
            raise Untranslatable(node, f"`{name}` is re-bound inside an isinstance branch / while it is an alias of a list owned by self")
        e2 = dict(env)
        e2[name] = ty
        if binds and binds[-1][0] == code:                 # x = <raising expression>: bind it directly to x
            return self.wrap(binds[:-1], f"bind {binds[-1][1]} (fun {ident(name)} =>\n{nxt(e2)})")
        return self.wrap(binds, f"let {ident(name)} := {code} in\n{nxt(e2)}")

    def check_mutable(self, name, node):
        if name not in self.mutated and name not in self.state:
            raise Untranslatable(node, f"in-place update of `{name}`, which is not a never-aliased local list (see docstring)")

    def s_Assign(self, s, env, nxt):
        if len(s.targets) != 1:
            raise Untranslatable(s, "multiple assignment targets")
        tg = s.targets[0]
        if isinstance(s.value, ast.Call) and unp(s.value.func) == "heapq.heappop":       # x = heappop(h) / (a, b) = heappop(h): also re-binds h
            h = self.heap_arg(s.value, env, 1)
            if isinstance(tg, ast.Tuple) and len(tg.elts) == 2 and all(isinstance(e, ast.Name) for e in tg.elts):
                pat, new = f"'(({ident(tg.elts[0].id)}, {ident(tg.elts[1].id)}), {ident(h)})", {tg.elts[0].id: "Z", tg.elts[1].id: "Z"}
            elif isinstance(tg, ast.Name):
                pat, new = f"'({ident(tg.id)}, {ident(h)})", {tg.id: "(Z * Z)"}
            else:
                raise Untranslatable(s, "heappop must be bound to a name or a pair of names")
            return f"bind (pq_pop {ident(h)}) (fun {pat} =>\n{nxt({**env, **new})})"
        if isinstance(tg, ast.Tuple) and len(tg.elts) == 2 and isinstance(tg.elts[0], ast.Name) and isinstance(tg.elts[1], ast.Starred) \
                and isinstance(tg.elts[1].value, ast.Name):                               # first, *rest = l  (ValueError if l is empty)
            b, c, t = self.expr(s.value, env)
            if not is_list(t):
                raise Untranslatable(s, f"star-unpacking of a {t}")
            a, r = tg.elts[0].id, tg.elts[1].value.id
            for v in (a, r):
                if v in self.state or v in env.get("@ren", {}) or v in env.get("@alias", {}):
                    raise Untranslatable(s, f"`{v}` cannot be re-bound here")
            return self.wrap(b, f"bind (py_uncons {c}) (fun '({ident(a)}, {ident(r)}) =>\n{nxt({**env, a: elem(t), r: t})})")
        if isinstance(tg, ast.Tuple) and len(tg.elts) == 2 and isinstance(tg.elts[1], ast.Name) and isinstance(tg.elts[0], ast.Starred) \
                and isinstance(tg.elts[0].value, ast.Name):                               # *init, last = l  (ValueError if l is empty)
            b, c, t = self.expr(s.value, env)
            if not is_list(t):
                raise Untranslatable(s, f"star-unpacking of a {t}")
            r, a = tg.elts[0].value.id, tg.elts[1].id
            for v in (a, r):
                if v in self.state or v in env.get("@ren", {}) or v in env.get("@alias", {}):
                    raise Untranslatable(s, f"`{v}` cannot be re-bound here")
            return self.wrap(b, f"bind (py_unsnoc {c}) (fun '({ident(r)}, {ident(a)}) =>\n{nxt({**env, a: elem(t), r: t})})")
        if isinstance(tg, ast.Tuple) and len(tg.elts) == 2 and all(isinstance(e, ast.Name) for e in tg.elts) and is_list(self.expr(s.value, env)[2]):
            b, c, t = self.expr(s.value, env)                                             # a, b = l : ValueError unless len(l) == 2
            a0, a1 = tg.elts[0].id, tg.elts[1].id
            for v in (a0, a1):
                if v in self.state or v in env.get("@ren", {}) or v in env.get("@alias", {}):
                    raise Untranslatable(s, f"`{v}` cannot be re-bound here")
            return self.wrap(b, f"bind (py_unpack2 {c}) (fun '({ident(a0)}, {ident(a1)}) =>\n{nxt({**env, a0: elem(t), a1: elem(t)})})")
        if isinstance(tg, ast.Tuple) and all(isinstance(e, ast.Name) for e in tg.elts):  # (a, b) = <pair>
            b, c, t = self.expr(s.value, env)
            if not (t.startswith("(") and t.count("*") == len(tg.elts) - 1 == 1):
                raise Untranslatable(s, f"unpacking of a {t} into {len(tg.elts)} names")
            tys = t[1:-1].split(" * ")
            e2 = dict(env)
            for e, ty in zip(tg.elts, tys):
                if e.id in self.state or e.id in env.get("@ren", {}):
                    raise Untranslatable(s, f"`{e.id}` cannot be re-bound here")
                e2[e.id] = ty
            return self.wrap(b, f"let '({', '.join(ident(e.id) for e in tg.elts)}) := {c} in\n{nxt(e2)}")
        if isinstance(tg, ast.Name) and self.atom(s.value) and self.atom(s.value)[0] in self.state:
            # x = self.<state list>: x is another name for the SAME list; reads and updates through x are those of the state list
            if tg.id in env or tg.id in self.state:
                raise Untranslatable(s, f"`{tg.id}` is already bound; it cannot become an alias of a list owned by self")
            return nxt({**env, "@alias": {**env.get("@alias", {}), tg.id: self.atom(s.value)[0]}})
        if isinstance(tg, ast.Name) and isinstance(s.value, ast.Name) and s.value.id in self.mutated:
            # x = d for a never-aliased local dict d of trees: x is a REFERENCE to d (PyTree.ref_root); for any other updatable local
            # a second name would be an untracked alias
            root = s.value.id
            if env.get(root) != "dict (key * tree)" or tg.id in self.state or tg.id == root:
                raise Untranslatable(s, f"`{tg.id} = {root}` makes an alias of an updatable local that is not a dict of trees")
            return f"let {ident(tg.id)} := ref_root {ident(root)} in\n{nxt({**env, tg.id: 'ref:' + root})}"
        if isinstance(tg, ast.Name):
            want = env.get(tg.id)
            b, c, t = self.expr(s.value, env, want)
            return self.bind_var(tg.id, b, c, t, env, nxt, s)
        if isinstance(tg, ast.Subscript) and (isinstance(tg.value, ast.Name) or self.atom(tg.value)) and not isinstance(tg.slice, ast.Slice):
            x = tg.value.id if isinstance(tg.value, ast.Name) else self.atom(tg.value)[0]
            x = env.get("@alias", {}).get(x, x)
            if env.get(x, "").startswith("ref:"):                                   # r[k] = v through a reference: the root dict changes
                root = env[x][4:]
                self.check_mutable(root, s)
                bk, ck, tk = self.expr(tg.slice, env)
                bv, cv, tv = self.expr(s.value, env)
                cv, tv = (f"(Leaf {cv})", "tree") if tv == "lf" else (cv, tv)         # a leaf stored in a dict of trees
                if tk != "key" or tv != "tree":
                    raise Untranslatable(s, f"assignment of a {tv} under a {tk} through a reference into a dict of trees")
                e2 = {k: v for k, v in env.items() if not (isinstance(v, str) and v == "ref:" + root)}      # the root is re-bound: its references are stale
                return self.wrap(bv + bk, f"bind (ref_setitem {ident(x)} {ck} {cv}) (fun {ident(root)} =>\n{nxt(e2)})")
            if is_dict(env.get(x, "")):                                             # d[k] = v on a never-aliased local dict
                self.check_mutable(x, s)
                bk, ck, tk = self.expr(tg.slice, env)
                bv, cv, tv = self.expr(s.value, env)
                dk, dv = dict_kv(env[x]) if env[x] != "dict ?" else (tk, tv)
                cv, tv = (f"(Leaf {cv})", "tree") if (tv, dv) == ("lf", "tree") else (cv, tv)
                if (tk, tv) != (dk, dv):
                    raise Untranslatable(s, f"item assignment {tk} -> {tv} into a {env[x]}")
                ty = f"dict ({dk} * {dv})"
                e2 = {k: v for k, v in env.items() if not (isinstance(v, str) and v == "ref:" + x)}
                return self.wrap(bv + bk, f"let {ident(x)} := py_dict_set {self.dict_eqb(s, ty)} {ck} {cv} {ident(x)} in\n{nxt({**e2, x: ty})}")
            self.check_mutable(x, s)
            if x not in env or not is_list(env[x]):
                raise Untranslatable(s, f"`{x}` is not a bound list")
            bi, ci, ti = self.expr(tg.slice, env)
            bv, cv, tv = self.expr(s.value, env)
            if ti != "Z" or tv != elem(env[x]):
                raise Untranslatable(s, "item assignment with a non-int index or a value of another type")
            t = self.fresh()
            # Python evaluates the right-hand side before the subscript
            return self.bind_var(x, bv + bi + [(t, f"(py_setitem {ident(x)} {ci} {cv})")], t, env[x], env, nxt, s)
        raise Untranslatable(s, "assignment target outside the subset")

    def s_AnnAssign(self, s, env, nxt):
        if s.value is None or not isinstance(s.target, ast.Name):
            raise Untranslatable(s, "annotated assignment without a value / to a non-name")
        try:
            want = self.tr.ann(s.annotation, self.tgt, s.target.id)
        except Untranslatable:
            want = None                                    # the annotation of a local is only a hint
        b, c, t = self.expr(s.value, env, want)
        return self.bind_var(s.target.id, b, c, (want if want and t in ("dict ?", "list ?") and same(want, t) else t), env, nxt, s)

    def s_AugAssign(self, s, env, nxt):
        """x[i] += e  is  x[i] = x[i] + e  with x and i evaluated once (i is required to be pure)"""
        tg = s.target
        if isinstance(tg, ast.Name) and isinstance(s.op, ast.Add) and is_list(env.get(tg.id, "")):         # l += e: l.extend(e) in place
            call = ast.Call(func=ast.Attribute(value=ast.Name(id=tg.id, ctx=ast.Load()), attr="extend", ctx=ast.Load()), args=[s.value], keywords=[])
            return self.s_Expr(ast.fix_missing_locations(ast.copy_location(ast.Expr(value=call), s)), env, nxt)
        if isinstance(tg, ast.Name) and isinstance(s.op, ast.BitOr) and is_dict(env.get(tg.id, "")):      # d |= e: d.update(e) in place
            self.check_mutable(tg.id, s)
            b, c, t = self.expr(s.value, env, env[tg.id])
            if not same(t, env[tg.id]):
                raise Untranslatable(s, f"`|=` of a {t} into a {env[tg.id]}")
            ty = t if env[tg.id] == "dict ?" else env[tg.id]
            e2 = {k: v for k, v in env.items() if not (isinstance(v, str) and v == "ref:" + tg.id)}
            return self.wrap(b, f"let {ident(tg.id)} := py_dict_or {self.dict_eqb(s, ty)} {ident(tg.id)} {c} in\n{nxt({**e2, tg.id: ty})}")
        if not (isinstance(tg, ast.Subscript) and isinstance(s.op, (ast.Add, ast.Sub)) and not self.expr(tg.slice, env)[0]):
            raise Untranslatable(s, "augmented assignment other than x[i] += e / x[i] -= e with a non-raising index")
        load = ast.Subscript(value=tg.value, slice=tg.slice, ctx=ast.Load())
        new = ast.Assign(targets=[tg], value=ast.BinOp(left=load, op=s.op, right=s.value))
        for x in (load, new, new.value):
            ast.copy_location(x, s)
        return self.s_Assign(new, env, nxt)

    def heap_arg(self, call, env, nargs):
        """the heap of a heapq call: a never-aliased local list of int pairs"""
        if len(call.args) != nargs or call.keywords or not isinstance(call.args[0], ast.Name):
            raise Untranslatable(call, "heapq call on something else than a local name")
        h = call.args[0].id
        self.check_mutable(h, call)
        if env.get(h) != (HEAP if unp(call.func) != "heapq.heapify" else "list (Z * Z)"):
            raise Untranslatable(call, f"{unp(call.func)} on a {env.get(h)} (heapify: a list of int pairs; the others: a list that was heapified)")
        return h

    def s_Continue(self, s, env, nxt):
        if self.loop_ends:
            return self.loop_ends[-1](env)                 # the rest of the body is skipped: the loop state as it is now
        if not self.tgt.actions:
            raise Untranslatable(s, "continue outside a translated loop / the decision mode")
        return "Ret (acts_, true)"

    def s_Expr(self, s, env, nxt):
        v = s.value
        if isinstance(v, ast.Call) and isinstance(v.func, ast.Name) and v.func.id in self.tr.procs and v.func.id not in env:
            # h(a, b) as a statement, h a module-level procedure (`-> None`, no `return`) of the same file called with exactly its own
            # parameter names: its body is translated in place (its raise sites are numbered 100 + ordinal)
            h = self.tr.procs[v.func.id]
            if self.no_effect_deep(h.body) and all(isinstance(a, (ast.Name, ast.Constant)) for a in [*v.args, *(k.value for k in v.keywords)]):
                return nxt(env)                            # a procedure that only logs, called with names / constants: no effect
            if v.keywords or [unp(a) for a in v.args] != [a.arg for a in h.args.args]:
                raise Untranslatable(s, f"procedure {v.func.id} is not called with its own parameter names")
            for k, site in Translator.sites_of(h).items():
                self.sites.setdefault(k, 100 + site)
            procs, self.tr.procs = self.tr.procs, {k: x for k, x in self.tr.procs.items() if k != v.func.id}
            try:
                return self.block(h.body, env, nxt)
            finally:
                self.tr.procs = procs
        if isinstance(v, ast.Call) and unp(v.func) == "heapq.heapify":
            h = self.heap_arg(v, env, 1)
            return f"let {ident(h)} := pq_heapify {ident(h)} in\n{nxt({**env, h: HEAP})}"
        if isinstance(v, ast.Call) and unp(v.func) in ("heapq.heappush", "heapq.heapreplace"):
            h = self.heap_arg(v, env, 2)
            b, c, t = self.expr(v.args[1], env)
            if t != "(Z * Z)":
                raise Untranslatable(s, f"{unp(v.func)} of a {t}")
            if unp(v.func) == "heapq.heapreplace":         # the popped element is not used: statement form only
                return self.wrap(b, f"bind (pq_replace {ident(h)} {c}) (fun {ident(h)} =>\n{nxt(env)})")
            return self.wrap(b, f"let {ident(h)} := pq_push {ident(h)} {c} in\n{nxt(env)}")
        if isinstance(v, ast.Call) and isinstance(v.func, ast.Attribute) and v.func.attr == "update" and isinstance(v.func.value, ast.Name) \
                and len(v.args) == 1 and not v.keywords and is_dict(env.get(v.func.value.id, "")):        # d.update(e) is d |= e
            aug = ast.AugAssign(target=ast.Name(id=v.func.value.id, ctx=ast.Store()), op=ast.BitOr(), value=v.args[0])
            return self.s_AugAssign(ast.fix_missing_locations(ast.copy_location(aug, s)), env, nxt)
        if isinstance(v, ast.Call) and isinstance(v.func, ast.Attribute) and v.func.attr == "sort" and isinstance(v.func.value, ast.Name) \
                and not v.args and not v.keywords and env.get(v.func.value.id) == "list string":      # l.sort() in place, on strings
            x = v.func.value.id
            self.check_mutable(x, s)
            return self.bind_var(x, [], f"(py_sorted_str {ident(x)})", "list string", env, nxt, s)
        if isinstance(v, ast.Call) and unp(v.func) in self.tgt.calls:                   # e.g. super().__post_init__(): run for its exceptions
            b, c, t = self.expr(v, env)
            return self.wrap(b, nxt(env))
        if isinstance(v, ast.Constant) and isinstance(v.value, str):
            return nxt(env)                                                        # docstring / bare string
        if isinstance(v, ast.JoinedStr):                                           # bare f-string: no effect if its fields cannot raise
            if any(self.expr(x.value, env)[0] for x in ast.walk(v) if isinstance(x, ast.FormattedValue)):
                raise Untranslatable(s, "f-string statement whose fields can raise")
            return nxt(env)
        if isinstance(v, ast.Call) and unp(v.func) in self.tgt.ignore_calls:
            return nxt(env)
        if isinstance(v, ast.Call) and isinstance(v.func, ast.Attribute) and v.func.attr == "extend" and isinstance(v.func.value, ast.Name) and len(v.args) == 1 and not v.keywords:
            x = v.func.value.id                             # x.extend(l): x ++ l
            self.check_mutable(x, s)
            if x not in env or not is_list(env[x]):
                raise Untranslatable(s, f"`{x}` is not a bound list")
            b, c, t = self.expr(v.args[0], env)
            if not (is_list(t) and same(t, env[x])):
                raise Untranslatable(s, f"extend of a {env[x]} by a {t}")
            return self.bind_var(x, b, f"({ident(x)} ++ {c})", (t if env[x] == "list ?" else env[x]), env, nxt, s)
        if isinstance(v, ast.Call) and isinstance(v.func, ast.Attribute) and v.func.attr == "append" and isinstance(v.func.value, ast.Name) and len(v.args) == 1 and not v.keywords:
            x = v.func.value.id
            self.check_mutable(x, s)
            if x not in env or not is_list(env[x]):
                raise Untranslatable(s, f"`{x}` is not a bound list")
            b, c, t = self.expr(v.args[0], env)
            if not same("list " + t, env[x]):
                raise Untranslatable(s, f"append of a {t} to a {env[x]}")
            return self.bind_var(x, b, f"({ident(x)} ++ [{c}])", "list " + t, env, nxt, s)
        raise Untranslatable(s, "expression statement outside the subset")

    def s_Pass(self, s, env, nxt):
        return nxt(env)

    def s_Return(self, s, env, nxt):
        if getattr(self, "decision", False):               # decision mode: the returned value is not modelled, only that the function ends here
            if s.value is not None and not isinstance(s.value, ast.Name):
                raise Untranslatable(s, "decision mode: `return <expression>` must be listed in Target.actions")
            return "Ret (acts_, true)"
        return self.s_Return_value(s, env, nxt)

    def s_Return_value(self, s, env, nxt):
        if s.value is None:
            if self.ret_unit:
                return self.ret("tt")
            raise Untranslatable(s, "return without a value in a function not annotated `-> None`")
        b, c, t = self.expr(s.value, env, self.ret_type)
        if self.ret_type is not None and not same(self.ret_type, t):
            raise Untranslatable(s, f"returns a {t}, other paths / the annotation say {self.ret_type}")
        self.ret_type = t if self.ret_type in (None, "list ?") else self.ret_type
        if b and b[-1][0] == c and not self.state:
            return self.wrap(b[:-1], b[-1][1])                                     # tail call
        return self.wrap(b, self.ret(c))

    def site(self, stmt):
        return self.sites[(stmt.lineno, stmt.col_offset)] + self.tgt.site_base

    def s_Raise(self, s, env, nxt):
        cls = s.exc.func.id if isinstance(s.exc, ast.Call) and isinstance(s.exc.func, ast.Name) else s.exc.id if isinstance(s.exc, ast.Name) else None
        if isinstance(s.exc, ast.Name) and env.get(s.exc.id) == "py_exception":       # raise <parameter holding an exception object>
            cls = "PassedException"
        elif cls not in EXN:
            raise Untranslatable(s, "raise of something else than a known exception class or an exception parameter")
        return self.exc(cls, self.site(s))

    def s_Assert(self, s, env, nxt):
        k = self.site(s)
        b, c = self.truthy(s.test, env)
        return self.wrap(b, f"if {c} then\n{nxt(env)}\nelse {self.exc('AssertionError', k)}")

    def s_If(self, s, env, nxt):
        t = s.test
        neg = isinstance(t, ast.UnaryOp) and isinstance(t.op, ast.Not)          # `if not isinstance(..)`: the same match, branches swapped
        ti = t.operand if neg else t
        if isinstance(ti, ast.Call) and unp(ti.func) == "isinstance" and len(ti.args) == 2 and isinstance(ti.args[0], ast.Name) \
                and unp(ti.args[1]) == "dict" and env.get(ti.args[0].id) in DICT_UNIONS:      # if isinstance(x, dict): a match on the tree x
            x, ren = ti.args[0].id, env.get("@ren", {})
            (dc, dt), (oc, ot) = DICT_UNIONS[env[x]]
            gx, union, branches = self.gname(x, env), env[x], []
            for ctor, suffix, ty, stmts in ((dc, "_dict", dt, s.orelse if neg else s.body), (oc, "_leaf", ot, s.body if neg else s.orelse)):
                e1 = {**env, x: ty, "@ren": {**ren, x: gx + suffix}}
                branches.append(f"| {ctor} {gx + suffix} =>\n{self.block(stmts, e1, lambda e, ty=ty, suffix=suffix: nxt({**e, x: ty, '@ren': {**ren, x: gx + suffix}}))}")
            return f"match {gx} with\n" + "\n".join(branches) + "\nend"
        if isinstance(ti, ast.Call) and unp(ti.func) == "isinstance" and len(ti.args) == 2 and isinstance(ti.args[0], ast.Name) \
                and unp(ti.args[1]) == "Sequence" and env.get(ti.args[0].id) in UNIONS:
            x, ren, union = ti.args[0].id, env.get("@ren", {}), env[ti.args[0].id]
            branches = []
            (sq, sqt), (sc, sct) = UNIONS[union]
            for ctor, suffix, ty, stmts in ((sq, "_seq", sqt, s.orelse if neg else s.body), (sc, "_scalar", sct, s.body if neg else s.orelse)):
                e1 = {**env, x: ty, "@ren": {**ren, x: x + suffix}}

                def after(e, ty=ty, suffix=suffix):
                    # what follows the statement is copied into this branch of the match, where x is still known to be of this
                    # case; if it uses x in a way only the union type supports (x != 0 on a sequence) x gets its union type again
                    try:
                        return nxt({**e, x: ty, "@ren": {**ren, x: x + suffix}})
                    except Untranslatable:
                        return nxt({**e, x: union, "@ren": ren})
                branches.append(f"| {ctor} {x + suffix} =>\n{self.block(stmts, e1, after)}")
            return f"match {self.gname(x, env)} with\n" + "\n".join(branches) + "\nend"
        if self.tgt.actions and self.no_effect(s.body) and self.no_effect(s.orelse):
            return nxt(env)        # decision mode: `if <anything>: logging.warning(..)` - the test may mention results of actions; assumed not to raise
        if self.no_effect(s.body) and self.no_effect(s.orelse) and not self.truthy(t, env)[0]:
            return nxt(env)                                                        # e.g. `if c: logger.warning(..)` with a pure c
        pre = ""
        if isinstance(t, ast.Compare) and isinstance(t.left, ast.NamedExpr):       # if (y := e) <op> ... : y is bound first
            ne = t.left
            b, c, ty = self.expr(ne.value, env)
            env = dict(env)
            env[ne.target.id] = ty
            pre = (b, ne.target.id, c)
            t = ast.Compare(left=ast.Name(id=ne.target.id, ctx=ast.Load()), ops=t.ops, comparators=t.comparators)
            ast.copy_location(t, s.test)
        b, c = self.truthy(t, env)
        code = self.wrap(b, f"if {c} then\n{self.block(s.body, dict(env), nxt)}\nelse\n{self.block(s.orelse, dict(env), nxt)}")
        if pre:
            code = self.wrap(pre[0], f"let {ident(pre[1])} := {pre[2]} in\n{code}")
        return code

    def no_effect_deep(self, stmts):
        """only docstrings, pass, ignored (logging) calls, and `if`s over such statements"""
        return all(self.no_effect([x]) or (isinstance(x, ast.If) and self.no_effect_deep(x.body) and self.no_effect_deep(x.orelse)) for x in stmts)

    def no_effect(self, stmts):
        return all(isinstance(x, ast.Pass) or (isinstance(x, ast.Expr) and ((isinstance(x.value, ast.Constant) and isinstance(x.value.value, str))
                   or (isinstance(x.value, ast.Call) and unp(x.value.func) in self.tgt.ignore_calls))) for x in stmts)

    def assigned(self, stmts):
        out = []
        for s in stmts:
            for n in ast.walk(s):
                if isinstance(n, (ast.Return, ast.Break, ast.FunctionDef, ast.While, ast.Yield)):
                    raise Untranslatable(n, f"{type(n).__name__} inside a for loop")
                if isinstance(n, ast.Name) and isinstance(n.ctx, ast.Store) and n.id not in out:
                    out.append(n.id)
                if isinstance(n, ast.Subscript) and isinstance(n.ctx, ast.Store) and isinstance(n.value, ast.Name) and n.value.id not in out:
                    out.append(n.value.id)
                if isinstance(n, ast.Call) and isinstance(n.func, ast.Attribute) and n.func.attr in ("append", "extend") and isinstance(n.func.value, ast.Name) and n.func.value.id not in out:
                    out.append(n.func.value.id)
                if isinstance(n, ast.Call) and unp(n.func) in HEAPQ and n.args and isinstance(n.args[0], ast.Name) and n.args[0].id not in out:
                    out.append(n.args[0].id)
                if isinstance(n, ast.Subscript) and isinstance(n.ctx, ast.Store) and self.atom(n.value) and self.atom(n.value)[0] not in out:
                    out.append(self.atom(n.value)[0])
                if isinstance(n, ast.Assign) and isinstance(n.value, ast.Name) and n.value.id in self.mutated and n.value.id not in out:
                    out.append(n.value.id)                 # x = root ... x[k] = v  updates root (x is a reference into it)
                # x = reduce(lambda a, k: a.setdefault(..), ks, root) ... x[k] = v  updates root
                if isinstance(n, ast.Assign) and isinstance(n.value, ast.Call) and unp(n.value.func) == "reduce" and len(n.value.args) == 3 \
                        and isinstance(n.value.args[2], ast.Name) and "setdefault" in unp(n.value.args[0]) and n.value.args[2].id not in out:
                    out.append(n.value.args[2].id)
        return out

    def s_For(self, s, env, nxt):
        b, c, t = self.expr(s.iter, env)
        if not is_list(t):
            raise Untranslatable(s, f"for loop over a {t}")
        if s.orelse:
            raise Untranslatable(s, "for loop with else")
        xpat, xb = self.pattern(s.target, elem(t), s)        # for x in l / for a, (b, c) in <list of tuples>
        names, tys = list(xb), list(xb.values())
        x = xpat if isinstance(s.target, ast.Name) else "'" + xpat
        state = [v for v in self.assigned(s.body) if v in env and v not in names]
        if not state:
            raise Untranslatable(s, "for loop that re-binds no local bound before it")
        pat = ident(state[0]) if len(state) == 1 else "'(" + ", ".join(map(ident, state)) + ")"
        tup = ident(state[0]) if len(state) == 1 else "(" + ", ".join(map(ident, state)) + ")"
        e2 = {**env, **dict(zip(names, tys))}

        refined = {}

        def body_end(e):
            for v in state:
                if e.get(v) != env[v] and not (env[v] in ("dict ?", "list ?") and same(e.get(v, ""), env[v])):
                    raise Untranslatable(s, f"loop changes the type of `{v}`")
                if e.get(v) != env[v]:
                    refined[v] = e[v]                      # an empty display whose element type the loop body fixes
            return f"Ret {tup}"
        self.loop_ends.append(body_end)                    # `continue` ends the body here
        try:
            body = self.block(s.body, e2, body_end)
        finally:
            self.loop_ends.pop()
        # names first bound inside the loop are not visible after it
        return self.wrap(b, f"bind (py_for (fun {pat} {x} =>\n{body}) {c} {tup}) (fun {pat} =>\n{nxt({**env, **refined})})")

    def s_FunctionDef(self, s, env, nxt):
        self.tr.function(s, self.tgt, enclosing=(self, env))
        return nxt(env)


class Translator:
    def __init__(self, repo: Path):
        self.repo = Path(repo)
        self.funcs: dict = {}          # python name -> {"coq", "params", "closure", "recursive", "ret", "owner"}: nested / recursive functions of the current target
        self.procs: dict = {}          # module-level procedures (`-> None`, no return) of the current file (inlined at statement-level calls)
        self.helpers: dict = {}        # pure helpers of the current file / class (inlined at calls): "h", "Cls.h", "self.h" -> def
        self.by_qual: dict = {}        # "Class.method" -> coq name of its translation (mode "alias")
        self.exported: dict = {}       # coq name -> the same for every top-level function translated so far (Target.calls)
        self.out: list[str] = []       # Gallina definitions in dependency order
        self.meta: list[dict] = []

    def ann(self, node, tgt: Target, pname):
        if pname is not None and pname in tgt.types:
            return tgt.types[pname]
        if node is None:
            raise Untranslatable(pname, "parameter without annotation and without Target.types entry")
        s = unp(node)
        if s in tgt.types:
            return tgt.types[s]
        if s in ANN:
            return ANN[s]
        raise Untranslatable(node, f"annotation `{s}` has no Gallina type")

    def find(self, tgt: Target):
        path = self.repo / tgt.file
        src = path.read_text()
        body = ast.parse(src).body
        self.helpers, self.procs = {}, {}
        for fd in body:
            if isinstance(fd, ast.FunctionDef) and fd.returns is not None and unp(fd.returns) == "None" and not fd.decorator_list \
                    and not any(isinstance(x, (ast.Return, ast.Yield, ast.Global, ast.Nonlocal)) for x in ast.walk(fd)) \
                    and not (fd.args.vararg or fd.args.kwarg or fd.args.kwonlyargs or fd.args.defaults):
                self.procs[fd.name] = fd
        def pure_helper(fd):
            st = [x for x in fd.body if not (isinstance(x, ast.Expr) and isinstance(x.value, ast.Constant))]
            ok = st and isinstance(st[-1], ast.Return) and st[-1].value is not None \
                and all(isinstance(x, ast.Assign) and len(x.targets) == 1 and isinstance(x.targets[0], ast.Name) for x in st[:-1]) \
                and len({x.targets[0].id for x in st[:-1]}) == len(st) - 1 \
                and not any(isinstance(y, (ast.NamedExpr, ast.Yield, ast.Await)) for x in st for y in ast.walk(x)) \
                and all(unp(d) == "staticmethod" for d in fd.decorator_list) \
                and not (fd.args.vararg or fd.args.kwarg or fd.args.kwonlyargs or fd.args.defaults)
            return ast.FunctionDef(name=fd.name, args=fd.args, body=st, decorator_list=[]) if ok else None

        for fd in body:
            if isinstance(fd, ast.FunctionDef) and pure_helper(fd):
                self.helpers[fd.name] = pure_helper(fd)
        cls = next((n for n in body if isinstance(n, ast.ClassDef) and n.name == tgt.qualname.split(".")[0]), None) if "." in tgt.qualname else None
        for fd in (cls.body if cls else []):              # static helpers of the target's own class: Cls.h(..) / self.h(..)
            if isinstance(fd, ast.FunctionDef) and fd.decorator_list and pure_helper(fd):
                self.helpers[f"{cls.name}.{fd.name}"] = self.helpers[f"self.{fd.name}"] = pure_helper(fd)
        node = None
        for part in tgt.qualname.split("."):
            node = next((n for n in body if isinstance(n, (ast.ClassDef, ast.FunctionDef)) and n.name == part), None)
            if node is None:
                raise Untranslatable(tgt.qualname, f"`{part}` not found in {tgt.file}")
            body = node.body
        if not isinstance(node, ast.FunctionDef):
            raise Untranslatable(tgt.qualname, "not a function definition")
        for d in node.decorator_list:                      # a decorator may change what a call of the function does
            if unp(d) not in ("staticmethod", "classmethod", "abstractmethod", "torch.no_grad()", "torch.compiler.disable"):
                raise Untranslatable(d, "decorator outside the subset")
        return src, node

    def record(self, tgt, src, node, names):
        seg = ast.get_source_segment(src, node)
        self.meta.append({"file": tgt.file, "function": tgt.qualname, "mode": tgt.mode, "definitions": names,
                          "source_sha256": hashlib.sha256(seg.encode()).hexdigest(), "source_lines": [node.lineno, node.end_lineno]})

    def alias(self, tgt: Target):
        """mode "alias": which class in the (single-inheritance, same-file) chain of Class defines Class.method?  That class's
        translation (an earlier target) is given the name Target.coq_name; if no class of the chain defines it - the chain must
        end in a class listed in Target.names, assumed not to define it - the method does nothing: Ret tt."""
        src = (self.repo / tgt.file).read_text()
        classes = {n.name: n for n in ast.parse(src).body if isinstance(n, ast.ClassDef)}
        cls, meth = tgt.qualname.split(".")
        first, chain = classes.get(cls), []
        while True:
            if cls in tgt.names:
                self.out.append(f"Definition {tgt.prefix + tgt.coq_name} : result unit := Ret tt.")
                break
            node = classes.get(cls)
            if node is None or len(node.bases) != 1 or not isinstance(node.bases[0], ast.Name) or node.keywords:
                raise Untranslatable(tgt.qualname, f"class `{cls}` is not a single-inheritance class of {tgt.file} (or a listed root)")
            chain.append(cls)
            if any(isinstance(m, ast.FunctionDef) and m.name == meth for m in node.body):
                if f"{cls}.{meth}" not in self.by_qual:
                    raise Untranslatable(tgt.qualname, f"resolves to {cls}.{meth}, which is not translated earlier in this run")
                self.out.append(f"Definition {tgt.prefix + tgt.coq_name} := {self.by_qual[cls + '.' + meth]}.")
                break
            cls = node.bases[0].id
        seg = "\n".join(ast.get_source_segment(src, classes[c]) for c in chain)
        self.meta.append({"file": tgt.file, "function": tgt.qualname, "mode": "alias", "definitions": [tgt.prefix + tgt.coq_name],
                          "source_sha256": hashlib.sha256(seg.encode()).hexdigest(), "source_lines": [first.lineno, first.end_lineno] if first else []})

    def translate(self, tgt: Target):
        if tgt.mode == "alias":
            return self.alias(tgt)
        src, node = self.find(tgt)
        n0, self.funcs = len(self.out), {}
        {"function": self.function, "exprs": self.exprs, "prefix": self.prefix, "decision": self.decision}[tgt.mode](node, tgt)
        self.record(tgt, src, node, [d.split()[1] for d in self.out[n0:]])

    @staticmethod
    def sites_of(fdef):
        rs = sorted((n for n in ast.walk(fdef) if isinstance(n, (ast.Raise, ast.Assert))), key=lambda n: (n.lineno, n.col_offset))
        return {(n.lineno, n.col_offset): k for k, n in enumerate(rs)}

    @staticmethod
    def free_names(fdef):
        bound = {a.arg for a in fdef.args.args} | {n.id for n in ast.walk(fdef) if isinstance(n, ast.Name) and isinstance(n.ctx, ast.Store)}
        return [n.id for n in ast.walk(fdef) if isinstance(n, ast.Name) and isinstance(n.ctx, ast.Load) and n.id not in bound]

    @staticmethod
    def fresh_lists(fdef):
        """locals that may be updated in place: bound exactly once, to a list display, a list comprehension, list(..) or [..] * n, and
        every other occurrence is an in-place update (item assignment, append, heapq call) or a read that cannot create an alias
        (subscript, len/tuple/list/sum argument, operand of +, return, [*x]), or the start of a setdefault walk (reduce(.., x)),
        whose result is tracked as a reference into x"""
        parents = {}
        for p in ast.walk(fdef):
            for c in ast.iter_child_nodes(p):
                parents[c] = p
        cand, stores = set(), {}
        for n in ast.walk(fdef):
            if isinstance(n, ast.Name) and isinstance(n.ctx, ast.Store):
                p = parents.get(n)
                if isinstance(p, ast.AugAssign) and isinstance(p.op, (ast.BitOr, ast.Add)):
                    continue                               # d |= e / l += e is an in-place update, not a binding
                stores[n.id] = stores.get(n.id, 0) + 1
                fresh = isinstance(p, (ast.Assign, ast.AnnAssign)) and p.value is not None and (isinstance(p.value, (ast.List, ast.ListComp, ast.Dict)) or (isinstance(p.value, ast.Call) and unp(p.value.func) == "list")
                                                       or (isinstance(p.value, ast.BinOp) and isinstance(p.value.op, ast.Mult) and isinstance(p.value.left, ast.List)))
                if fresh:
                    cand.add(n.id)
        ok = {v for v in cand if stores[v] == 1} - {a.arg for a in fdef.args.args}
        for n in ast.walk(fdef):
            if isinstance(n, ast.Name) and isinstance(n.ctx, ast.Load) and n.id in ok:
                p = parents.get(n)
                safe = (isinstance(p, ast.Subscript) and p.value is n) or (isinstance(p, ast.BinOp) and isinstance(p.op, ast.Add)) \
                    or (isinstance(p, ast.Call) and unp(p.func) in ("len", "tuple", "list", "sum", "prod") and n in p.args) \
                    or (isinstance(p, ast.Attribute) and p.attr in ("append", "extend", "sort", "update") and p.value is n) or isinstance(p, ast.Return) \
                    or (isinstance(p, ast.Call) and isinstance(p.func, ast.Attribute) and p.func.attr == "join" and n in p.args) \
                    or (isinstance(p, ast.Call) and unp(p.func) in HEAPQ and p.args and p.args[0] is n) \
                    or isinstance(p, ast.Starred) \
                    or (isinstance(p, ast.Call) and unp(p.func) == "reduce" and len(p.args) == 3 and p.args[2] is n and "setdefault" in unp(p.args[0])) \
                    or (isinstance(p, ast.Assign) and p.value is n and len(p.targets) == 1 and isinstance(p.targets[0], ast.Name))   # tracked: see s_Assign
                if not safe:
                    ok.discard(n.id)
        return ok

    def signature(self, fdef, tgt, keep=None):
        a = fdef.args
        if a.vararg or a.kwarg or a.kwonlyargs or a.posonlyargs:
            raise Untranslatable(fdef, "only plain positional parameters are in the subset")
        names = [x for x in a.args if x.arg not in ("self", "cls")]
        if keep is not None:
            names = [x for x in names if x.arg in keep]
        return [(x.arg, self.ann(x.annotation, tgt, x.arg)) for x in names]

    def emit(self, coq, recursive, params, ret, body):
        ps, ret = " ".join(f"({ident(p)} : {gtype(t)})" for p, t in params), gtype(ret)
        if recursive:
            self.out.append(f"Fixpoint {coq} (fuel : nat) {ps} {{struct fuel}} : result ({ret})%type :=\nmatch fuel with\n| O => OutOfFuel\n| S fuel =>\n{body}\nend.")
        else:
            self.out.append(f"Definition {coq} {ps} : result ({ret})%type :=\n{body}.")

    def function(self, fdef, tgt, enclosing=None):
        recursive = any(isinstance(n, ast.Call) and isinstance(n.func, ast.Name) and n.func.id == fdef.name for n in ast.walk(fdef))
        params = self.signature(fdef, tgt, tgt.params if enclosing is None else None)
        closure = []
        if enclosing is not None:
            outer, oenv = enclosing
            closure = [v for v in dict.fromkeys(self.free_names(fdef)) if v in oenv]
        coq = tgt.prefix + (tgt.coq_name if enclosing is None and tgt.coq_name else fdef.name)
        ret = self.ann(fdef.returns, tgt, fdef.name + ".return") if fdef.returns is not None else None
        stmts = [x for x in fdef.body if not (isinstance(x, ast.Expr) and isinstance(x.value, ast.Constant))]
        if enclosing is not None and len(stmts) == 1 and isinstance(stmts[0], ast.Return) and stmts[0].value is not None \
                and any(isinstance(n, ast.Call) and isinstance(n.func, ast.Name) and n.func.id == enclosing[0].name for n in ast.walk(fdef)):
            # a nested one-expression function that calls the enclosing function back (mutual recursion): its calls are replaced by
            # its expression, so that the enclosing function becomes directly recursive
            self.funcs[fdef.name] = {"inline": stmts[0].value, "params": params, "closure": closure, "recursive": False, "ret": ret,
                                     "coq": None, "owner": enclosing[0].name, "defenv": set(enclosing[1])}
            return
        fn = Fn(self, tgt, fdef.name, recursive)
        fn.sites = self.sites_of(fdef)
        fn.ret_type, fn.ret_unit = (None, True) if ret == "unit" else (ret, False)
        fn.mutated = self.fresh_lists(fdef)
        env = {v: enclosing[1][v] for v in closure}
        env.update(dict(params))
        extra = []                                   # attributes of self: read-only atoms and updated state lists become parameters
        if enclosing is None:
            extra = atom_params([*tgt.atoms, *tgt.state])
            env.update({pn: ty for _, pn, ty in tgt.state})
        if recursive or enclosing is not None:       # visible to its own body and to the rest of the enclosing function
            if ret is None:
                raise Untranslatable(fdef, "a called function needs a return annotation")
            self.funcs[fdef.name] = {"coq": coq, "params": params, "closure": closure, "recursive": recursive, "ret": ret,
                                     "owner": enclosing[0].name if enclosing else None}

        def fall(e):
            if ret != "unit":
                raise Untranslatable(fdef, "a path reaches the end of a function not annotated `-> None` without return/raise")
            return fn.ret("tt")
        body = fn.block(fdef.body, env, fall)
        rt = fn.ret_type or ret
        if tgt.state and enclosing is None:
            rt = f"completion ({rt}) * ({' * '.join(ty for _, _, ty in tgt.state)})"
        self.emit(coq, recursive, [(v, env[v]) for v in closure] + params + extra, rt, body)
        if enclosing is None and not recursive and not tgt.state:
            self.by_qual[tgt.qualname] = coq
            self.exported[coq] = {"coq": coq, "params": params, "atoms": atom_params(tgt.atoms), "closure": [], "recursive": False, "ret": rt}

    def exprs(self, fdef, tgt):
        for name in tgt.names:
            hits = [n for n in ast.walk(fdef) if isinstance(n, ast.Assign) and len(n.targets) == 1 and isinstance(n.targets[0], ast.Name) and n.targets[0].id == name]
            if len(hits) != 1:
                raise Untranslatable(tgt.qualname, f"expected exactly one assignment to `{name}`, found {len(hits)}")
            fn = Fn(self, tgt, name, False)
            # locals the expression may mention: bound exactly once in the function, by a plain `x = e` standing earlier in the same
            # statement list as the translated assignment; they are replaced by e (the statements in between are assumed not to
            # change what the atoms of e denote - the same assumption the atoms themselves carry)
            block = next(b for nd in ast.walk(fdef) for b in (getattr(nd, "body", None), getattr(nd, "orelse", None)) if isinstance(b, list) and hits[0] in b)
            stores = [x.id for x in ast.walk(fdef) if isinstance(x, ast.Name) and isinstance(x.ctx, ast.Store)]
            for st in block[:block.index(hits[0])]:
                if isinstance(st, ast.Assign) and len(st.targets) == 1 and isinstance(st.targets[0], ast.Name) and stores.count(st.targets[0].id) == 1:
                    fn.inline[st.targets[0].id] = st.value
            b, c, t = fn.expr(hits[0].value, {})
            self.emit(tgt.prefix + name, False, atom_params(tgt.atoms), t, fn.wrap(b, f"Ret {c}"))

    def decision(self, fdef, tgt):
        """mode "decision": ONE statement of the function, the unique one whose text starts with Target.stop_before (an `if` that
        ends some paths with `continue`), as a function of Target.atoms: which of the statements listed in Target.actions (statements
        with tensor side effects, by their source text) are executed, in order, and whether the path ends with `continue` (true) or
        falls through to the rest of the loop body (false): result (list Z * bool).  Anything else in it must be in the subset."""
        if tgt.stop_before is None:
            hits = fdef.body                               # the whole function: which actions run, and does it end by `return` (true)
        else:
            hits = [s for s in ast.walk(fdef) if isinstance(s, ast.stmt) and unp(s).startswith(tgt.stop_before)]
            if len(hits) != 1:
                raise Untranslatable(tgt.qualname, f"expected exactly one statement starting with `{tgt.stop_before}`, found {len(hits)}")
        fn = Fn(self, tgt, fdef.name, False)
        fn.sites = self.sites_of(fdef)
        fn.decision = True
        fn.fparams = {a.arg for a in fdef.args.args}
        env0 = {"acts_": "list Z"}
        if tgt.stop_before is not None:
            # locals that name existing objects, bound exactly once, earlier in the same statement list (as in "exprs" mode)
            block = next(b for nd in ast.walk(fdef) for b in (getattr(nd, "body", None), getattr(nd, "orelse", None)) if isinstance(b, list) and hits[0] in b)
            stores = [x.id for x in ast.walk(fdef) if isinstance(x, ast.Name) and isinstance(x.ctx, ast.Store)]
            env0["@subst"] = {st.targets[0].id: st.value for st in block[:block.index(hits[0])]
                              if isinstance(st, ast.Assign) and len(st.targets) == 1 and isinstance(st.targets[0], ast.Name)
                              and stores.count(st.targets[0].id) == 1 and is_reference(st.value)}
        body = fn.block(hits, env0, lambda e: "Ret (acts_, false)")
        self.emit(tgt.prefix + (tgt.coq_name or fdef.name), False, atom_params(tgt.atoms), "list Z * bool", "let acts_ := [] in\n" + body)

    def prefix(self, fdef, tgt):
        idx = next((i for i, s in enumerate(fdef.body) if unp(s).startswith(tgt.stop_before)), None)
        if idx is None:
            raise Untranslatable(tgt.qualname, f"no statement starting with `{tgt.stop_before}`")
        params = self.signature(fdef, tgt, tgt.params)
        fn = Fn(self, tgt, fdef.name, False)
        fn.sites = self.sites_of(fdef)
        fn.mutated = self.fresh_lists(fdef)
        if tgt.drop:          # slicing: what the dropped statements write (names bound, receivers of method calls) is read by no kept statement
            stmts = [x for top in fdef.body[:idx] for x in ast.walk(top) if isinstance(x, ast.stmt)]
            dropped = [x for x in stmts if any(unp(x).startswith(pre) for pre in tgt.drop)]
            inside = {id(y) for d in dropped for y in ast.walk(d)}
            written = {y.id for d in dropped for y in ast.walk(d) if isinstance(y, ast.Name) and isinstance(y.ctx, ast.Store)} \
                | {y.func.value.id for d in dropped for y in ast.walk(d) if isinstance(y, ast.Call) and isinstance(y.func, ast.Attribute) and isinstance(y.func.value, ast.Name)
                   and (y.func.attr.endswith("_") or y.func.attr in ("append", "extend", "sort", "update", "setdefault", "pop", "insert", "remove", "clear", "reverse"))}
            read = {y.id for top in fdef.body[:idx] for y in ast.walk(top) if isinstance(y, ast.Name) and isinstance(y.ctx, ast.Load) and id(y) not in inside}
            if written & (read | set(tgt.returns)):
                raise Untranslatable(tgt.qualname, f"dropped statements write {sorted(written & (read | set(tgt.returns)))}, which the slice reads")

        def done(e):
            missing = [v for v in tgt.returns if v not in e]
            if missing:
                raise Untranslatable(tgt.qualname, f"{missing} not bound at `{tgt.stop_before}`")
            fn.ret_type = "(" + " * ".join(e[v] for v in tgt.returns) + ")"
            return "Ret (" + ", ".join(ident(v) for v in tgt.returns) + ")"
        body = fn.block(fdef.body[:idx], dict(params), done)
        self.emit(tgt.prefix + (tgt.coq_name or fdef.name), False, params + atom_params(tgt.atoms), fn.ret_type, body)

    def text(self, header: str = "", preamble: str = "", footer: str = "") -> str:
        return ("(* GENERATED by tools/py2coq.py from the Python source - not committed, regenerated at every run. *)\n"
                "From Coq Require Import ZArith List Bool.\n" + header + "From ShampooGen Require Import PyPrelude.\n"
                "Import ListNotations.\nOpen Scope Z_scope.\n\n" + preamble + "\n\n".join(self.out) + "\n" + footer)


def generate(repo, targets: list[Target], header: str = "", preamble: str = "", footer: str = ""):
    """Translate `targets` from the tree at `repo`; returns (Gallina text, metadata list).  Raises Untranslatable.
    `header`: extra Require lines (hand-model TYPES the values are made of); `preamble` / `footer`: text around the definitions
    (a Section declaring the foreign functions of Target.foreign as Variables, so that they become arguments)."""
    tr = Translator(repo)
    for t in targets:
        tr.translate(t)
    if len(tr.text(header, preamble, footer)) > 300_000:
        raise Untranslatable(targets[0].qualname, "generated text too large (continuation duplication blew up)")
    return tr.text(header, preamble, footer), tr.meta


if __name__ == "__main__":
    import sys
    sys.path.insert(0, str(Path(__file__).resolve().parent.parent))
    from harness import gen_targets
    for pid in sys.argv[1:] or sorted(gen_targets.SPECS):
        txt, meta = gen_targets.generate(pid)
        print(f"(* ===== {pid}: {len(txt)} bytes, {[m['function'] for m in meta]} *)\n{txt}")
