#!/venv/bin/python
"""Regenerate /verif/MANIFEST.json from the META dict of every harness/cXX.py module.

    /venv/bin/python tools/gen_manifest.py        (run from /verif)
"""
import importlib
import json
import sys
from pathlib import Path

ROOT = Path(__file__).resolve().parent.parent
sys.path.insert(0, str(ROOT))

PENDING_REASON = {
}


def main() -> None:
    props = [json.loads(l) for l in (ROOT / "properties.jsonl").read_text().splitlines() if l.strip()]
    checks, na = [], []
    for p in props:
        pid = p["id"]
        modf = ROOT / "harness" / f"{pid.lower()}.py"
        if not modf.exists():
            na.append({"property_id": pid, "reason": PENDING_REASON.get(pid, "no check registered yet: the Coq model and correspondence harness for this property are not built at this commit (see DESIGN.md section 4 for the planned design)")})
            continue
        meta = importlib.import_module(f"harness.{pid.lower()}").META
        if not meta.get("ready"):
            na.append({"property_id": pid, "reason": "check under construction at this commit (harness exists but has not yet passed its acceptance runs); see DESIGN.md section 4"})
            continue
        c = {
            "property_id": pid,
            "quick_cmd": f"./check {pid} --tier quick",
            "thorough_cmd": f"./check {pid} --tier thorough",
            "evidence_file": f"/verif/evidence/{pid}.json",
            "replay_cmd_template": "./check replay {path}",
            "engine": "coq-proof+correspondence",
            "level_claimed": {"category": meta.get("category", "proof"), "text": meta["level_text"], "design_ref": meta["design_ref"]},
            "level_note": meta["level_note"],
            "technique": meta["technique"],
        }
        checks.append(c)
    man = {
        "version": 1,
        "setup_cmd": "./check build",
        "hooks": {
            "guard": "OPTIMIZERS_VERIF",
            "enable": "no source hook exists in /repo: every observation is made from outside (private attributes, mock.patch, harness-side rank simulator); ./check exports OPTIMIZERS_VERIF=1 for uniformity",
            "baseline_off_cmd": "cd /repo && /venv/bin/python -m pytest -q -p no:cacheprovider --timeout=900 --continue-on-collection-errors",
            "source_commits": [],
            "add_only": True,
        },
        "engines": [{
            "name": "coq-proof+correspondence",
            "path": "/verif/coq (Gallina models, proofs, property theorems) + /verif/harness (generators, implementation drivers, case-file writer)",
            "serves_properties": [c["property_id"] for c in checks],
            "kind_free_text": "Machine-checked proof in Coq 8.16.1 about hand-written executable Gallina models; every run re-checks the theorems (full .vo build + Print Assumptions) and re-establishes the tie to /repo by evaluating the model on generated inputs with vm_compute inside coqc and comparing to the implementation's outputs (correspondence check); certified boolean checkers decide on concrete implementation outputs whether the property fails.",
        }],
        "checks": checks,
        "not_applicable": na,
        "notes": "See DESIGN.md. known_findings.json lists genuine defects (known / fixed). Scratch lives in /verif/.work.",
    }
    (ROOT / "MANIFEST.json").write_text(json.dumps(man, indent=1) + "\n")
    print(f"MANIFEST.json: {len(checks)} checks, {len(na)} not_applicable")


if __name__ == "__main__":
    main()
