#!/venv/bin/python
"""Run only the pinned test suite on the patched tree of seeded changes and record the counts in result.json
("suite_patched"); used when the checks were evaluated with seed_eval.py --skip-suite.

    /venv/bin/python tools/seed_suite.py C13E C13F ..."""
import json
import os
import shutil
import sys
from pathlib import Path

sys.path.insert(0, str(Path(__file__).resolve().parent))
from seed_eval import ROOT, sh, suite_counts  # noqa: E402


def main():
    for seed in sys.argv[1:]:
        sd = ROOT / os.environ.get("SEED_DIR", "seeded") / seed
        tree = str(ROOT / ".work" / f"suite_{seed}")
        sh(f"git -C /repo worktree remove --force {tree}")
        shutil.rmtree(tree, ignore_errors=True)
        r = sh(f"git -C /repo worktree add -q --detach {tree} HEAD")
        assert r.returncode == 0, r.stderr
        try:
            r = sh(f"git -C {tree} apply {sd / 'patch.diff'}")
            assert r.returncode == 0, r.stderr
            counts = suite_counts(tree)
        finally:
            sh(f"git -C /repo worktree remove --force {tree}")
            shutil.rmtree(tree, ignore_errors=True)
        rf = sd / "result.json"
        res = json.loads(rf.read_text()) if rf.exists() else {"seed": seed}
        res["suite_patched"] = counts
        rf.write_text(json.dumps(res, indent=1) + "\n")
        print(seed, counts)


if __name__ == "__main__":
    main()
