#!/venv/bin/python
"""Rewrite the 'Measured' timing table of DESIGN.md section 7 from two result logs (lines '[Cxx] tier=... evaluations=N ... wall=Ss'):

    /venv/bin/python tools/update_timings.py <quick_log> <thorough_log>"""
import re
import sys
from pathlib import Path

ROOT = Path(__file__).resolve().parent.parent


def parse(path):
    out = {}
    for line in Path(path).read_text().splitlines():
        m = re.match(r"\[(C\d\d)\] tier=(\w+) seed=\d+ evaluations=(\d+) .* wall=([0-9.]+)s", line)
        if m:
            out[m.group(1)] = (int(m.group(3)), float(m.group(4)))
    return out


def main():
    q, t = parse(sys.argv[1]), parse(sys.argv[2])
    d = ROOT / "DESIGN.md"
    s = d.read_text()
    i = s.index("| id | quick wall (s) | thorough evaluations | thorough wall (s) |")
    j = s.index("\n\n", i)
    rows = ["| id | quick wall (s) | thorough evaluations | thorough wall (s) |", "|---|---|---|---|"]
    for p in sorted(set(q) | set(t)):
        rows.append(f"| {p} | {q.get(p, ('', ''))[1]} | {t.get(p, ('', ''))[0]} | {t.get(p, ('', ''))[1]} |")
    s = s[:i] + "\n".join(rows) + s[j:]
    d.write_text(s)
    print("\n".join(rows))


if __name__ == "__main__":
    main()
