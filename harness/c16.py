"""C16 - state-dict flatten/unflatten, OptimizerModule.state_dict/load_state_dict and
update_param_state_dict_object vs the Coq model StateDict.v.

Streams (all random choices from ck.rng):
  A  flat      random nested dicts (depth <= 6, adversarial str/int keys, empty and leafless sub-dicts):
               flatten -> flat keys (raw strings + json-decoded paths), unflatten -> structure with key types,
               leaf objects by id()
  B  unflat    malformed flat dicts (empty path, non-JSON key, leaf where a dict is needed, overwrites):
               outcome class / resulting structure
  C  sd        random OptimizerModule graphs: state_dict(store_non_tensors=b) (tensors by storage, detach()
               makes new objects), then flatten/unflatten of that state dict
  D  load      m, m' structurally equal: m.load_state_dict(sd(m')) directly / through flatten+unflatten /
               after an edit of the state dict (missing, extra, mismatched entries): exception class, object
               graph afterwards (tensors by id()), contents of every tensor
  E  restore   parameter states (nested dicts of tensors / modules, with leafless parts):
               extract_state_dict_content, flatten, unflatten, update_param_state_dict_object
Every comparison is evaluated by coqc (agree_* of StateDict.v); C16_checkb is evaluated on the
implementation's outputs for every case the property speaks about.
"""
from __future__ import annotations

import hashlib
import json

from harness import common, gen_targets
from harness.common import Check, coq_bool

META = {
    "property_id": "C16",
    "design_ref": "DESIGN.md §4 C16",
    "technique": "Coq proof (hand-written nested induction on dict trees and object graphs; JSON as a Section oracle with contract "
                 "loads(dumps p) = Some p, instantiated by a proved string codec) + randomized correspondence of flatten/unflatten/"
                 "state_dict/load_state_dict/update_param_state_dict_object with the executable model, evaluated by vm_compute; "
                 "certified checker C16_checkb on the implementation's own outputs",
    "level_text": "Proved for all trees/object graphs of any depth and any str|int keys (closed under the global context): flat keys of "
                  "distinct paths are distinct and one per leaf path (flatten_injective); unflatten(flatten d) = d without leafless "
                  "sub-dicts as ordered dicts with key constructors preserved (unflatten_flatten), = d when every sub-dict has a leaf "
                  "(unflatten_flatten_id); leafless sub-dicts leave no trace (leafless_dropped, flatten_nil_iff); state_dict holds "
                  "exactly the tensors reachable through attributes/modules/dicts/sequences with their paths "
                  "(module_state_dict_complete); loading the saved form of a structurally equal module - also with any leafless "
                  "sub-dicts removed - succeeds, keeps every tensor object, copies each counterpart value in place and writes nothing "
                  "else (module_load_in_place, module_roundtrip); update_param_state_dict_object restores the flattened-and-unflattened "
                  "content of every parameter state in place, leafless entries included (restore_roundtrip); checker soundness. "
                  "Nothing is left as _partial/_statement. The model is tied to /repo by exact comparison inside coqc on random nested "
                  "structures (depth<=6, adversarial keys), module graphs and edited state dicts.",
    "level_note": "Trusted: Coq kernel+vm_compute; the hand-written model (checked against the code only on generated inputs); the JSON "
                  "oracle contract json.loads(json.dumps(p)) == p with element types, and injectivity of json.dumps, validated in Python on "
                  "every generated path; torch copy_/detach semantics as observed (the model sees a tensor as identity + row-major logical contents; exercised with rank 0/1/2 and empty tensors, float64/32/16, bfloat16, int64, transposed/strided/offset views, requires_grad, shared tensors; identity by id() + unchanged storage for "
                  "flatten/unflatten/load, by storage pointer for state_dict whose leaves are detach()ed aliases). Not modelled: set members, "
                  "aliased containers / cyclic graphs, bool/float/None keys, tensors of rank != 1, keep_vars/destination arguments.",
    "ready": True,
}

HEADER = """From Coq Require Import ZArith List String Bool.
From Shampoo Require Import Show StateDict StateDictProofs StateDictObjProofs StateDictChecker.
Import ListNotations. Open Scope string_scope. Open Scope bool_scope.
"""

# ----------------------------------------------------------------------------------------------
# adversarial keys

STR_KEYS = ["", "a", "b", "c", "1", "0", "-1", "2", "a.b", ".", "a.", ".b", "/", "a/b", "\\", "\"", "\\\"", "a\"b", "a\\b", "[", "]", "[1]",
            "[\"a\"]", "[\"a\", \"b\"]", ",", ", ", "a,b", "a, b", "\", \"", "a\", \"b", "{}", "true", "null", "1.0", "1e3", " ", "\n", "\t",
            "é", "日本", "\U0001f600", " ", "\\u00e9", "a" * 40, "step", "block_0", "shampoo"]
INT_KEYS = [0, 1, -1, 2, 3, 10, -7, 2 ** 31, 2 ** 63, -(2 ** 63) - 1, 10 ** 30, 123456789, -10 ** 18]
SEPS = [".", "/", ",", ", ", "\", \"", "\"][\"", "]["]
ATTR_NAMES = ["w", "a", "b", "factors", "inv", "step", "_x", "a.b", "1", "", "\"", "by_key", "cfg", "é", "a/b", "[0]", "0"]


def coq_str(s: str) -> str:
    return '"' + s.replace('"', '""') + '"'


def coq_key(k) -> str:
    if isinstance(k, bool) or not isinstance(k, (int, str)):
        raise TypeError(f"key outside the model: {k!r}")
    if isinstance(k, int):
        return f"KInt ({k})%Z"
    return f"KStr {coq_str(k)}"


def coq_path(p) -> str:
    return "[" + "; ".join(coq_key(k) for k in p) + "]"


def coq_Zs(vals) -> str:
    return "[" + "; ".join(f"({int(v)})%Z" for v in vals) + "]"


# ----------------------------------------------------------------------------------------------
# non-tensor values <-> (type tag, token)

def other_value(ty: int, v: int):
    return [v, f"s{v}", v + 0.5, None, bool(v % 2)][ty]


def other_token(x):
    if x is None:
        return (3, 0)
    if type(x) is bool:
        return (4, int(x))
    if type(x) is int:
        return (0, x)
    if type(x) is str and x[:1] == "s" and x[1:].lstrip("-").isdigit():
        return (1, int(x[1:]))
    if type(x) is float:
        return (2, int(x - 0.5))
    return (7, 0)    # something the harness never creates


def norm_other(ty: int, v: int):
    v = abs(v) % 50
    if ty == 3:
        v = 0
    if ty == 4:
        v = v % 2
    return ty, v


# ----------------------------------------------------------------------------------------------
# registry of tensors: serial number <-> Python object / storage

class Registry:
    def __init__(self):
        self.objs = []           # serial -> tensor (kept alive: id() stays unique)
        self.by_id = {}
        self.by_ptr = {}
        self.extra = {}          # id of unknown objects -> fresh serial >= 900
        self.ptrs = []           # serial -> storage pointer at creation
        self.flavours = []       # serial -> (shape, dtype, layout, requires_grad)
        self.opaque = {}         # id of a tuple/list used as an opaque leaf -> token
        self.keep = []

    @staticmethod
    def storage_key(t):
        return (t.untyped_storage().data_ptr(), t.storage_offset(), tuple(t.shape), tuple(t.stride()))

    def new(self, values, shape=None, flav=None):
        """A fresh tensor with the given row-major logical contents.  `flav` = dtype / memory layout / autograd flag:
        the model sees none of them (identity + logical contents only)."""
        import torch
        n = len(values)
        shape = tuple(shape) if shape is not None else (n,)
        flav = flav or {}
        dt = getattr(torch, flav.get("dtype", "float64"))
        layout = flav.get("layout", "contig")
        base = torch.tensor([float(v) for v in values], dtype=torch.float64)
        if n == 0:
            t = torch.zeros(1, dtype=dt)[0:0]            # empty view of a real buffer: a storage pointer of its own
        elif layout == "transposed" and len(shape) == 2:
            t = base.reshape(shape).t().contiguous().to(dt).t()
        elif layout == "strided" and len(shape) == 1:
            t = torch.zeros(2 * n, dtype=dt)[::2]
            t.copy_(base)
        elif layout == "offset" and len(shape) == 1:
            t = torch.zeros(n + 2, dtype=dt)[1:1 + n]
            t.copy_(base)
        else:
            t = base.reshape(shape).to(dt)
        if flav.get("grad"):
            t.requires_grad_(True)
        s = len(self.objs)
        self.objs.append(t)
        self.by_id[id(t)] = s
        self.by_ptr[self.storage_key(t)] = s
        self.ptrs.append(t.untyped_storage().data_ptr())
        self.flavours.append((shape, flav.get("dtype", "float64"), layout, bool(flav.get("grad"))))
        return s, t

    def serial_by_id(self, t):
        s = self.by_id.get(id(t))
        if s is not None and s < len(self.ptrs) and t.untyped_storage().data_ptr() != self.ptrs[s]:
            s = None          # same Python object but its storage was swapped: not "in place"
        if s is None:
            s = self.extra.setdefault(id(t), 900 + len(self.extra))
            self.objs.append(t)   # keep alive
        return s

    def serial_by_storage(self, t):
        s = self.by_ptr.get(self.storage_key(t))
        if s is None:
            return self.serial_by_id(t)
        return s

    def heap(self):
        n = len(self.ptrs)
        import torch
        return [(s, [int(x) if float(x).is_integer() else 10 ** 9
                     for x in self.objs[s].detach().to(torch.float64).reshape(-1).tolist()]) for s in range(n)]

    def nondefault(self):
        return [f for f in self.flavours if not (len(f[0]) == 1 and f[0][0] >= 1 and f[1] == "float64" and f[2] == "contig" and not f[3])]


DTYPES = ["float64", "float32", "bfloat16", "float16", "int64"]
SHAPES = [(), (2, 2), (3, 1), (1, 3), (0,), (1,), (2,), (3,)]


def rand_flavour(rng, shape, p=0.4):
    if rng.random() >= p:
        return {}
    dtype = rng.choice(DTYPES)
    layouts = ["contig", "contig"] + (["transposed"] if len(shape) == 2 else []) + (["strided", "offset"] if len(shape) == 1 else [])
    layout = rng.choice(layouts)
    grad = dtype != "int64" and layout == "contig" and rng.random() < 0.3
    return {"dtype": dtype, "layout": layout, "grad": grad}


def numel(shape):
    n = 1
    for d in shape:
        n *= d
    return n


def coq_heap(hp) -> str:
    return "[" + "; ".join(f"({s}%nat, {coq_Zs(vs)})" for s, vs in hp) + "]"


# ----------------------------------------------------------------------------------------------
# trees (nested dicts) : spec = ('L', leafspec) | ('N', [(key, spec)...]);  leafspec = ('T', values) | ('O', ty, v)

def gen_tree(rng, depth, maxdepth, stats):
    """Random dict spec of nesting depth <= maxdepth."""
    r = rng.random()
    n = 0 if r < 0.12 else rng.randint(1, 4 if depth < 3 else 3)
    keys = []
    pool_pick = rng.random()
    while len(keys) < n:
        if pool_pick < 0.25:
            k = rng.choice(["1", 1, "0", 0, "-1", -1, "2", 2])
        elif rng.random() < 0.4:
            k = rng.choice(INT_KEYS)
        else:
            k = rng.choice(STR_KEYS)
        if not any(type(k) is type(q) and k == q for q in keys):
            keys.append(k)
    items = []
    for k in keys:
        if depth < maxdepth and rng.random() < (0.55 if depth < 3 else 0.45):
            items.append((k, gen_tree(rng, depth + 1, maxdepth, stats)))
        else:
            r2 = rng.random()
            if r2 < 0.55:
                items.append((k, ("L", ("T", [rng.randint(-9, 9) for _ in range(rng.randint(1, 3))]))))
            elif r2 < 0.76:     # tensors of other rank / dtype / layout: flatten must not care
                sh = rng.choice(SHAPES)
                items.append((k, ("L", ("T", [rng.randint(-9, 9) for _ in range(numel(sh))], list(sh), rand_flavour(rng, sh, 0.8)))))
            elif r2 < 0.82:     # the same tensor object under several keys
                items.append((k, ("L", ("R", rng.randint(0, 1)))))
            elif r2 < 0.87:     # a tuple/list value is a leaf for flatten (an opaque object)
                items.append((k, ("L", ("Q", rng.choice(["tuple", "list"])))))
            else:
                items.append((k, ("L", ("O",) + norm_other(rng.randint(0, 4), rng.randint(0, 40)))))
    # collision families: a key containing a separator next to the split path
    if depth < maxdepth and rng.random() < 0.2:
        sep = rng.choice(SEPS)
        a, b = rng.choice(["a", "1", "x", ""]), rng.choice(["b", "2", "", "0"])
        fam = [(a + sep + b, ("L", ("T", [rng.randint(-9, 9)]))), (a, ("N", [(b, ("L", ("T", [rng.randint(-9, 9)])))]))]
        if b.lstrip("-").isdigit() and rng.random() < 0.5:
            fam.append((a + "#", ("N", [(int(b), ("L", ("T", [1])))])))
        for k, v in fam:
            if not any(type(k) is type(q) and k == q for q, _ in items):
                items.append((k, v))
        rng.shuffle(items)
        stats["collision_families"] = stats.get("collision_families", 0) + 1
    return ("N", items)


def tree_depth(spec):
    if spec[0] == "L":
        return 0
    return 1 + max([tree_depth(v) for _, v in spec[1]] + [0])


def tree_has_leaf(spec):
    return spec[0] == "L" or any(tree_has_leaf(v) for _, v in spec[1])


def tree_leafless_subdicts(spec):
    if spec[0] == "L":
        return 0
    return sum((0 if tree_has_leaf(v) else 1) + tree_leafless_subdicts(v) for _, v in spec[1] if v[0] == "N")


def build_tree(spec, reg, shared=None):
    """-> (python dict, coq term of the model tree)"""
    shared = {} if shared is None else shared
    if spec[0] == "L":
        lf = spec[1]
        if lf[0] == "T":
            s, t = reg.new(lf[1], lf[2] if len(lf) > 2 else None, lf[3] if len(lf) > 3 else None)
            return t, f"Leaf (LT {s})"
        if lf[0] == "R":
            if lf[1] not in shared:
                shared[lf[1]] = reg.new([lf[1]])
            s, t = shared[lf[1]]
            return t, f"Leaf (LT {s})"
        if lf[0] == "Q":
            inner = [reg.new([1])[1], reg.new([2])[1]]
            o = inner if lf[1] == "list" else tuple(inner)
            tok = reg.opaque.setdefault(id(o), len(reg.opaque))
            reg.keep.append(o)
            return o, f"Leaf (LV 5 {tok})"
        return other_value(lf[1], lf[2]), f"Leaf (LV {lf[1]} {lf[2]})"
    d, terms = {}, []
    for k, v in spec[1]:
        o, tm = build_tree(v, reg, shared)
        d[k] = o
        terms.append(f"({coq_key(k)}, {tm})")
    return d, "Node [" + "; ".join(terms) + "]"


def leaf_term(x, reg, by="id"):
    import torch
    if isinstance(x, torch.Tensor):
        return f"LT {reg.serial_by_id(x) if by == 'id' else reg.serial_by_storage(x)}"
    if isinstance(x, (list, tuple)):
        tok = reg.opaque.get(id(x))
        return f"LV 5 {tok}" if tok is not None else "LV 6 0"
    ty, v = other_token(x)
    return f"LV {ty} {v}"


def pytree_term(x, reg, by="id"):
    """Coq `tree` term of a nested Python dict as the implementation returned it (key types as they are)."""
    if isinstance(x, dict):
        return "Node [" + "; ".join(f"({coq_key(k)}, {pytree_term(v, reg, by)})" for k, v in x.items()) + "]"
    return "Leaf (" + leaf_term(x, reg, by) + ")"


def dict_term(x, reg, by="id"):
    t = pytree_term(x, reg, by)
    assert t.startswith("Node ")
    return t[5:]


def all_paths(spec, prefix=()):
    out = []
    if spec[0] == "N":
        for k, v in spec[1]:
            out.append(prefix + (k,))
            out += all_paths(v, prefix + (k,))
    return out


class JsonContract:
    """json.loads(json.dumps(p)) == p with element types, and json.dumps injective, on every generated path."""

    def __init__(self):
        self.seen = {}
        self.n = 0
        self.bad = []

    def check(self, p):
        p = list(p)
        self.n += 1
        try:
            s = json.dumps(p)
            q = json.loads(s)
        except Exception as ex:  # noqa
            self.bad.append(("exception", repr(p), repr(ex)))
            return
        if not (isinstance(q, list) and len(q) == len(p) and all(type(a) is type(b) and a == b for a, b in zip(p, q))):
            self.bad.append(("roundtrip", repr(p), repr(q)))
        tp = tuple((type(a).__name__, a) for a in p)
        old = self.seen.setdefault(s, tp)
        if old != tp:
            self.bad.append(("collision", repr(p), repr(old)))


def decode_flat_key(raw):
    """json.loads of a flat key; None when it is not a list of str|int."""
    try:
        q = json.loads(raw)
    except Exception:  # noqa
        return None
    if not isinstance(q, list) or not all(type(a) in (int, str) for a in q):
        return None
    return q


def coq_xkey(raw) -> str:
    q = decode_flat_key(raw) if isinstance(raw, str) else None
    return "None" if q is None else f"Some {coq_path(q)}"


ERRS = ["KeyError", "TypeError", "ValueError", "AttributeError", "RuntimeError"]


def err_class(ex) -> str | None:
    for nm, cl in (("KeyError", KeyError), ("TypeError", TypeError), ("AttributeError", AttributeError), ("RuntimeError", RuntimeError), ("ValueError", ValueError)):
        if isinstance(ex, cl):
            return nm
    return None


# ----------------------------------------------------------------------------------------------
# object graphs : skeleton = ('T', n) | ('O', ty) | ('M', [(name, sk)]) | ('D', [(key, sk)]) | ('S', kind, [sk])

def gen_skel(rng, depth, maxdepth, top=False, allow_other=True):
    r = rng.random()
    if top or (depth < maxdepth and r < 0.5):
        kind = "M" if top else rng.choice(["M", "D", "D", "S", "S"])
        n = rng.choice([0, 1, 2, 2, 3, 3, 4]) if not top else rng.randint(1, 5)
        if kind == "M":
            names = rng.sample(ATTR_NAMES, n)
            return ("M", [(nm, gen_skel(rng, depth + 1, maxdepth, allow_other=allow_other)) for nm in names])
        if kind == "D":
            keys = []
            while len(keys) < n:
                k = rng.choice(INT_KEYS[:8]) if rng.random() < 0.45 else rng.choice(STR_KEYS[:30])
                if not any(type(k) is type(q) and k == q for q in keys):
                    keys.append(k)
            return ("D", [(k, gen_skel(rng, depth + 1, maxdepth, allow_other=allow_other)) for k in keys])
        return ("S", rng.choice(["list", "tuple"]), [gen_skel(rng, depth + 1, maxdepth, allow_other=allow_other) for _ in range(n)])
    if allow_other and r > 0.82:
        return ("O", rng.randint(0, 4))
    if rng.random() < 0.3:
        return ("T", rng.choice(SHAPES))
    return ("T", (rng.randint(1, 3),))


def instantiate(rng, sk, reg, shared=None):
    """-> spec with serials: ('T', serial) | ('O', ty, v) | containers.  ('A', k, shape) = the k-th shared tensor
    (the same object reachable through several paths)."""
    shared = {} if shared is None else shared
    if sk[0] in "TA":
        shape = sk[-1] if not isinstance(sk[-1], int) else (sk[-1],)
        if sk[0] == "A" and sk[1] in shared:
            return ("T", shared[sk[1]])
        vals = [rng.randint(-9, 9) for _ in range(numel(shape))]
        s, _ = reg.new(vals, shape, rand_flavour(rng, shape))
        if sk[0] == "A":
            shared[sk[1]] = s
        return ("T", s)
    if sk[0] == "O":
        ty = sk[1] if rng.random() < 0.8 else rng.randint(0, 4)
        return ("O",) + norm_other(ty, rng.randint(0, 40))
    if sk[0] == "S":
        return ("S", sk[1], [instantiate(rng, e, reg, shared) for e in sk[2]])
    return (sk[0], [(k, instantiate(rng, e, reg, shared)) for k, e in sk[1]])


def make_module_class():
    from optimizer_modules import OptimizerModule

    class M(OptimizerModule):
        pass

    return M


def build_obj(spec, reg, M):
    if spec[0] == "T":
        return reg.objs[spec[1]]
    if spec[0] == "O":
        return other_value(spec[1], spec[2])
    if spec[0] == "M":
        m = M()
        for nm, e in spec[1]:
            m.__dict__[nm] = build_obj(e, reg, M)
        return m
    if spec[0] == "D":
        return {k: build_obj(e, reg, M) for k, e in spec[1]}
    seq = [build_obj(e, reg, M) for e in spec[2]]
    return seq if spec[1] == "list" else tuple(seq)


def obj_term(spec) -> str:
    if spec[0] == "T":
        return f"OTensor {spec[1]}"
    if spec[0] == "O":
        return f"OOther {spec[1]} {spec[2]}"
    if spec[0] == "M":
        return "OModule [" + "; ".join(f"({coq_str(nm)}, {obj_term(e)})" for nm, e in spec[1]) + "]"
    if spec[0] == "D":
        return "ODict [" + "; ".join(f"({coq_key(k)}, {obj_term(e)})" for k, e in spec[1]) + "]"
    return f"OSeq {'SList' if spec[1] == 'list' else 'STuple'} [" + "; ".join(obj_term(e) for e in spec[2]) + "]"


def observe_obj(x, reg) -> str:
    """Coq `obj` term of a live Python object graph (tensors by id())."""
    import torch
    from optimizer_modules import OptimizerModule
    if isinstance(x, torch.Tensor):
        return f"OTensor {reg.serial_by_id(x)}"
    if isinstance(x, OptimizerModule):
        return "OModule [" + "; ".join(f"({coq_str(nm)}, {observe_obj(v, reg)})" for nm, v in x.__dict__.items()) + "]"
    if isinstance(x, dict):
        return "ODict [" + "; ".join(f"({coq_key(k)}, {observe_obj(v, reg)})" for k, v in x.items()) + "]"
    if isinstance(x, (list, tuple)):
        return f"OSeq {'SList' if isinstance(x, list) else 'STuple'} [" + "; ".join(observe_obj(v, reg) for v in x) + "]"
    ty, v = other_token(x)
    return f"OOther {ty} {v}"


def spec_tensor_count(spec):
    if spec[0] == "T":
        return 1
    if spec[0] == "O":
        return 0
    if spec[0] == "S":
        return sum(spec_tensor_count(e) for e in spec[2])
    return sum(spec_tensor_count(e) for _, e in spec[1])


def spec_depth(spec):
    if spec[0] in "TOA":
        return 0
    ch = spec[2] if spec[0] == "S" else [e for _, e in spec[1]]
    return 1 + max([spec_depth(e) for e in ch] + [0])


def spec_has_leafless_seq_elem(spec):
    if spec[0] in "TO":
        return False
    if spec[0] == "S":
        return any((e[0] not in "TO" and spec_tensor_count(e) == 0) or spec_has_leafless_seq_elem(e) for e in spec[2])
    return any(spec_has_leafless_seq_elem(e) for _, e in spec[1])


def spec_paths(spec, prefix=()):
    out = []
    if spec[0] in "TO":
        return out
    ch = list(enumerate(spec[2])) if spec[0] == "S" else spec[1]
    for k, e in ch:
        out.append(prefix + (k,))
        out += spec_paths(e, prefix + (k,))
    return out


# ---- edits of a state dict (stream D, malformed) --------------------------------------------

def edit_state_dict(rng, sd, spec_old, reg, b_load):
    """Mutate the nested dict `sd` (saved form of m') at one random place, guided by the structure of the
    object it will be loaded into.  Returns a label.  Never produces a situation the model declines
    (tensor where the saved form of a list/tuple with loadable elements is expected)."""
    # collect (container dict, key, old spec) triples
    places = []

    def walk(d, spec):
        if not isinstance(d, dict) or spec[0] in "TO":
            return
        ch = list(enumerate(spec[2])) if spec[0] == "S" else spec[1]
        for k, e in ch:
            places.append((d, k, e))
            if k in d:
                walk(d[k], e)

    walk(sd, spec_old)
    if not places or rng.random() < 0.12:
        sd["__extra__"] = reg.new([7])[1]
        return "extra-top"
    d, k, e = rng.choice(places)
    kind = e[0]
    choices = ["missing", "extra"]
    if kind == "T":
        choices += ["dict", "other", "len1", "lenbad", "dict"]
    elif kind in "MD":
        choices += ["tensor", "other", "emptydict", "extra-inside"]
    elif kind == "S":
        choices += ["other", "emptydict", "strkeys", "drop-index"]
    else:
        choices += ["othertype", "tensor", "dict"]
    c = rng.choice(choices)
    if c in ("len1", "lenbad") and reg.objs[e[1]].dim() != 1:
        c = "dict"          # the 1-D broadcasting rule of the model only speaks about 1-D targets
    if c == "missing":
        d.pop(k, None)
    elif c == "extra":
        d[("zz", 99)[rng.randint(0, 1)]] = reg.new([5])[1]
    elif c in ("dict", "emptydict"):
        d[k] = {} if c == "emptydict" or rng.random() < 0.5 else {"q": reg.new([3])[1]}
    elif c in ("other", "othertype"):
        d[k] = other_value(*norm_other(rng.choice([0, 2, 3, 4]) if kind == "S" else rng.randint(0, 4), rng.randint(0, 40)))
    elif c == "tensor":
        d[k] = reg.new([rng.randint(-9, 9) for _ in range(rng.randint(1, 3))])[1]
    elif c == "len1":
        d[k] = reg.new([rng.randint(-9, 9)])[1]
    elif c == "lenbad":
        d[k] = reg.new([1, 2, 3, 4])[1]
    elif c == "extra-inside":
        if isinstance(d.get(k), dict):
            d[k]["__more__"] = reg.new([2])[1]
    elif c == "strkeys":
        if isinstance(d.get(k), dict):
            d[k] = {str(i): v for i, v in d[k].items()}
    elif c == "drop-index":
        if isinstance(d.get(k), dict) and d[k]:
            d[k].pop(rng.choice(list(d[k].keys())))
    return c


# ----------------------------------------------------------------------------------------------
# case records

# ----------------------------------------------------------------------------------------------
# quantifier audit: which input classes named (or plainly allowed) by the property were generated in this run

def bump(stats, cls, n=1):
    a = stats.setdefault("audit", {})
    a[cls] = a.get(cls, 0) + n


def _sorted_ok(keys):
    try:
        return list(keys) == sorted(keys)
    except TypeError:
        return True


def audit_tree(spec, A):
    """Classes of one nested-dict input (counted once per input)."""
    found = set()

    def walk(node, depth):
        if node[0] == "L":
            lf = node[1]
            if lf[0] == "R":
                found.add("flat:same_tensor_object_under_several_keys")
            elif lf[0] == "Q":
                found.add("flat:tuple_or_list_value_as_leaf_object")
            elif lf[0] == "O":
                found.add("flat:non_tensor_leaf")
            return
        items = node[1]
        keys = [k for k, _ in items]
        ints = [k for k in keys if isinstance(k, int)]
        strs = [k for k in keys if isinstance(k, str)]
        if ints and strs:
            found.add("flat:int_and_str_keys_as_siblings")
        for k in ints:
            if str(k) in strs:
                found.add("flat:same_spelling_int_and_str_siblings(0 next to '0')")
                sub = dict((type(q).__name__ + repr(q), v) for q, v in items)
                if sub["int" + repr(k)][0] == "N" and sub["str" + repr(str(k))][0] == "N":
                    found.add("flat:same_spelling_int_and_str_PARENT_keys")
        for k, v in items:
            if v[0] == "N":
                for ck_, cv in v[1]:
                    for sep in SEPS + ["."]:
                        if (str(k) + sep + str(ck_)) in strs:
                            found.add("flat:key_with_separator_next_to_the_split_path('a.b' next to 'a'->'b')")
                            tgt = dict((q, w) for q, w in items if isinstance(q, str)).get(str(k) + sep + str(ck_))
                            if tgt is not None and tgt[0] == "N" and cv[0] == "N":
                                found.add("flat:separator_collision_between_PARENT_paths")
            if k == "":
                found.add("flat:empty_string_key")
                if v[0] == "N" and v[1]:
                    found.add("flat:empty_string_PARENT_key")
            if isinstance(k, int) and (k < 0 or abs(k) >= 2 ** 31):
                found.add("flat:negative_or_beyond_int32_int_key")
            if isinstance(k, int) and abs(k) >= 2 ** 63:
                found.add("flat:int_key_beyond_int64")
            if isinstance(k, str):
                if any(ord(c) > 127 or ord(c) < 32 for c in k):
                    found.add("flat:non_ascii_or_control_char_key")
                if any(c in k for c in '"\\[],/.'):
                    found.add("flat:key_with_quote_backslash_bracket_comma_slash_dot")
                if k.lstrip("-").isdigit() or k in ("true", "null", "1.0", "1e3"):
                    found.add("flat:numeric_or_json_literal_looking_str_key")
        if len(items) >= 20:
            found.add("flat:dict_level_with_20_or_more_keys")
        if (ints and not strs and not _sorted_ok(ints)) or (strs and not ints and not _sorted_ok(strs)):
            found.add("flat:insertion_order_differs_from_sorted_order")
        for k, v in items:
            if v[0] == "N" and not tree_has_leaf(v):
                found.add("flat:leafless_sub_dict")
                if any(w[0] == "N" for _, w in v[1]):
                    found.add("flat:leafless_sub_dict_nested_in_leafless_sub_dict")
                if any(tree_has_leaf(w) for q, w in items if q is not k):
                    found.add("flat:leafless_sub_dict_next_to_a_leaf")
            walk(v, depth + 1)

    walk(spec, 0)
    d = tree_depth(spec)
    if d == 6:
        found.add("flat:nesting_depth_6")
    if d > 6:
        found.add("flat:nesting_depth_above_6")
    if not spec[1]:
        found.add("flat:empty_top_level_dict")
    elif not tree_has_leaf(spec):
        found.add("flat:no_leaf_at_all")
    if tree_leafless_subdicts(spec) == 0 and spec[1]:
        found.add("flat:every_sub_dict_holds_a_leaf")
    for c in found:
        A[c] = A.get(c, 0) + 1


def audit_skel(sk, A, ncases, stream):
    """Classes of one object-graph skeleton; counted with the number of cases generated from it."""
    found = set()

    def tcount(e):
        if e[0] in "TA":
            return 1
        if e[0] == "O":
            return 0
        return sum(tcount(x) for x in (e[2] if e[0] == "S" else [v for _, v in e[1]]))

    def walk(e, depth, in_seq):
        if e[0] in "TA":
            shape = e[-1] if not isinstance(e[-1], int) else (e[-1],)
            if len(shape) == 0:
                found.add("zero_dim_tensor")
            if len(shape) >= 2:
                found.add("tensor_of_rank_2")
            if numel(shape) == 0:
                found.add("empty_tensor")
            if e[0] == "A":
                found.add("same_tensor_object_reachable_through_several_paths")
            return
        if e[0] == "O":
            found.add("non_tensor_value")
            return
        ch = e[2] if e[0] == "S" else [v for _, v in e[1]]
        if e[0] == "M" and depth > 0:
            found.add("nested_module")
            if in_seq:
                found.add("module_as_sequence_element")
        if e[0] == "M" and not ch:
            found.add("module_without_attributes")
        if e[0] != "S" and depth > 0 and tcount(e) == 0:
            found.add("leafless_container(no tensor inside)")
            if ch:
                found.add("leafless_container_with_leafless_content")
        if e[0] == "D":
            ks = [k for k, _ in e[1]]
            if any(isinstance(k, int) for k in ks) and any(isinstance(k, str) for k in ks):
                found.add("dict_with_int_and_str_keys")
            if any(isinstance(k, int) and str(k) in ks for k in ks):
                found.add("dict_with_0_next_to_'0'")
        if e[0] == "S":
            found.add("tuple" if e[1] == "tuple" else "list")
            kinds = [x[0] for x in ch]
            if "O" in kinds and any(kd in "TA" for kd in kinds):
                found.add("sequence_with_non_tensor_between_or_before_tensors(sparse saved dict)")
                first_t = min(i for i, kd in enumerate(kinds) if kd in "TA")
                if "O" in kinds[:first_t]:
                    found.add("sequence_starting_with_non_tensors")
            if any(x[0] in "MDS" and tcount(x) == 0 for x in ch) and tcount(e) > 0:
                found.add("sequence_with_leafless_container_element_and_tensors")
            if len(ch) >= 11:
                found.add("sequence_of_11_or_more_elements")
            if not ch:
                found.add("empty_sequence")
            if any(x[0] == "S" for x in ch):
                found.add("sequence_nested_in_sequence")
            if in_seq is False and any(x[0] == "D" for x in ch):
                found.add("dict_as_sequence_element")
        for x in ch:
            walk(x, depth + 1, e[0] == "S")

    walk(sk, 0, False)
    if stream == "restore":
        def dwalk(e, depth):      # dict levels of a parameter state only (not inside modules)
            if e[0] != "D":
                return
            for _, v in e[1]:
                if v[0] == "O":
                    found.add("non_tensor_entry_of_the_state(deepcopy branch)")
                if v[0] == "M" and tcount(v) == 0:
                    found.add("leafless_module_as_entry" + ("_of_a_nested_dict" if depth > 0 else ""))
                    if depth > 0 and tcount(e) == 0:
                        found.add("nested_dict_entry_holding_only_leafless_modules")
                if v[0] == "D" and tcount(v) == 0:
                    found.add("leafless_dict_as_entry")
                dwalk(v, depth + 1)
        dwalk(sk, 0)
    if spec_depth(sk) >= 5:
        found.add("graph_depth_5_or_more")
    if tcount(sk) == 0:
        found.add("no_tensor_at_all")
    for c in found:
        key = f"{stream}:{c}"
        A[key] = A.get(key, 0) + ncases


class Case:
    __slots__ = ("stream", "defs", "agree", "check", "replay", "nontrivial", "sig_hint", "desc")

    def __init__(self, stream, defs, agree, check, replay, nontrivial=True, sig_hint=None, desc=""):
        self.stream, self.defs, self.agree, self.check = stream, defs, agree, check
        self.replay, self.nontrivial, self.sig_hint, self.desc = replay, nontrivial, sig_hint, desc


def jkey(k):
    return ["i", str(k)] if isinstance(k, int) else ["s", k]


def jspec(spec):
    """JSON-serialisable copy of a tree/object spec (keys tagged)."""
    if spec[0] in ("N", "M", "D"):
        return [spec[0], [[jkey(k), jspec(v)] for k, v in spec[1]]]
    if spec[0] == "S":
        return ["S", spec[1], [jspec(e) for e in spec[2]]]
    if spec[0] == "L":
        return ["L", list(spec[1])]
    return list(spec)


def unjkey(j):
    return int(j[1]) if j[0] == "i" else j[1]


def unjspec(j):
    if j[0] in ("N", "M", "D"):
        return (j[0], [(unjkey(k), unjspec(v)) for k, v in j[1]])
    if j[0] == "S":
        return ("S", j[1], [unjspec(e) for e in j[2]])
    if j[0] == "L":
        return ("L", tuple(j[1][:1]) + tuple(j[1][1:]))
    return tuple(j)


# ----------------------------------------------------------------------------------------------
# streams

def flat_case(ck, idx, spec, jc, stats, permute=False) -> Case:
    from distributed_shampoo.utils.shampoo_checkpoint_utils import flatten, unflatten
    audit_tree(spec, stats.setdefault("audit", {}))
    reg = Registry()
    d, dterm = build_tree(spec, reg)
    for p in all_paths(spec):
        jc.check(p)
    name = f"c{idx}"
    defs = [f"Definition {name}_d : dict := {dterm[5:]}."]
    rp = {"stream": "flat", "tree": jspec(spec)}
    try:
        flat = flatten(d)
        raw_items = [(k, v) for k, v in flat.items()]
        un = unflatten(flat)
    except Exception as ex:  # noqa
        rp["raised"] = repr(ex)
        return Case("flat", defs, "false", "false", rp, desc=f"flatten/unflatten raised {ex!r}")
    if not all(isinstance(k, str) for k, _ in raw_items):
        rp["raised"] = "non-str flat key"
        return Case("flat", defs, "false", "false", rp, desc="flat key is not a str")
    xflat = "[" + "; ".join(f"({coq_xkey(k)}, {leaf_term(v, reg)})" for k, v in raw_items) + "]"
    raw = "[" + "; ".join(f"({coq_str(k)}, {leaf_term(v, reg)})" for k, v in raw_items) + "]"
    defs.append(f"Definition {name}_x : list (xkey * lf) := {xflat}.")
    defs.append(f"Definition {name}_u : dict := {dict_term(un, reg)}.")
    agree = f"agree_flatten {name}_d {name}_x && agree_unflatten {name}_x (Ok {name}_u)"
    check = f"C16_checkb (ObsFlat {name}_d {raw} {name}_u)"
    if permute and len(raw_items) >= 2:
        # a flat dict whose entries arrive in another order (e.g. a re-ordered checkpoint) must unflatten to an equal dict
        perm = list(raw_items)
        ck.rng.shuffle(perm)
        try:
            un2 = unflatten(dict(perm))
        except Exception as ex:  # noqa
            rp["raised"] = repr(ex)
            return Case("flat", defs, "false", "false", rp, desc=f"unflatten of the permuted flat dict raised {ex!r}")
        x2 = "[" + "; ".join(f"({coq_xkey(k)}, {leaf_term(v, reg)})" for k, v in perm) + "]"
        defs.append(f"Definition {name}_x2 : list (xkey * lf) := {x2}.")
        defs.append(f"Definition {name}_u2 : dict := {dict_term(un2, reg)}.")
        agree += f" && agree_unflatten {name}_x2 (Ok {name}_u2)"
        check += f" && tree_eqvb (Node {name}_u2) (Node (prune_dict {name}_d))"
        rp["permuted_keys"] = [k for k, _ in perm]
        bump(stats, "permuted_flat_input")
    if reg.nondefault():
        bump(stats, "tensor_leaf_not_1d_contiguous_float64")
    rp["flat_keys"] = [k for k, _ in raw_items]
    stats["flat_keys"] = stats.get("flat_keys", 0) + len(raw_items)
    return Case("flat", defs, agree, check, rp, nontrivial=tree_depth(spec) >= 2 and len(raw_items) >= 2,
                desc=f"flatten/unflatten of a depth-{tree_depth(spec)} dict with {len(raw_items)} flat keys")


def unflat_case(ck, idx, rng) -> Case:
    """Malformed / unusual flat dicts: only non-tensor leaves, so the model never declines."""
    from distributed_shampoo.utils.shampoo_checkpoint_utils import unflatten
    reg = Registry()
    alphabet = ["a", "b", 1, "1", ""]
    flat, kinds = {}, set()
    for _ in range(rng.randint(1, 6)):
        r = rng.random()
        if r < 0.08:
            key, kd = "[]", "empty-path"
        elif r < 0.16:
            key, kd = rng.choice(["not json", "[1,", "", "['a']", "{\"a\": 1}", "[1.5]", "[true]", "[null]", "[[1]]"]), "non-json"
        else:
            p = [rng.choice(alphabet) for _ in range(rng.randint(1, 4))]
            key, kd = json.dumps(p), "path"
        kinds.add(kd)
        flat[key] = other_value(*norm_other(rng.randint(0, 4), rng.randint(0, 40)))
    # keys that json-decode to something that is not a list of str|int are outside the model's `loads = None` only if
    # json.loads fails or the unpacking fails the same way; keep only those whose behaviour is a ValueError/TypeError-free parse
    name = f"c{idx}"
    items = list(flat.items())
    xflat = "[" + "; ".join(f"({coq_xkey(k)}, {leaf_term(v, reg)})" for k, v in items) + "]"
    defs = [f"Definition {name}_x : list (xkey * lf) := {xflat}."]
    rp = {"stream": "unflat", "flat": [[k, list(other_token(v))] for k, v in items]}
    try:
        un = unflatten(dict(items))
        out = f"Ok {dict_term(un, reg)}"
    except Exception as ex:  # noqa
        ec = err_class(ex)
        rp["raised"] = repr(ex)
        if ec is None:
            return Case("unflat", defs, "false", "true", rp, desc=f"unflatten raised {ex!r}")
        out = f"Raise {ec}"
    return Case("unflat", defs, f"agree_unflatten {name}_x ({out})", "true", rp, nontrivial=len(items) >= 2, desc="unflatten of a hand-made flat dict: " + ",".join(sorted(kinds)))


def json_only_valueerror(raw: str) -> bool:
    """flat keys whose json.loads succeeds with a non-list / list with other element types behave differently from
    JSONDecodeError (TypeError, unhashable ...); the unflat stream keeps only keys where the implementation's
    behaviour is the modelled one."""
    try:
        q = json.loads(raw)
    except Exception:  # noqa
        return True
    return isinstance(q, list) and all(type(a) in (int, str) for a in q)


def module_cases(ck, idx0, rng, jc, stats, maxdepth, sk=None) -> list[Case]:
    """Streams C and D on one module skeleton (random unless given)."""
    import copy
    from distributed_shampoo.utils.shampoo_checkpoint_utils import flatten, unflatten
    M = make_module_class()
    sk = sk if sk is not None else gen_skel(rng, 0, maxdepth, top=True)
    cases = []
    idx = idx0

    def fresh_pair():
        reg = Registry()
        s_old = instantiate(rng, sk, reg)
        s_new = instantiate(rng, sk, reg)
        return reg, s_old, s_new, build_obj(s_old, reg, M), build_obj(s_new, reg, M)

    # ---- C: state_dict of m', both flags; flatten/unflatten of it
    for b in (False, True):
        reg, s_old, s_new, m, m2 = fresh_pair()
        for p in spec_paths(s_new):
            jc.check(p)
        name = f"c{idx}"
        idx += 1
        defs = [f"Definition {name}_m : obj := {obj_term(s_new)}."]
        rp = {"stream": "sd", "obj": jspec(s_new), "store_non_tensors": b}
        try:
            sd = m2.state_dict(store_non_tensors=b)
            sdt = pytree_term(sd, reg, by="storage")
            # identity of the (detached) leaf objects of this very dict, for flatten/unflatten
            reg2 = Registry()
            reg2.objs = list(reg.objs)
            reg2.ptrs = []

            def reg_leaves(x):
                import torch
                if isinstance(x, dict):
                    for v in x.values():
                        reg_leaves(v)
                elif isinstance(x, torch.Tensor):
                    reg2.by_id[id(x)] = reg.serial_by_storage(x)
                    reg2.objs.append(x)

            reg_leaves(sd)
            flat = flatten(sd)
            raw_items = list(flat.items())
            un = unflatten(flat)
            defs.append(f"Definition {name}_s : tree := {sdt}.")
            defs.append(f"Definition {name}_sd : dict := {sdt[5:]}.")
            xflat = "[" + "; ".join(f"({coq_xkey(k)}, {leaf_term(v, reg2)})" for k, v in raw_items) + "]"
            raw = "[" + "; ".join(f"({coq_str(k)}, {leaf_term(v, reg2)})" for k, v in raw_items) + "]"
            defs.append(f"Definition {name}_x : list (xkey * lf) := {xflat}.")
            defs.append(f"Definition {name}_u : dict := {dict_term(un, reg2)}.")
            agree = (f"agree_state_dict {coq_bool(b)} {name}_m {name}_s && agree_flatten {name}_sd {name}_x "
                     f"&& agree_unflatten {name}_x (Ok {name}_u)")
            check = f"C16_checkb (ObsSd {name}_m {name}_s) && C16_checkb (ObsFlat {name}_sd {raw} {name}_u)"
            cases.append(Case("sd", defs, agree, check, rp, nontrivial=spec_tensor_count(s_new) >= 2 and spec_depth(s_new) >= 2,
                              desc=f"state_dict(store_non_tensors={b}) of a module graph with {spec_tensor_count(s_new)} tensors"))
        except Exception as ex:  # noqa
            rp["raised"] = repr(ex)
            cases.append(Case("sd", defs, "false", "false", rp, desc=f"state_dict/flatten raised {ex!r}"))

    # ---- D: load
    variants = [("direct", False, False), ("direct", True, True), ("roundtrip", False, False), ("roundtrip", True, True),
                ("edited", rng.random() < 0.5, rng.random() < 0.5), ("edited", False, False), ("mixed-flags", True, False), ("mixed-flags", False, True)]
    for var, b_save, b_load in variants:
        reg, s_old, s_new, m, m2 = fresh_pair()
        name = f"c{idx}"
        idx += 1
        rp = {"stream": "load", "variant": var, "old": jspec(s_old), "new": jspec(s_new), "b_save": b_save, "b_load": b_load}
        defs = [f"Definition {name}_m : obj := {obj_term(s_old)}.", f"Definition {name}_n : obj := {obj_term(s_new)}."]
        label = ""
        try:
            sd = m2.state_dict(store_non_tensors=b_save)
            if var == "roundtrip":
                sd = unflatten(flatten(sd))
            elif var == "edited":
                label = edit_state_dict(rng, sd, s_old, reg, b_load)
                rp["edit"] = label
        except Exception as ex:  # noqa
            rp["raised"] = repr(ex)
            cases.append(Case("load", defs, "false", "false", rp, desc=f"state_dict/flatten raised {ex!r}"))
            continue
        h0 = reg.heap()
        tterm = pytree_term(sd, reg, by="storage")
        defs.append(f"Definition {name}_t : tree := {tterm}.")
        defs.append(f"Definition {name}_h : list (nat * list Z) := {coq_heap(h0)}.")
        ok = True
        try:
            m.load_state_dict(sd, store_non_tensors=b_load)
            obs = observe_obj(m, reg)
            h1 = reg.heap()
            defs.append(f"Definition {name}_o : obj := {obs}.")
            defs.append(f"Definition {name}_g : list (nat * list Z) := {coq_heap(h1)}.")
            out = f"Ok ({name}_o, {name}_g)"
        except Exception as ex:  # noqa
            ok = False
            ec = err_class(ex)
            rp["raised"] = repr(ex)
            out = f"Raise {ec}" if ec else None
        agree = "false" if out is None else f"agree_load {coq_bool(b_load)} {name}_m {name}_t {name}_h ({out})"
        speaks = var in ("direct", "roundtrip")
        if speaks:
            check = (f"C16_checkb (ObsLoad {name}_m {name}_n {name}_h true (tensors {name}_o) {name}_g)" if ok
                     else f"C16_checkb (ObsLoad {name}_m {name}_n {name}_h false [] [])")
        else:
            check = "true"
        hint = None
        if var == "roundtrip" and not ok and "KeyError" in rp.get("raised", "") and spec_has_leafless_seq_elem(s_old):
            hint = "C16:module-load-keyerror-on-leafless-seq-element"
        if reg.nondefault():
            bump(stats, "load_with_tensor_not_1d_contiguous_float64")
        nt = len(reg.flavours) // 2 if var != "edited" else 0
        if any(reg.flavours[i][1] != reg.flavours[nt + i][1] for i in range(min(nt, len(reg.flavours) - nt))):
            bump(stats, "load_dtype_differs_between_source_and_target")
        stats.setdefault("load_variants", {}).setdefault(var + (":" + label if label else ""), 0)
        stats["load_variants"][var + (":" + label if label else "")] += 1
        stats.setdefault("load_outcomes", {}).setdefault("ok" if ok else rp["raised"].split("(")[0], 0)
        stats["load_outcomes"]["ok" if ok else rp["raised"].split("(")[0]] += 1
        cases.append(Case("load" if speaks else "load-malformed", defs, agree, check, rp, nontrivial=spec_tensor_count(s_old) >= 2,
                          sig_hint=hint, desc=f"load_state_dict ({var}{' ' + label if label else ''}, save={b_save}, load={b_load})"))

    # ---- D': a module loading its own state dict (directly / through flatten+unflatten), and two loads in a row
    for var, b in (("self", False), ("self-roundtrip", True), ("twice", False), ("twice", True)):
        reg = Registry()
        s_old = instantiate(rng, sk, reg)
        m = build_obj(s_old, reg, M)
        name = f"c{idx}"
        idx += 1
        rp = {"stream": "load", "variant": var, "old": jspec(s_old), "new": jspec(s_old), "b_save": b, "b_load": b}
        defs = [f"Definition {name}_m : obj := {obj_term(s_old)}."]
        try:
            if var.startswith("self"):
                sds = [m.state_dict(store_non_tensors=b)]
                if var == "self-roundtrip":
                    sds = [unflatten(flatten(sds[0]))]
                last = s_old
            else:
                s1, s2 = instantiate(rng, sk, reg), instantiate(rng, sk, reg)
                sds = [build_obj(s1, reg, M).state_dict(store_non_tensors=b), build_obj(s2, reg, M).state_dict(store_non_tensors=b)]
                last = s2
                rp["new"] = jspec(s2)
            defs.append(f"Definition {name}_n : obj := {obj_term(last)}.")
            h0 = reg.heap()
            for i, sd in enumerate(sds):
                defs.append(f"Definition {name}_t{i} : tree := {pytree_term(sd, reg, by='storage')}.")
            defs.append(f"Definition {name}_h : list (nat * list Z) := {coq_heap(h0)}.")
            for sd in sds:
                m.load_state_dict(sd, store_non_tensors=b)
            defs.append(f"Definition {name}_o : obj := {observe_obj(m, reg)}.")
            defs.append(f"Definition {name}_g : list (nat * list Z) := {coq_heap(reg.heap())}.")
        except Exception as ex:  # noqa
            rp["raised"] = repr(ex)
            cases.append(Case("load", defs[:1], "false", "false", rp, desc=f"load_state_dict ({var}) raised {ex!r}"))
            continue
        bb = coq_bool(b)
        model = f"load_state_dict {bb} {name}_m {name}_t0 (heap_of {name}_h)"
        if len(sds) == 2:
            model = f"match {model} with Ok (o, h) => load_state_dict {bb} o {name}_t1 h | Raise e => Raise e end"
        agree = f"agree_outcome ({model}) (Ok ({name}_o, {name}_g))"
        check = f"C16_checkb (ObsLoad {name}_m {name}_n {name}_h true (tensors {name}_o) {name}_g)"
        bump(stats, "load_own_state_dict" if var.startswith("self") else "two_loads_in_a_row")
        cases.append(Case("load", defs, agree, check, rp, nontrivial=spec_tensor_count(s_old) >= 2, desc=f"load_state_dict ({var}, store_non_tensors={b})"))
    audit_skel(sk, stats.setdefault("audit", {}), len(cases), "module")
    return cases


ALIAS_VARIANTS = (("step-view", 8, (0, 2, 1), (0, 2, 4)), ("expand-view", 4, (0, 2, 1), (0, 2, 0)), ("shifted-overlap-free", 8, (0, 3, 1), (4, 3, 1)))
# (a transposed view of the same 2x2 buffer is NOT a case: source and destination partially overlap and torch refuses the copy loudly)


def alias_load_case(var, nested: bool, store: bool):
    """m holds a view of a buffer; the incoming state dict holds a DIFFERENTLY STRIDED view of the same buffer (same data_ptr for the
    first three variants).  'Loading reproduces every tensor value in place': afterwards m's tensor (same object) holds what the incoming
    tensor held when load_state_dict was called.  The heap model of StateDict.v has no strides, so this stream is decided on the
    implementation against the clause directly."""
    import torch
    M = make_module_class()
    name, n, dst, src = var
    buf = torch.arange(1, n + 1, dtype=torch.float32)
    mk = lambda v: torch.as_strided(buf, (v[1],) if isinstance(v[1], int) else v[1], (v[2],) if isinstance(v[2], int) else v[2], v[0])  # noqa: E731
    t, inc = mk(dst), mk(src)
    m = M()
    m.t = t
    holder = m
    if nested:
        holder = M()
        holder.inner = {"k": [m]}
    want = inc.clone()
    sd = holder.state_dict(store_non_tensors=store)
    path = sd
    if nested:
        path = sd["inner"]["k"][0]
    path["t"] = inc
    holder.load_state_dict(sd, store_non_tensors=store)
    return m.t is t, bool(torch.equal(m.t, want)), m.t.tolist(), want.tolist()


def gen_pstate_skel(rng, depth):
    n = rng.randint(1, 4) if depth == 0 else rng.choice([0, 1, 2, 3])
    keys = []
    while len(keys) < n:
        k = rng.choice(["block_0", "block_1", "shampoo", "grafting", "step", "momentum", "filtered_grad", "a.b", "1", 1, 0, "", "\""])
        if not any(type(k) is type(q) and k == q for q in keys):
            keys.append(k)
    items = []
    for k in keys:
        r = rng.random()
        if r < 0.3 and depth < 3:
            items.append((k, gen_pstate_skel(rng, depth + 1)))
        elif r < 0.6:
            # a module; sometimes one without any tensor (empty tuples / empty dicts / nothing)
            if rng.random() < 0.35:
                fields = rng.choice([[], [("factor_matrices", ("S", "tuple", []))], [("factor_matrices", ("S", "tuple", [])), ("inv", ("D", []))],
                                     [("cfg", ("O", 0))], [("nested", ("M", []))]])
                items.append((k, ("M", fields)))
            else:
                items.append((k, gen_skel(rng, 1, 3, top=True)))
        elif r < 0.92:
            items.append((k, ("T", (rng.randint(1, 3),) if rng.random() < 0.7 else rng.choice(SHAPES))))
        else:
            items.append((k, ("O", rng.randint(0, 4))))     # a non-tensor entry (restored by deepcopy)
    return ("D", items)


def restore_cases(ck, idx0, rng, jc, stats, sk=None) -> list[Case]:
    import copy
    from distributed_shampoo.utils.shampoo_checkpoint_utils import (extract_state_dict_content, flatten, unflatten,
                                                                    update_param_state_dict_object)
    M = make_module_class()
    sk = sk if sk is not None else gen_pstate_skel(rng, 0)
    audit_skel(sk, stats.setdefault("audit", {}), 4, "restore")
    cases = []
    idx = idx0
    for var, chk in (("roundtrip", True), ("roundtrip", False), ("missing", True), ("missing", False)):
        reg = Registry()
        s_old = instantiate(rng, sk, reg)
        s_new = instantiate(rng, sk, reg)
        cur, cur2 = build_obj(s_old, reg, M), build_obj(s_new, reg, M)
        name = f"c{idx}"
        idx += 1
        rp = {"stream": "restore", "variant": var, "old": jspec(s_old), "new": jspec(s_new), "check": chk}
        defs = [f"Definition {name}_m : list (key * obj) := {obj_term(s_old)[6:]}.", f"Definition {name}_n : list (key * obj) := {obj_term(s_new)[6:]}."]
        leafless = any(e[0] in "MD" and spec_tensor_count(e) == 0 for _, e in walk_entries(s_old))
        try:
            content = extract_state_dict_content(cur2)
            cterm = dict_term(content, reg, by="storage")
            un = unflatten(flatten(content))
            label = ""
            if var == "missing":
                label = drop_random_key(rng, un)
                rp["dropped"] = label
        except Exception as ex:  # noqa
            rp["raised"] = repr(ex)
            cases.append(Case("restore", defs, "false", "false", rp, desc=f"extract/flatten raised {ex!r}"))
            continue
        h0 = reg.heap()
        defs.append(f"Definition {name}_c : dict := {cterm}.")
        defs.append(f"Definition {name}_t : dict := {dict_term(un, reg, by='storage')}.")
        defs.append(f"Definition {name}_h : list (nat * list Z) := {coq_heap(h0)}.")
        ok = True
        try:
            update_param_state_dict_object(cur, un, chk)
            defs.append(f"Definition {name}_o : obj := {observe_obj(cur, reg)}.")
            defs.append(f"Definition {name}_g : list (nat * list Z) := {coq_heap(reg.heap())}.")
            out = f"Ok ({name}_o, {name}_g)"
        except Exception as ex:  # noqa
            ok = False
            ec = err_class(ex)
            rp["raised"] = repr(ex)
            out = f"Raise {ec}" if ec else None
        agree = "false" if out is None else f"agree_extract {name}_n {name}_c && agree_restore {coq_bool(chk)} {name}_m {name}_t {name}_h ({out})"
        speaks = var == "roundtrip"
        if speaks:
            check = (f"C16_checkb (ObsLoad (ODict {name}_m) (ODict {name}_n) {name}_h true (tensors {name}_o) {name}_g)" if ok
                     else f"C16_checkb (ObsLoad (ODict {name}_m) (ODict {name}_n) {name}_h false [] [])")
        else:
            check = "true"
        hint = "C16:restore-keyerror-on-leafless-subdict" if (speaks and not ok and "KeyError" in rp.get("raised", "") and leafless) else None
        stats.setdefault("restore_outcomes", {}).setdefault(var + ":" + ("ok" if ok else rp["raised"].split("(")[0]), 0)
        stats["restore_outcomes"][var + ":" + ("ok" if ok else rp["raised"].split("(")[0])] += 1
        if leafless:
            stats["restore_with_leafless_entries"] = stats.get("restore_with_leafless_entries", 0) + 1
        cases.append(Case("restore" if speaks else "restore-malformed", defs, agree, check, rp, nontrivial=spec_tensor_count(s_old) >= 2,
                          sig_hint=hint, desc=f"update_param_state_dict_object ({var}{' ' + label if label else ''}, check={chk}, leafless={leafless})"))
    return cases


def walk_entries(spec, prefix=()):
    out = []
    if spec[0] == "D":
        for k, e in spec[1]:
            out.append((prefix + (k,), e))
            out += walk_entries(e, prefix + (k,))
    return out


def drop_random_key(rng, d) -> str:
    """Remove one random entry of the nested dict (only at dict levels that came from dicts of the state)."""
    places = []

    def walk(x, depth):
        if isinstance(x, dict) and depth < 3:
            for k, v in x.items():
                places.append((x, k))
                walk(v, depth + 1)

    walk(d, 0)
    if not places:
        return "nothing"
    x, k = rng.choice(places[: max(1, len(places) // 2)] if rng.random() < 0.7 else places)
    x.pop(k)
    return repr(k)


# ----------------------------------------------------------------------------------------------

def crafted_trees():
    T = lambda *v: ("L", ("T", list(v) or [1]))  # noqa
    out = [
        ("N", []),
        ("N", [("a", ("N", []))]),
        ("N", [("a", ("N", [("b", ("N", [("c", ("N", []))]))])), ("x", T(1))]),
        ("N", [(1, T(1)), ("1", T(2))]),
        ("N", [("1", ("N", [(2, T(1))])), (1, ("N", [("2", T(2))]))]),
        ("N", [("a.b", T(1)), ("a", ("N", [("b", T(2))]))]),
        ("N", [("a", ("N", [("b", T(2))])), ("a.b", T(1)), ("a/b", T(3)), ("a, b", T(4)), ("a\", \"b", T(5)), ("[\"a\", \"b\"]", T(6))]),
        ("N", [("", ("N", [("", ("N", [("", T(1))]))])), (0, ("N", [(0, ("N", [(0, T(2))]))]))]),
        ("N", [(10 ** 30, T(1)), (-(2 ** 63) - 1, T(2)), (2 ** 63, ("N", [(-1, T(3))]))]),
        ("N", [("é", T(1)), ("\\u00e9", T(2)), ("\U0001f600", ("N", [("日本", T(3))]))]),
        ("N", [("k", ("N", [("e1", ("N", [])), ("t", T(1)), ("e2", ("N", [("e3", ("N", []))]))]))]),
    ]
    # depth 6 chain with a branch at every level
    t = T(9)
    for i in range(6):
        t = ("N", [(i, t), (str(i), T(i))])
    out.append(t)
    # ---- quantifier audit: classes a random draw may miss in the quick tier
    X = lambda: ("N", [("x", T(1)), ("y", T(2))])  # noqa
    out += [
        # equal leaf names under parent paths that differ only in key type / separator / emptiness
        ("N", [(0, X()), ("0", X())]),
        ("N", [("0", X()), (0, X()), (1, ("N", [("2", X()), (2, X())])), ("1", ("N", [(2, X())]))]),
        ("N", [("a.b", X()), ("a", ("N", [("b", X())]))]),
        ("N", [("a", ("N", [("b", X())])), ("a.b", X()), ("1.2", X()), (1, ("N", [(2, X())])), ("1", ("N", [("2", X())]))]),
        ("N", [("", X()), ("x", T(3)), ("y", ("N", [("", X())]))]),
        ("N", [("x", T(3)), ("", ("N", [("", ("N", [("", X())])), ("x", T(4))]))]),
        ("N", [("a", ("N", [("", X())])), ("a.", X()), (".", X()), ("", ("N", [("", X())]))]),
        ("N", [("step", T(1)), (0, T(2))]),
        ("N", [("factor_matrices", ("N", [(0, T(1)), (1, T(2)), ("shape", T(3))]))]),
        # insertion order that no sort reproduces
        ("N", [(2, T(1)), (0, T(2)), (10, T(3)), (1, T(4)), (-1, T(5))]),
        ("N", [("b", T(1)), ("a", ("N", [("z", T(2)), ("y", T(3))])), ("B", T(4)), ("", T(5))]),
        # every adversarial key as a sibling of every other (wide level), once flat and once as parents
        ("N", [(k, T(i)) for i, k in enumerate(STR_KEYS + INT_KEYS)]),
        ("N", [(k, ("N", [(k2, T(1)) for k2 in ("", 0, "0")])) for k in STR_KEYS[:24] + INT_KEYS]),
        # leafless shapes
        ("N", [("only", ("N", [("empty", ("N", []))]))]),
        ("N", [("e", ("N", [])), ("t", T(1)), ("f", ("N", [(0, ("N", [])), ("0", ("N", []))]))]),
        # leaves: the same object twice, a tuple / list value, tensors of rank 0 / 2, empty, other dtypes and layouts
        ("N", [("a", ("L", ("R", 0))), ("b", ("N", [("a", ("L", ("R", 0))), ("c", ("L", ("R", 1)))])), ("c", ("L", ("R", 1)))]),
        ("N", [("t", ("L", ("Q", "tuple"))), ("l", ("N", [(0, ("L", ("Q", "list")))])), ("x", T(1))]),
        ("N", [("s", ("L", ("T", [5], [], {"dtype": "float32"}))), ("m", ("L", ("T", [1, 2, 3, 4], [2, 2], {"dtype": "bfloat16", "layout": "transposed"}))),
               ("e", ("L", ("T", [], [0], {}))), ("i", ("L", ("T", [1, 2], [2], {"dtype": "int64", "layout": "strided"}))),
               ("g", ("L", ("T", [1, 2], [2], {"dtype": "float16", "grad": True})))]),
    ]
    # beyond the property's depth bound (the theorems hold for any depth)
    t = T(9)
    for i in range(9):
        t = ("N", [(("k", i)[i % 2], t)])
    out.append(t)
    return out


def crafted_skels():
    """Module skeletons for input classes the property names and a random draw may miss in the quick tier."""
    T1, T2 = ("T", (2,)), ("T", (1,))
    deep = T1
    for i in range(6):
        deep = [("M", [("inner", deep), ("w", T2)]), ("D", [(i, deep), (str(i), T2)]), ("S", "tuple", [T2, deep]), ("S", "list", [deep])][i % 4]
    return [
        ("M", []),
        ("M", [("cfg", ("O", 0)), ("d", ("D", [])), ("t", ("S", "tuple", [])), ("inner", ("M", [])), ("l", ("S", "list", [("D", [])]))]),
        ("M", [("blocks", ("S", "tuple", [T1, ("O", 0), T1, ("O", 3), ("O", 1), T1]))]),
        ("M", [("l", ("S", "list", [("O", 0), ("O", 0), T1])), ("t", ("S", "tuple", [("O", 1), T2, ("O", 1)]))]),
        ("M", [("x", ("S", "tuple", [("S", "list", []), T1, ("M", []), ("D", []), T1, ("M", [("cfg", ("O", 0))])]))]),
        ("M", [("l", ("S", "list", [("T", (1,)) for _ in range(13)])), ("t", ("S", "tuple", [("O", 0)] * 10 + [T1, ("O", 0), T1]))]),
        ("M", [("t", ("S", "tuple", [("S", "tuple", [T1, ("S", "list", [T1, ("S", "tuple", [T1])])]),
                                     ("S", "list", [("M", [("w", T1)]), ("D", [(0, T1), ("0", T1)])])]))]),
        ("M", [("d", ("D", [(0, T1), ("0", T1), (1, ("D", [("1", T1), (1, T1)])), ("", T1), ("a.b", T1), ("a", ("D", [("b", T1)]))]))]),
        ("M", [("a", ("A", 0, (2,))), ("b", ("A", 0, (2,))), ("c", ("S", "tuple", [("A", 0, (2,)), ("A", 1, (3,))])), ("d", ("D", [("k", ("A", 1, (3,)))]))]),
        ("M", [("s0", ("T", ())), ("m22", ("T", (2, 2))), ("m31", ("T", (3, 1))), ("e", ("T", (0,))), ("v", ("T", (3,))),
               ("tp", ("S", "tuple", [("T", (2, 2)), ("T", ())]))]),
        ("M", [("s0", ("T", ())), ("m22", ("T", (2, 2))), ("m13", ("T", (1, 3))), ("e", ("T", (0,))), ("v", ("T", (3,))),
               ("l", ("S", "list", [("T", (2, 2)), ("T", ()), ("T", (0,))]))]),
        ("M", [("factor_matrices", ("S", "tuple", [("T", (2, 2)), ("T", (2, 2))])), ("inv_factor_matrices", ("S", "tuple", [("T", (2, 2)), ("T", (2, 2))])),
               ("factor_matrix_indices", ("S", "tuple", [("O", 1), ("O", 1)])), ("is_factor_matrices_diagonal", ("S", "tuple", [("T", ()), ("T", ())]))]),
        ("M", [("factor_matrices", ("S", "tuple", [])), ("inv_factor_matrices", ("S", "tuple", [])), ("factor_matrix_indices", ("S", "tuple", []))]),
        ("M", [("top", deep)]),
    ]


def crafted_pstates():
    T1 = ("T", (2,))
    hollow = ("M", [("factor_matrices", ("S", "tuple", [])), ("inv_factor_matrices", ("S", "tuple", []))])
    return [
        ("D", [("block_0", ("D", [("shampoo", hollow)])), ("step", T1)]),
        ("D", [("block_0", ("D", [("shampoo", hollow), ("momentum", T1)])), ("block_1", ("D", [("shampoo", hollow)]))]),
        ("D", [("a", ("D", [])), ("b", ("M", [])), ("c", ("D", [("d", ("D", [("e", hollow)]))]))]),
        ("D", [("outer", ("D", [("mid", ("D", [("inner", ("D", [("m", hollow), ("n", ("M", [("cfg", ("O", 0))]))]))]))])), ("w", T1)]),
        ("D", [("step", ("O", 0)), ("name", ("O", 1)), ("w", T1), ("blk", ("D", [("lr", ("O", 2)), ("m", T1), ("flag", ("O", 4)), ("none", ("O", 3))]))]),
        ("D", [(0, T1), ("0", T1), ("", ("D", [("", T1)])), ("a.b", T1), ("a", ("D", [("b", T1)])), (1, ("D", [(1, hollow), ("1", T1)]))]),
        ("D", [("blk", ("D", [("shampoo", ("M", [("factor_matrices", ("S", "tuple", [("T", (2, 2)), ("T", (2, 2))])), ("idx", ("S", "tuple", [("O", 1), ("O", 1)]))])),
                              ("grafting", ("M", [("state", ("T", (2, 2)))])), ("step", ("T", ()))]))]),
        ("D", []),
    ]


def run(ck: Check) -> None:
    import logging
    common.assert_repo_imports()
    logging.disable(logging.WARNING)     # the implementation logs every skipped key
    ck.coq_props()
    gen_targets.run(ck)          # translator tie: Gallina regenerated from the source + coq/gen/EquivC16.v
    thorough = ck.tier == "thorough"
    rng = ck.rng
    jc = JsonContract()
    stats: dict = {}
    cases: list[Case] = []

    n_trees = 6000 if thorough else 320
    n_unflat = 600 if thorough else 60
    n_mod = 500 if thorough else 55
    n_ps = 400 if thorough else 45

    trees = crafted_trees()
    n_crafted = len(trees)
    while len(trees) < n_trees:
        trees.append(gen_tree(rng, 1, rng.choice([1, 2, 3, 4, 5, 6, 6]), stats))
    for ti, sp in enumerate(trees):
        cases.append(flat_case(ck, len(cases), sp, jc, stats, permute=ti < n_crafted or rng.random() < 0.15))
    made = 0
    while made < n_unflat:
        c = unflat_case(ck, len(cases), rng)
        if all(json_only_valueerror(k) for k, _ in c.replay["flat"]):
            cases.append(c)
            made += 1
    for sk in crafted_skels():
        cases += module_cases(ck, len(cases), rng, jc, stats, maxdepth=0, sk=sk)
    for _ in range(n_mod):
        cases += module_cases(ck, len(cases), rng, jc, stats, maxdepth=rng.choice([2, 3, 4, 5]))
    for sk in crafted_pstates():
        cases += restore_cases(ck, len(cases), rng, jc, stats, sk=sk)
    for _ in range(n_ps):
        cases += restore_cases(ck, len(cases), rng, jc, stats)

    # ---- evaluate inside coqc
    per_file = max(20, min(400, (len(cases) + 15) // 16))
    sources = {}
    chunks = list(common.chunks(cases, per_file))
    for fi, chunk in enumerate(chunks):
        lines = [HEADER]
        for c in chunk:
            lines += c.defs
        lines.append("Definition agree_results : list bool := [\n" + ";\n".join(c.agree for c in chunk) + "].")
        lines.append("Definition check_results : list bool := [\n" + ";\n".join(c.check for c in chunk) + "].")
        lines.append("Eval vm_compute in show_bools agree_results.\nEval vm_compute in show_bools check_results.\n")
        sources[f"c16_{fi:04d}"] = "\n".join(lines)
    out = ck.eval_coq(sources)
    agree = "".join(out[f"c16_{fi:04d}"][0] for fi in range(len(chunks)))
    check = "".join(out[f"c16_{fi:04d}"][1] for fi in range(len(chunks)))
    assert len(agree) == len(cases) == len(check), (len(agree), len(check), len(cases))

    # ---- oracle contract
    if jc.bad:
        ck.report(None, f"JSON oracle contract violated on {len(jc.bad)} generated key paths, first: {jc.bad[0]}",
                  {"kind": "oracle-contract", "bad": jc.bad[:5], "theorems_not_transferring": ["C16_flatten_injective", "C16_unflatten_flatten"]},
                  no_failing_input=True)

    # ---- verdicts
    failing = [c for c, b in zip(cases, check) if b != "T"]
    disagree = [c for c, a in zip(cases, agree) if a != "T"]
    seen_sig = set()
    for c in sorted(failing, key=lambda c: len(json.dumps(c.replay)))[:40]:
        sig = c.sig_hint
        key = sig or c.stream
        if key in seen_sig:
            continue
        seen_sig.add(key)
        ck.report(sig, f"C16 fails on the implementation ({c.stream}): {c.desc}; C16_checkb = false on its output" + (f" [{c.replay.get('raised')}]" if c.replay.get("raised") else ""),
                  {"kind": "property-fails", **c.replay, "n_failing": len(failing), "predicate": "C16_checkb (flat keys pairwise distinct, one per leaf path; unflatten = prune; tensors complete; load in place)"})
    if disagree and not failing:
        by_stream = {}
        for c in disagree:
            by_stream.setdefault(c.stream, []).append(c)
        for st, cs in by_stream.items():
            c = min(cs, key=lambda c: len(json.dumps(c.replay)))
            ck.report(None, f"model/implementation correspondence broken in stream {st} ({len(cs)} cases; smallest: {c.desc}) while every implementation output the property speaks about still passes C16_checkb",
                      {"kind": "correspondence", **c.replay, "broken": "StateDict.agree_* (model vs implementation)",
                       "theorems_not_transferring": ["C16_unflatten_flatten", "C16_module_state_dict_complete", "C16_module_load_in_place", "C16_restore_roundtrip"]},
                      no_failing_input=True)

    # ---- incoming tensors that alias the module's own storage with other strides (implementation against the clause directly)
    n_alias = 0
    for var in ALIAS_VARIANTS:
        for nested in (False, True):
            for store in (False, True):
                n_alias += 1
                try:
                    same_obj, same_val, got, want = alias_load_case(var, nested, store)
                except Exception as ex:  # noqa
                    same_obj, same_val, got, want = False, False, repr(ex), None
                if not (same_obj and same_val):
                    ck.report(None, f"load_state_dict does not reproduce the incoming tensor value in place when it is a differently strided view of the module's own buffer "
                                    f"({var[0]}, nested={nested}, store_non_tensors={store}): module tensor {got}, incoming held {want}, same object: {same_obj}",
                              {"stream": "alias-load", "variant": var[0], "nested": nested, "store_non_tensors": store, "got": got, "want": want, "same_object": same_obj})

    # ---- evidence
    per_stream = {}
    for c in cases:
        per_stream[c.stream] = per_stream.get(c.stream, 0) + 1
    depth_hist, leafless_hist = {}, {}
    for sp in trees:
        depth_hist[tree_depth(sp)] = depth_hist.get(tree_depth(sp), 0) + 1
        k = min(tree_leafless_subdicts(sp), 3)
        leafless_hist[k] = leafless_hist.get(k, 0) + 1
    samples = []
    for st in ("flat", "load", "restore"):
        cs = [c for c in cases if c.stream == st and c.nontrivial]
        if cs:
            c = cs[len(cs) // 2]
            samples.append({"stream": st, "desc": c.desc, "input": c.replay})
    ck.coverage.update({
        "evaluations": len(cases),
        "distinct_nontrivial": len({json.dumps(c.replay, sort_keys=True, default=str) for c in cases if c.nontrivial}),
        "rule": "one evaluation = one run of the implementation (flatten+unflatten / unflatten / state_dict+flatten+unflatten / state_dict+load_state_dict / "
                "extract+flatten+unflatten+update_param_state_dict_object) compared exactly with the model inside coqc; non-trivial = distinct input with nesting "
                "depth >= 2 and >= 2 flat keys (flat), or >= 2 tensors (module/restore streams)",
        "exhaustive": False,
        "samples": samples,
        "distribution": {
            "cases_per_stream": per_stream,
            "tree_depth": {str(k): v for k, v in sorted(depth_hist.items())},
            "leafless_subdicts_per_tree(3=3+)": {str(k): v for k, v in sorted(leafless_hist.items())},
            "flat_keys_total": stats.get("flat_keys", 0),
            "collision_families": stats.get("collision_families", 0),
            "load_variants": stats.get("load_variants", {}),
            "load_outcomes": stats.get("load_outcomes", {}),
            "restore_outcomes": stats.get("restore_outcomes", {}),
            "restore_with_leafless_entries": stats.get("restore_with_leafless_entries", 0),
        },
        "json_contract_paths_checked": jc.n,
        "json_contract_distinct_encodings": len(jc.seen),
        "json_contract_violations": len(jc.bad),
        "disagreements": len(disagree),
        "checker_failures": len(failing),
        # measured: number of generated cases (flat: inputs; module/restore: evaluations derived from such a skeleton) per input class
        "quantifier_audit": dict(sorted(stats.get("audit", {}).items())),
        "alias_load_cases": n_alias,
        "alias_load_rule": "incoming tensor = differently strided view (step, expand, shifted, transposed) of the module tensor's own buffer, top-level and nested, both store_non_tensors: decided on the implementation against the clause 'reproduces every tensor value in place' (the heap model has no strides)",
        "not_exercised": {
            "bool / float / None dict keys": "outside the property's domain ('string or integer keys'); json would also turn them into other types",
            "str keys with lone surrogates": "cannot be written into a UTF-8 case file; json.dumps escapes them like any non-ASCII character (exercised: BMP and astral characters)",
            "set members of an object graph": "not named by the quantifier (tensors, dicts, tuples, lists, nested modules); iteration order of a set of tensors is id()-dependent, so no reproducible expected value exists",
            "containers shared between two places of a graph, cyclic graphs": "the object-graph model is a tree of containers (only tensors may be shared, and are); a cycle makes state_dict recurse forever",
            "aliased tensors whose counterparts are NOT aliased the same way": "'reproduces every tensor value' is unsatisfiable there (one object, two source values); only equal aliasing patterns are generated",
            "tuple/list values directly inside a parameter state handed to update_param_state_dict_object": "restored by deepcopy of whatever was saved (replaces tensor objects by construction); the model declines (Unmodelled); the optimizer never stores them",
            "size-mismatched tensors of rank != 1": "the malformed stream uses the 1-D broadcasting rule only; the property speaks about structurally equal modules",
            "keep_vars=True / destination= arguments of state_dict": "not part of the property; destination is documented as internal",
            "dicts nested deeper than 10 / thousands of keys": "no size-dependent code path exists in flatten/unflatten (pure recursion); depth 10 and a 60-key level are exercised",
        },
    })
    ck.assumptions += [
        "oracle contract (Section hypothesis of the theorems): json.loads(json.dumps(p)) == p with element types and json.dumps injective on lists of str|int - "
        f"exercised on {jc.n} generated paths in this run",
        "torch: t.detach() aliases the storage of t; old.detach().copy_(new) writes new's values into old's storage (1-D float64, equal sizes or 1-element source)",
        "object graphs are trees of containers (no aliased containers, no cycles, no sets); tensors are distinct objects",
    ]
    ck.gen_equiv_verdict()


def replay(obj) -> bool:
    """Re-run the implementation on a recorded input and print what it does now."""
    import random
    common.assert_repo_imports()
    from distributed_shampoo.utils.shampoo_checkpoint_utils import (extract_state_dict_content, flatten, unflatten,
                                                                    update_param_state_dict_object)
    st = obj.get("stream")
    reg = Registry()
    if st == "flat":
        d, _ = build_tree(unjspec(obj["tree"]), reg)
        try:
            f = flatten(d)
            print("flatten keys:", list(f.keys()))
            print("recorded    :", obj.get("flat_keys"))
            print("unflatten   :", pytree_term(unflatten(f), reg))
        except Exception as ex:  # noqa
            print("raised", repr(ex))
        return True
    if st == "unflat":
        try:
            print("unflatten:", unflatten({k: other_value(*v) for k, v in obj["flat"]}))
        except Exception as ex:  # noqa
            print("raised", repr(ex), "recorded", obj.get("raised"))
        return True
    if st == "alias-load":
        var = next(v for v in ALIAS_VARIANTS if v[0] == obj["variant"])
        print("same object, same value, module tensor, incoming value:", alias_load_case(var, obj["nested"], obj["store_non_tensors"]), "recorded", obj.get("got"))
        return True
    M = make_module_class()
    if st == "sd":
        spec = unjspec(obj["obj"])
        inst = reinstantiate(spec, reg)
        m = build_obj(inst, reg, M)
        print(pytree_term(m.state_dict(store_non_tensors=obj["store_non_tensors"]), reg, by="storage"))
        return True
    if st in ("load", "restore"):
        s_old, s_new = reinstantiate(unjspec(obj["old"]), reg), reinstantiate(unjspec(obj["new"]), reg)
        a, b = build_obj(s_old, reg, M), build_obj(s_new, reg, M)
        try:
            if st == "load":
                sd = b.state_dict(store_non_tensors=obj["b_save"])
                if obj["variant"] == "roundtrip":
                    sd = unflatten(flatten(sd))
                elif obj["variant"] == "edited":
                    print("(the recorded edit was:", obj.get("edit"), "- re-running without it)")
                a.load_state_dict(sd, store_non_tensors=obj["b_load"])
            else:
                un = unflatten(flatten(extract_state_dict_content(b)))
                update_param_state_dict_object(a, un, obj["check"])
            print("ok:", observe_obj(a, reg), reg.heap())
        except Exception as ex:  # noqa
            print("raised", repr(ex), "recorded", obj.get("raised"))
        return True
    print("nothing to replay for", obj.get("kind"))
    return True


def reinstantiate(spec, reg):
    """Give a recorded spec fresh tensors (values 1..n) so that it can be rebuilt."""
    if spec[0] == "T":
        s, _ = reg.new([spec[1] % 7 + 1])
        return ("T", s)
    if spec[0] == "O":
        return spec
    if spec[0] == "S":
        return ("S", spec[1], [reinstantiate(e, reg) for e in spec[2]])
    return (spec[0], [(k, reinstantiate(e, reg)) for k, e in spec[1]])
