"""C03 - eigenvalue-corrected Shampoo (SOAP) is Adam run in a valid factor eigenbasis.

Three parts, all on /repo's current working tree:

 (a) VALUE TIE (decided inside coqc): SOAP-only configurations x histories are run on the implementation; for every step
     `coqc` applies ONE step of the Gallina model (Optimizer.block_step, SOAP branch - the subject of the theorems in
     coq/props/C03.v) to the state observed before the step and compares with the state observed after it: parameters,
     factor matrices, EIGENVECTORS, CORRECTED EIGENVALUES, diagonality flags, grafting/filter/momentum state at 1e-9, and
     the list of matrix_eigenvectors queries (factor, previous basis as estimate, flag).  This is c01.evaluate on SOAP cases.
 (b) MEASUREMENT (labelled as such, not a proof): for every refresh of those runs ||Q^T Q - I||_max, ||Q Q^T - I||_max and,
     when the answer comes from an eigendecomposition, the off-diagonal mass of Q^T L Q relative to ||L||, against fixed
     budgets; stored basis == recorded oracle answer (bit for bit); and "bases change only on schedule" directly on the
     implementation: eigenvector tensors bit-identical across every step that is not a scheduled refresh of a block with a
     gradient - decided by the certified checker C03_sched_checkb inside coqc.
 (c) DTYPE PAIRINGS (F2 territory): parameter dtype x preconditioner_dtype in {float32, float64, bfloat16}^2 x {eigh, QR}:
     6 steps with refreshes; per refresh call the dtypes that meet and the outcome, per step the dtypes of the stored state,
     compared inside coqc with the dtype-tag model of the refresh (SoapDefs.refresh_tags; theorems C03_qr_dtype_ok, ...),
     the platform's kernel availability being probed on torch directly; plus a loose numeric sanity bound against the
     float64/float64 run (measurement).
"""
from __future__ import annotations

import json
import logging
import math
import multiprocessing as mp
import re

from harness import c01, common, optrun
from harness.common import Check, coq_bool

META = {
    "property_id": "C03",
    "design_ref": "DESIGN.md §4 C03",
    "technique": "Coq proofs (induction over tensor order / mode lists, over the reals where arithmetic is involved) on the executable Gallina model of the SOAP step with matrix_eigenvectors as a contract-carrying oracle + per-step correspondence of that model with the implementation evaluated by vm_compute in binary64 (eigenvectors, corrected eigenvalues, queries) + certified schedule checker and dtype-tag model evaluated by coqc on all dtype pairings + labelled residual measurement of the LAPACK-backed bases",
    "level_text": "Theorems (coq/props/C03.v, proofs coq/theories/SoapProofs.v) about the SOAP branch of Optimizer.block_step: bases change only at a scheduled refresh and then equal the oracle's answers to (factor accumulated at that step, previous basis, diagonality flag) [soap_refresh_only_on_schedule, basis_is_oracle_of_refresh_factor]; under the eigh contract every stored basis is orthonormal and diagonalises that factor, also derived from C12's eigh_spec through the C12 model of matrix_eigenvectors; for the QR method the stored answer is the sorted orthogonal-iteration iterate of the previous basis with orthonormal columns (C12's theorems instantiated); the corrected eigenvalues are updated after the refresh, in the new basis [refresh_before_eigenvalue_update]; soap_step_is_adam_in_basis: accumulator = beta2 V + (1-beta2)(rot g)^2 (V + (rot g)^2 for beta2 = 1), direction = rot_back(rot ghat / (V/bc2 + eps)^(1/root)) then grafting/decay/momentum, original coordinates while no basis exists; cyclic_tensordot_is_mode_product: the permute/tensordot loop equals the product of the mode-k products for EVERY order, EVERY selector, both contraction flavours and every scalar type (so also bit-exact in binary64), ignored dimensions have no matrix (never rotated); rotate_back_inverse for EVERY order and every ignored-dims set (orthonormal rows; the converse composition with orthonormal columns); orders 1 and 2 in matrix form (Q^T x, L^T X R); history level: soap_inv_run - a well-formed SOAP state (shapes; no basis yet or all bases with orthonormal rows) stays well-formed along EVERY history and schedule when the routine returns orthonormal matrices of the input's size, hence soap_rotation_invertible_in_every_reachable_state; dtype-tag theorems qr_dtype_ok (under the Section variable qr_kernel_supported), refuted forms for the pre-0ab4e53 code (F2) and for factors without a QR kernel (F11, bfloat16). Nothing is left as _partial/_statement.",
    "level_note": "Trusted: Coq kernel + vm_compute; stdlib real-number axioms for theorems over R; the hand-written model is believed as far as the per-step tie (binary64 parameters and factors, tolerance 1e-9, oracle answers recorded) exercises it; other dtype pairings are tied at the level of dtype tags / control flow / exceptions only. PARTIAL by nature: that LAPACK's eigh/qr meet their contracts (orthonormal, diagonalising) and how far rounding moves a stored basis from orthonormal is MEASURED per refresh (coverage.measurement), not proved; the contract names orthonormal rows AND columns (for square real matrices the two are equivalent; that equivalence is not proved here, both residuals are measured). The QR clause is a theorem relative to C12's model of matrix_eigenvectors (tied to the code by C12's own check).",
    "ready": True,
}

SHAPES = [[3], [5], [6], [2, 3], [3, 4], [4, 1], [1, 4], [4, 4], [3, 3], [2, 3, 2], [3, 1, 2], [2, 2, 2], [2, 1, 3, 2], [2, 2, 2, 2],
          [1, 1], [1], [2, 2, 3], [7], [8, 3]]
# structured gradients (QUANTIFIER AUDIT): they make the factor matrices exactly zero / exactly diagonal with a non-ascending
# diagonal / rank one (+-a vectors, constant) / with a dead coordinate, leave whole blocks of a blocked parameter with a PRESENT
# but exactly zero gradient, or give the gradient a non-default memory layout
PATTERNS = ["zero", "single_entry", "diag", "pm_rank1", "const", "dead_row", "dead_last", "layout"]
IGNORED = [[], [], [], [], [0], [1], [2], [0, 2], [1, 3], [0, 1], [0, 1, 2, 3]]

# budgets for the MEASURED residuals (binary64): fixed after measuring seeds 0,1,2 of both tiers (largest values seen over
# ~75 000 refreshes, n <= 16: ||Q^T Q - I|| 3.8e-15, ||Q Q^T - I|| 2.7e-15, off-diagonal of Q^T L Q / ||L|| 7.6e-16), margin > 50x
BUDGET = {"orth_cols": 2e-13, "orth_rows": 2e-13, "offdiag_rel": 2e-13}
# loose numeric sanity bound (measurement) of the low-precision pairings against the float64/float64 run after 6 steps
# (largest values seen over 6 seeds: float32 anywhere 7.5e-7, bfloat16 factors 2.7e-3, bfloat16 parameters 2.2e-2)
# float16 (6 seeds): parameters 3.6e-3, factors 3.2e-5
SANITY_PARAM = {"f64": 1e-12, "f32": 2e-5, "bf16": 0.3, "f16": 0.05}
SANITY_FACTOR = {"f64": 1e-12, "f32": 2e-5, "bf16": 0.05, "f16": 1e-3}


def _torch():
    import torch
    return torch


# ---------------------------------------------------------------------------------------------- (a) generation

def soapify(rng, c):
    c["kind"] = "soap"
    c["amort"] = rng.choice(["eigh", "qr"])
    c.pop("expmult", None)
    c["qr_iters"] = rng.choice([0, 1, 1, 2, 3, 5, 20])                 # 0: the loop is never entered (sorted estimate is returned)
    c["qr_tol"] = rng.choice([1e-5, 0.0, 0.25, 1e-12, math.inf])       # inf: `error > tolerance` is false at once
    b1 = c["betas"][0]
    c["betas"] = (b1, rng.choice([1.0, 1.0, 0.75, 0.5, 0.96875, 0.984375]))
    c["ignored"] = rng.choice(IGNORED)
    # the constructor accepts a root override only without ignored dims, and start >= frequency (C17)
    c["override"] = 0 if c["ignored"] else rng.choice([0, 0, 1, 2, 3, [2, 1, 4, 3], [1, 2]])
    c["max_dim"] = rng.choice([2, 3, 1024, 1024, 1024])
    c["merge"] = rng.random() < 0.35
    f = rng.choice([1, 2, 3])
    c["freq"] = f
    c["start"] = rng.choice([-1, f, f, f + 1, f + 2]) if rng.random() < 0.95 else math.inf
    # conditioning guard of the 1e-9 tie: the direction is divided by (V/bc2 + eps)^(1/root), at most eps^(-1/root)
    ov = c["override"]
    roots = [r for r in (ov if isinstance(ov, list) else [ov]) if r != 0] + [2]
    c["eps"] = rng.choice([1e-2, 1e-3, 1e-4, 1e-8])
    if min(roots) == 1:
        c["eps"] = max(c["eps"], 1e-3)
    return c


def gen_case(rng, thorough=False):
    case = c01.gen_case(rng, thorough)
    soapify(rng, case["groups"][0]["cfg"])
    for g in case["groups"]:
        g["shapes"] = [rng.choice(SHAPES) for _ in range(len(g["shapes"]))]
        ov = g.get("overrides")
        if ov and "max_dim" in ov:
            ov["max_dim"] = rng.choice([2, 1024])
        if ov and "eps" in ov:
            ov["eps"] = max(ov["eps"], 1e-3)
    # gradient magnitude regimes (exact powers of two)
    case["gscale"] = rng.choice([1.0, 1.0, 1.0, 1.0, 1.0, 2.0 ** -17, 2.0 ** -8])
    # structured gradients on some / all steps
    for s in case["steps"]:
        s.pop("zero", None)
        s.pop("gpattern", None)
    if rng.random() < 0.35:
        kind = rng.choice(PATTERNS)
        n = len(case["steps"])
        mode = rng.choice(["all", "prefix", "one"])
        idx = range(n) if mode == "all" else (range(rng.randint(1, max(1, n - 2))) if mode == "prefix" else [rng.randrange(n)])
        for i in idx:
            case["steps"][i]["gpattern"] = kind
    return case


def make_case(rng, cfg, group_shapes, presence, overrides=None, **extra):
    """A targeted case: presence[s][gi][pi]."""
    groups = [{"cfg": cfg, "shapes": group_shapes[0]}] + [{"overrides": (overrides or {}), "shapes": sh} for sh in group_shapes[1:]]
    steps = [{"present": [list(r) for r in row], "gseed": rng.randrange(1 << 30), "edits": None} for row in presence]
    case = {"groups": groups, "init_seed": rng.randrange(1 << 30), "steps": steps, "presence_kinds": [], "gscale": 1.0}
    case.update(extra)
    return case


def targeted_cases(rng):
    """QUANTIFIER AUDIT: input classes the property names or plainly allows and a random draw seldom produces; every run."""
    out = []

    def cfg(**kw):
        c = soapify(rng, c01.gen_cfg(rng))
        c.update({"max_dim": 1024, "merge": False, "ignored": [], "override": 0, "eps": 1e-3})
        c.update(kw)
        return c

    for amort, f in (("eigh", 1), ("qr", 2), ("qr", 1), ("eigh", 2)):
        # two equal-shaped parameters whose gradients alternate: a refresh only computes the bases of the blocks with a gradient
        out.append(("alternating-twins", make_case(rng, cfg(amort=amort, freq=f, start=f), [[[3, 4], [3, 4]]], [[[s % 2 == 0, s % 2 == 1]] for s in range(8)])))
    for amort in ("eigh", "qr"):
        # twin groups with identical hyperparameters (no overrides), different presence: the groups' step counters and schedules diverge
        out.append(("twin-groups", make_case(rng, cfg(amort=amort, freq=2, start=2), [[[3, 4], [2, 3]], [[3, 4], [2, 3]]],
                                             [[[True, True], [s >= 3, s % 2 == 1]] for s in range(8)])))
        # a block that gets its first gradient after the other blocks already have a basis
        out.append(("late-block", make_case(rng, cfg(amort=amort, freq=1, start=rng.choice([1, 2])), [[[2, 3], [4], [2, 2, 2]]],
                                            [[[True, s >= 3, s >= 5]] for s in range(8)])))
        # exactly zero (present) gradients until after the first refresh: the refresh sees an exactly zero factor matrix
        c = make_case(rng, cfg(amort=amort, freq=2, start=2, betas=(0.5, 0.75)), [[[3, 3], [2, 3, 2]]], [[[True, True]] for s in range(7)])
        for s in range(3):
            c["steps"][s]["gpattern"] = "zero"
        out.append(("zero-until-refresh", c))
        # exactly diagonal factor with a NON-ascending diagonal (identity short cut, sticky flag), dense afterwards
        c = make_case(rng, cfg(amort=amort, freq=1, start=1), [[[3, 3], [4, 2]]], [[[True, True]] for s in range(6)])
        for s in range(2):
            c["steps"][s]["gpattern"] = "diag"
        out.append(("diag-then-dense", c))
        # tiny gradients: factor entries ~1e-10 (exact-zero tests vs tolerance tests)
        out.append(("tiny-gradients", make_case(rng, cfg(amort=amort, freq=1, start=1, betas=(0.0, 0.75)), [[[3, 4], [2, 3, 2]]], [[[True, True]] for s in range(5)],
                                                gscale=2.0 ** -17)))
    for (f, st) in ((2, 3), (3, 4), (3, 5)):
        # start step not a multiple of the frequency
        out.append(("start-not-multiple", make_case(rng, cfg(amort=rng.choice(["eigh", "qr"]), freq=f, start=st), [[[3, 4], [5]]], [[[True, True]] for s in range(10)])))
    for k in (2, 4, 6):
        # stop point (save, fresh optimizer, load) before the first refresh / between refreshes / right after one
        out.append(("resume", make_case(rng, cfg(amort=rng.choice(["eigh", "qr"]), freq=3, start=3, betas=(0.5, 0.75), biascorr=True), [[[3, 4], [2, 2, 2]]],
                                        [[[True, s != 4]] for s in range(8)], resume_at=k)))
    for kind, md in (("pm_rank1", 1024), ("const", 1024), ("single_entry", 2), ("dead_row", 2), ("dead_last", 1024), ("layout", 1024), ("layout", 3)):
        c = make_case(rng, cfg(amort=rng.choice(["eigh", "qr"]), freq=1, start=1, max_dim=md), [[[3, 4], [2, 3, 2], [6]]], [[[True, True, True]] for s in range(5)])
        for st_ in c["steps"]:
            st_["gpattern"] = kind
        out.append((f"pattern-{kind}", c))
    return out


# ---------------------------------------------------------------------------------------------- structured gradients, stop points

def apply_pattern(kind, g, scale):
    torch = _torch()
    if g.dim() == 0:
        return g * 0.0 if kind == "zero" else g
    if kind == "layout":                          # same values, non-default strides
        if g.dim() >= 2:
            rev = tuple(reversed(range(g.dim())))
            return g.permute(rev).contiguous().permute(rev)
        big = torch.zeros(2 * g.shape[0], dtype=g.dtype)
        big[::2] = g
        return big[::2]
    if kind == "dead_last":
        out = g.clone()
        out[..., -1] = 0.0
        return out
    d0 = g.shape[0]
    M = g.reshape(d0, -1)
    R = M.shape[1]
    out = torch.zeros_like(M)
    if kind == "zero":
        pass
    elif kind == "single_entry":
        out[d0 - 1, 0] = 1.5 * scale
    elif kind == "diag":
        k = min(d0, R)
        for i in range(k):
            out[i, i] = (k - i) * 0.5 * scale * (-1.0) ** i
    elif kind == "pm_rank1":
        u = torch.where(M[:, 0] < 0, -1.0, 1.0).to(M.dtype)
        v = torch.where(M[0, :] < 0, -1.0, 1.0).to(M.dtype)
        out = 0.5 * scale * torch.outer(u, v)
    elif kind == "const":
        out = out + 0.5 * scale
    elif kind == "dead_row":
        out = M.clone()
        out[0, :] = 0.0
    else:
        raise ValueError(kind)
    return out.reshape(g.shape)


_ORIG = {}


def _set_grads(case, params, step):
    _ORIG["set_grads"](case, params, step)
    kind = step.get("gpattern")
    if kind:
        for ps in params:
            for p in ps:
                if p.grad is not None:
                    p.grad = apply_pattern(kind, p.grad, case.get("gscale", 1.0))


def _run_case(case, opt=None, params=None, start_step=0, on_step=None):
    k = case.get("resume_at")
    if k is None or opt is not None:
        return _ORIG["run_case"](case, opt=opt, params=params, start_step=start_step, on_step=on_step)
    import copy
    torch = _torch()
    first = dict(case)
    first["steps"] = case["steps"][:k]
    first["resume_at"] = None
    recs1, opt1, params1 = _ORIG["run_case"](first)
    names = lambda ps: [(f"g{gi}.p{pi}", p) for gi, g in enumerate(ps) for pi, p in enumerate(g)]  # noqa
    sd = copy.deepcopy(opt1.distributed_state_dict(key_to_param=iter(names(params1))))
    params2 = [[torch.nn.Parameter(p.detach().clone()) for p in g] for g in params1]
    opt2 = optrun.build_optimizer(case, params2)
    opt2.load_distributed_state_dict(state_dict=sd, key_to_param=iter(names(params2)))
    recs2, opt2, params2 = _ORIG["run_case"](case, opt=opt2, params=params2, start_step=k)
    return recs1 + recs2, opt2, params2


class patched_optrun:
    """optrun.set_grads / optrun.run_case with the structured-gradient and stop-point extensions of this check (optrun.py itself
    is not edited; forked pool workers inherit the patched module)."""

    def __enter__(self):
        if not _ORIG:
            _ORIG["set_grads"], _ORIG["run_case"] = optrun.set_grads, optrun.run_case
        optrun.set_grads, optrun.run_case = _set_grads, _run_case
        return self

    def __exit__(self, *a):
        optrun.set_grads, optrun.run_case = _ORIG["set_grads"], _ORIG["run_case"]


# ---------------------------------------------------------------------------------------------- (b) measurement

def _mat(m):
    torch = _torch()
    return torch.tensor(m, dtype=torch.float64) if m else torch.zeros(0, 0, dtype=torch.float64)


def measure_worker(case):
    """Second, identical run of the case (deterministic): residuals of every refresh answer, stored-vs-answer identity and
    the (schedule, changed) tuples."""
    torch = _torch()
    logging.disable(logging.CRITICAL)
    try:
        recs, _, _ = optrun.run_case(case)
    except Exception as e:  # noqa
        return {"error": f"{type(e).__name__}: {e}"[:200]}
    out = {"refresh": [], "sched": [], "stored_ne_answer": [], "failed_calls": 0, "step_errors": 0, "mixed_basis_steps": 0}
    for si, row in enumerate(recs):
        for gi, r in enumerate(row):
            if r["error"]:
                out["step_errors"] += 1
                continue
            cfg = r["cfg"]
            start = cfg["start"]
            start = optrun.BIG_START if (isinstance(start, float) and math.isinf(start)) else int(start)
            t_after = r["after"]["t"]
            per_block, _ = optrun.split_calls(r)
            has = [any(any(x != 0.0 for x in row) for row in b["inv"][0]) for b in r["after"]["blocks"] if b["inv"]]
            if any(has) and not all(has):
                out["mixed_basis_steps"] += 1          # some block of the group has a basis, another one not yet
            for bi, (bb, ba, g, calls) in enumerate(zip(r["before"]["blocks"], r["after"]["blocks"], r["grads"], per_block)):
                if not bb["inv"]:
                    continue
                changed = bb["inv"] != ba["inv"]
                out["sched"].append({"freq": int(cfg["freq"]), "start": start, "t": t_after, "has_grad": g is not None,
                                     "changed": changed, "where": [si, gi, bi]})
                for k, c in enumerate(calls):
                    if c["ans"] is None:
                        out["failed_calls"] += 1
                        continue
                    if ba["inv"][k] != c["ans"]:
                        out["stored_ne_answer"].append([si, gi, bi, k])
                    Q, A, E = _mat(c["ans"]), _mat(c["A"]), _mat(c["est"])
                    n = Q.shape[0]
                    eye = torch.eye(n, dtype=torch.float64)
                    eig_path = cfg["amort"] == "eigh" or not bool(E.any()) or c["isdiag"] or n == 1
                    dg = torch.diagonal(A).tolist() if n else []
                    m = {"n": n, "method": cfg["amort"], "eig_path": bool(eig_path), "isdiag": bool(c["isdiag"]),
                         "zero_factor": bool(n and not A.any()), "nonascending_diag": bool(c["isdiag"] and n > 1 and any(a > b for a, b in zip(dg, dg[1:]))),
                         "nonzero_estimate": bool(E.any()),
                         "rank": int(torch.linalg.matrix_rank(A).item()) if n else 0,
                         "orth_cols": float((Q.T @ Q - eye).abs().max().item()) if n else 0.0,
                         "orth_rows": float((Q @ Q.T - eye).abs().max().item()) if n else 0.0,
                         "where": [si, gi, bi, k]}
                    if eig_path and n:
                        D = Q.T @ A @ Q
                        off = (D - torch.diag(torch.diagonal(D))).abs().max().item()
                        nrm = float(torch.linalg.norm(A).item())
                        m["offdiag_rel"] = float(off / nrm) if nrm > 0 else 0.0
                    out["refresh"].append(m)
    return out


def sched_file(tuples):
    body = ["From Coq Require Import ZArith List Bool String.", "From Shampoo Require Import Show Eigenvectors SoapDefs.",
            "Import ListNotations.", "Open Scope Z_scope."]
    for i, ch in enumerate(common.chunks(tuples, 400)):
        terms = ";".join(f"C03_sched_checkb {optrun.cZ(s['freq'])} {optrun.cZ(s['start'])} {optrun.cZ(s['t'])} {coq_bool(s['has_grad'])} {coq_bool(s['changed'])}"
                         for s in ch)
        body.append(f"Eval vm_compute in show_bools [{terms}].")
    return "\n".join(body) + "\n"


# ---------------------------------------------------------------------------------------------- (c) dtype pairings

DT = ["f32", "f64", "bf16"]
COQDT = {"f32": "F32", "f64": "F64", "bf16": "BF16", "f16": "F16"}


def tdtype(tag):
    torch = _torch()
    return {"f64": torch.float64, "f32": torch.float32, "bf16": torch.bfloat16, "f16": torch.float16}[tag]


def tag_of(dtype) -> str:
    torch = _torch()
    return {torch.float64: "f64", torch.float32: "f32", torch.bfloat16: "bf16", torch.float16: "f16"}.get(dtype, "other")


def probe_kernels():
    """Platform facts, probed on torch directly (independent of /repo): is there an eigh / qr kernel for the dtype?"""
    torch = _torch()
    res = {"eigh": {}, "qr": {}}
    for tag in DT + ["f16"]:
        a = torch.eye(2, dtype=tdtype(tag))
        for name, fn in (("eigh", torch.linalg.eigh), ("qr", torch.linalg.qr)):
            try:
                fn(a)
                res[name][tag] = True
            except Exception:  # noqa
                res[name][tag] = False
    return res


def classify_exc(e) -> str:
    msg = str(e)
    if isinstance(e, RuntimeError) and re.search(r"same dtype|dtype|expected scalar type", msg) and "not implemented" not in msg:
        return "dtype-mismatch"
    if "not implemented for" in msg:
        return "no-kernel"
    return "other"


def dtype_worker(job):
    """One pairing: SOAP on the job's parameters, 6 steps, refreshes on the schedule (freq, start).  Variant "rich": orders 1 and 4,
    an ignored dimension, Adam grafting, momentum, beta2 = 1, small gradients, one step with present but exactly zero gradients."""
    torch = _torch()
    logging.disable(logging.CRITICAL)
    import distributed_shampoo.utils.shampoo_preconditioner_list as pl
    from distributed_shampoo.distributed_shampoo import DistributedShampoo
    from distributed_shampoo.shampoo_types import AdamGraftingConfig, EigenvalueCorrectedShampooPreconditionerConfig
    from distributed_shampoo.utils.shampoo_preconditioner_list import SHAMPOO
    from matrix_functions_types import EighEigenvectorConfig, QRConfig
    pdt, fdt, method = job["pdt"], job["fdt"], job["method"]
    gen = torch.Generator().manual_seed(job["seed"])
    params = [torch.nn.Parameter(optrun.dyadic(gen, sh).to(tdtype(pdt))) for sh in job["shapes"]]
    res = {"job": job, "ctor_error": None, "steps": [], "calls": [], "final": None}
    try:
        opt = DistributedShampoo(
            params, lr=0.0078125, betas=(0.5, job.get("beta2", 0.75)), epsilon=1e-3, precondition_frequency=job["freq"], start_preconditioning_step=job["start"],
            preconditioner_dtype=tdtype(fdt), use_merge_dims=False, momentum=job.get("momentum", 0.0),
            grafting_config=AdamGraftingConfig(beta2=0.75, epsilon=1e-3) if job.get("graft") == "adam" else None,
            preconditioner_config=EigenvalueCorrectedShampooPreconditionerConfig(
                ignored_dims=list(job.get("ignored", [])),
                amortized_computation_config=QRConfig(max_iterations=job.get("qr_iters", 1)) if method == "qr" else EighEigenvectorConfig()))
    except Exception as e:  # noqa
        res["ctor_error"] = f"{type(e).__name__}: {e}"[:200]
        return res
    orig = pl.matrix_eigenvectors
    cur = {"step": 0}

    def vec(A, eigenvectors_estimate=None, eigenvector_computation_config=None, is_diagonal=False, **kw):
        rec = {"step": cur["step"], "A": tag_of(A.dtype), "est": tag_of(eigenvectors_estimate.dtype) if eigenvectors_estimate is not None else None,
               "est_nonzero": bool(eigenvectors_estimate.any()) if eigenvectors_estimate is not None else False,
               "n": int(A.shape[0]) if A.dim() else 1, "isdiag": bool(is_diagonal), "out": None, "exc": None, "exc_class": None, "msg": None}
        res["calls"].append(rec)
        try:
            r = orig(A=A, eigenvectors_estimate=eigenvectors_estimate, eigenvector_computation_config=eigenvector_computation_config,
                     is_diagonal=is_diagonal, **kw)
        except Exception as e:  # noqa
            rec["exc"], rec["exc_class"], rec["msg"] = classify_exc(e), type(e).__name__, str(e)[:160]
            raise
        rec["out"] = tag_of(r.dtype)
        return r

    pl.matrix_eigenvectors = vec
    try:
        for t in range(1, job["nsteps"] + 1):
            cur["step"] = t
            for p in params:
                g = optrun.dyadic(gen, p.shape) * job.get("gscale", 1.0)
                if t in job.get("zero_steps", []):
                    g = g * 0.0
                p.grad = g.to(p.dtype)
            outcome = "ok"
            try:
                opt.step()
            except Exception as e:  # noqa
                outcome = type(e).__name__
            eig, fac, cor = [], [], []
            for p in params:
                for k, v in opt.state[p].items():
                    if isinstance(v, dict) and SHAMPOO in v:
                        kf = v[SHAMPOO]
                        eig += [tag_of(x.dtype) for x in kf.factor_matrices_eigenvectors]
                        fac += [tag_of(x.dtype) for x in kf.factor_matrices]
                        cor.append(tag_of(kf.corrected_eigenvalues.dtype))
            res["steps"].append({"t": t, "outcome": outcome, "eig": eig, "fac": fac, "cor": cor})
            if outcome != "ok":
                break
    finally:
        pl.matrix_eigenvectors = orig
    res["final"] = [p.detach().to(torch.float64).reshape(-1).tolist() for p in params]
    res["finite"] = all(bool(torch.isfinite(p).all()) for p in params)
    return res


RICH = {"variant": "rich", "shapes": [[2], [2, 2, 2, 2]], "ignored": [1], "graft": "adam", "momentum": 0.5, "beta2": 1.0, "gscale": 2.0 ** -6, "zero_steps": [3]}


def dtype_jobs(seed_base):
    """batch -> jobs.  Batch "bf16": {f32,f64,bf16}^2 x {eigh,QR} x two schedules (+ the rich variant); batch "f16": float16 as
    parameter dtype with every factor dtype, float16 factors with the eigh method (QR on float16 factors: see not_exercised)."""
    def job(method, pdt, fdt, freq, start, **kw):
        j = {"method": method, "pdt": pdt, "fdt": fdt, "freq": freq, "start": start, "nsteps": 6, "variant": "plain",
             "shapes": [[3, 4], [2, 3, 2]], "seed": seed_base, "qr_iters": 1 if freq == 1 else 3}
        j.update(kw)
        return j
    b, f = [], []
    for method in ("eigh", "qr"):
        for pdt in DT:
            for fdt in DT:
                for (freq, start) in ((1, 1), (2, 2)):
                    b.append(job(method, pdt, fdt, freq, start))
                b.append(job(method, pdt, fdt, 1, 1, **RICH))
        for pdt, fdt in (("f16", "f32"), ("f16", "f64"), ("f16", "f16"), ("f32", "f16"), ("f64", "f16")):
            if method == "qr" and fdt == "f16":
                continue
            for (freq, start) in ((1, 1), (2, 2)):
                f.append(job(method, pdt, fdt, freq, start))
        f.append(job(method, "f16", "f32", 1, 1, **RICH))
    return {"bf16": b, "f16": f}


def coq_dt(tag):
    return COQDT.get(tag, "F32")


def dtype_file(results, kernels):
    def kfun(name):
        k = kernels[name]
        return f"(fun d => match d with F32 => {coq_bool(k['f32'])} | F64 => {coq_bool(k['f64'])} | BF16 => {coq_bool(k['bf16'])} | F16 => {coq_bool(k['f16'])} end)"
    body = ["From Coq Require Import ZArith List Bool String.", "From Shampoo Require Import Show Eigenvectors SoapDefs.",
            "Import ListNotations.", f"Definition eigh_k : dtype -> bool := {kfun('eigh')}.", f"Definition qr_k : dtype -> bool := {kfun('qr')}."]
    index = []
    for ri, r in enumerate(results):
        if r["ctor_error"]:
            continue
        j = r["job"]
        m = "MQR" if j["method"] == "qr" else "MEigh"
        terms = []
        for c in r["calls"]:
            if c["n"] == 1 or c["isdiag"]:
                continue          # fast paths (ones / identity): no dtype meets another
            if c["exc"] is None:
                obs = f"(RComputed {coq_dt(c['out'])})"
            elif c["exc"] == "dtype-mismatch":
                obs = "RDtypeMismatch"
            elif c["exc"] == "no-kernel":
                obs = "RNoKernel"
            else:
                continue          # unclassified exception: reported directly by the caller
            terms.append(f"dtype_call_ok eigh_k qr_k {m} {coq_dt(j['pdt'])} {coq_dt(j['fdt'])} (mkObsCall {coq_dt(c['A'])} {coq_dt(c['est'] or 'f32')} {coq_bool(c['est_nonzero'])} {obs})")
        for s in r["steps"]:
            eig = "[" + ";".join(coq_dt(x) for x in s["eig"]) + "]"
            fac = "[" + ";".join(coq_dt(x) for x in s["fac"]) + "]"
            uniform = bool(s["cor"]) and all(x == s["cor"][0] for x in s["cor"]) and s["cor"][0] in COQDT
            cor = coq_dt(s["cor"][0]) if uniform else ("F64" if j["pdt"] != "f64" else "F32")     # not uniform / unknown: a tag that differs
            terms.append(f"dtype_state_ok {coq_dt(j['pdt'])} {coq_dt(j['fdt'])} {eig} {fac} {cor}")
        body.append(f"Eval vm_compute in show_bools (List.concat [{'; '.join(terms)}]).")
        index.append(ri)
    return "\n".join(body) + "\n", index


def pairing_signature(job, calls) -> str | None:
    """Stable signature of the known / repaired findings, computed from the input (pairing) and the class of the oracle failure."""
    if job["method"] == "qr" and job["pdt"] != job["fdt"] and any(c["exc"] == "dtype-mismatch" for c in calls):
        return "C03:qr-dtype-mismatch"
    if job["method"] == "qr" and job["fdt"] == "bf16" and any(c["exc"] == "no-kernel" for c in calls):
        return "C03:qr-bf16-factor-no-lapack-kernel"
    return None


# ---------------------------------------------------------------------------------------------- run

def classify(case) -> str | None:
    return None


def run(ck: Check) -> None:
    with patched_optrun():
        _run(ck)


def _run(ck: Check) -> None:
    ck.coq_props(extra_targets=["exec/RunOpt.vo"])
    common.assert_repo_imports()
    thorough = ck.tier == "thorough"
    ncases = 2500 if thorough else 160

    # ---------------- (a) value tie
    cases = []
    corpus = common.ROOT / "corpus" / "C03"
    if corpus.exists():
        for f in sorted(corpus.glob("*.json")):
            cases.append(json.loads(f.read_text())["case"])
    ncorpus = len(cases)
    cases += [gen_case(ck.rng, thorough) for _ in range(ncases)]
    tcases = targeted_cases(ck.rng)
    ttag = {len(cases) + i: t for i, (t, _) in enumerate(tcases)}
    cases += [c for _, c in tcases]
    results, per_case = c01.evaluate(ck, cases, tag="c03")

    nsteps = nontrivial = ctor_err = 0
    hist = {"method": {}, "graft": {}, "orders": {}, "beta2": {}, "override": {}, "ignored": {}, "qr_iters": {}, "qr_tol": {}, "presence": {},
            "groups": {}, "refresh_steps": 0, "plain_steps_at_or_after_start": 0, "failed_oracle_calls": 0, "steps_with_step_error": 0,
            "momentum_nonzero": 0, "weight_decay_nonzero": 0}
    failures = []
    step_errors = []

    def bump(d, k):
        d[str(k)] = d.get(str(k), 0) + 1

    for ci, (case, res, pc) in enumerate(zip(cases, results, per_case)):
        if "error" in res:
            ctor_err += 1
            continue
        c0 = case["groups"][0]["cfg"]
        bump(hist["method"], c0["amort"]); bump(hist["graft"], c0["graft"]); bump(hist["beta2"], c0["betas"][1])
        bump(hist["override"], c0["override"]); bump(hist["ignored"], c0["ignored"]); bump(hist["groups"], len(case["groups"]))
        if c0["amort"] == "qr":
            bump(hist["qr_iters"], c0["qr_iters"]); bump(hist["qr_tol"], c0["qr_tol"])
        hist["momentum_nonzero"] += c0["momentum"] != 0.0
        hist["weight_decay_nonzero"] += c0["wd"] != 0.0
        for g in case["groups"]:
            for sh in g["shapes"]:
                bump(hist["orders"], len(sh))
        for ks in case.get("presence_kinds", []):
            for k in ks:
                bump(hist["presence"], k)
        refreshes = 0
        has_plain = False
        for row in res["rows"]:
            if row["error"]:
                hist["steps_with_step_error"] += 1
                step_errors.append((ci, row))
        for row, v in pc:
            nsteps += 1
            hist["failed_oracle_calls"] += row["failed_calls"]
            if row["ncalls"] > 0:
                refreshes += 1
                hist["refresh_steps"] += 1
            elif row["t_after"] >= (row["start"] if not (isinstance(row["start"], float) and math.isinf(row["start"])) else 10 ** 15):
                has_plain = True
                hist["plain_steps_at_or_after_start"] += 1
            if "F" in v:
                failures.append((ci, row, v))
        if refreshes >= 2 and has_plain:
            nontrivial += 1

    if failures:
        seen = set()
        for ci, row, v in failures:
            key = tuple(c01.describe(v))
            if key in seen or len(seen) >= 3:
                continue
            seen.add(key)
            small, f = c01.shrink(ck, cases[ci], row["step"], row["group"])
            comp = c01.describe(f[2]) if f else list(key)
            ck.report(classify(small), f"SOAP step {f[0] if f else row['step']} of group {f[1] if f else row['group']} is not the model's step "
                                       f"(Adam in the stored eigenbasis): disagreement in {comp}",
                      {"kind": "property-fails", "case": small, "failing_step": f[0] if f else row["step"], "group": f[1] if f else row["group"],
                       "components": comp, "original_case_index": ci, "n_failing_steps": len(failures),
                       "predicate": "RunOpt.step_ok (one Optimizer.group_step, SOAP branch, from the observed state, tol 1e-9)"})

    # a step of a SOAP run that raises although no matrix routine failed is not "Adam in the stored basis" either
    for ci, row in step_errors[:3]:
        if row["failed_calls"] == 0:
            ck.report(None, f"SOAP step {row['step']} of group {row['group']} raised without any failed eigenvector computation: {row['error'][:160]}",
                      {"kind": "property-fails", "case": cases[ci], "failing_step": row["step"], "group": row["group"], "error": row["error"],
                       "predicate": "the step completes (no matrix routine failed)"})

    # ---------------- (b) measurement + schedule checker
    with mp.get_context("fork").Pool(16) as pool:
        meas = pool.map(measure_worker, cases, chunksize=2)
    sched, refresh = [], []
    stored_ne, failed_calls = [], 0
    for ci, m in enumerate(meas):
        if "error" in m:
            continue
        for s in m["sched"]:
            s["case"] = ci
        for r in m["refresh"]:
            r["case"] = ci
        sched += m["sched"]
        refresh += m["refresh"]
        stored_ne += [(ci, w) for w in m["stored_ne_answer"]]
        failed_calls += m["failed_calls"]
    sched_verdicts = []
    if sched:
        out = ck.eval_coq({"c03_sched": sched_file(sched)})
        sched_verdicts = list("".join(out["c03_sched"]))
        assert len(sched_verdicts) == len(sched), (len(sched_verdicts), len(sched))
    bad_sched = [s for s, v in zip(sched, sched_verdicts) if v != "T"]
    if bad_sched:
        s = bad_sched[0]
        ck.report(None, f"stored eigenvectors changed outside the preconditioning schedule (or without a gradient): step count {s['t']}, "
                        f"frequency {s['freq']}, start {s['start']}, gradient present {s['has_grad']} ({len(bad_sched)} block-steps)",
                  {"kind": "property-fails", "case": cases[s["case"]], "where_step_group_block": s["where"],
                   "predicate": "SoapDefs.C03_sched_checkb (sound by C03_sched_checkb_sound)"})
    if stored_ne:
        ci, w = stored_ne[0]
        ck.report(None, f"stored eigenvectors differ from the answer of the matrix_eigenvectors call of that refresh (step, group, block, factor) = {w} "
                        f"({len(stored_ne)} factors)", {"kind": "property-fails", "case": cases[ci], "where": w,
                                                        "predicate": "stored basis == recorded oracle answer (bit for bit, binary64)"})
    table = {}
    over = []
    for r in refresh:
        for q in ("orth_cols", "orth_rows", "offdiag_rel"):
            if q not in r:
                continue
            key = f"{'eigendecomposition' if r['eig_path'] else 'qr-iteration'}/{q}"
            table[key] = max(table.get(key, 0.0), r[q])
            if not (r[q] <= BUDGET[q]):
                over.append((q, r))
    for q, r in over[:3]:
        ck.report(f"C03:measured:{q}", f"MEASURED residual {q} = {r[q]:.3g} of a stored basis (n={r['n']}, method {r['method']}, rank {r['rank']}) exceeds the budget {BUDGET[q]}",
                  {"kind": "measured-residual", "quantity": q, "value": r[q], "case": cases[r["case"]], "where": r["where"]})

    # ---------------- (c) dtype pairings
    kernels = probe_kernels()
    batches = dtype_jobs(ck.rng.randrange(1 << 30))
    jobs = [j for b in ("bf16", "f16") for j in batches[b]]
    with mp.get_context("fork").Pool(16) as pool:
        dres = pool.map(dtype_worker, jobs, chunksize=1)
    src, index = dtype_file(dres, kernels)
    dverd = ck.eval_coq({"c03_dtype": src})["c03_dtype"]
    assert len(dverd) == len(index)
    verdict_of = dict(zip(index, dverd))
    ref = {}
    for r in dres:
        j = r["job"]
        if j["pdt"] == "f64" and j["fdt"] == "f64" and r["final"] is not None:
            ref[(j["method"], j["freq"], j["variant"])] = r["final"]
    pair_table = []
    dtype_evals = 0
    for ri, r in enumerate(dres):
        j = r["job"]
        row = {"method": j["method"], "param": j["pdt"], "precond": j["fdt"], "schedule": [j["freq"], j["start"]], "variant": j["variant"], "ctor_error": r["ctor_error"]}
        if r["ctor_error"]:
            row["verdict"] = "not accepted by the constructor"
            pair_table.append(row)
            ck.report(None, f"constructor rejected the dtype pairing {j['pdt']} x {j['fdt']} ({j['method']}): {r['ctor_error']}",
                      {"kind": "dtype-pairing", "job": j}, no_failing_input=False)
            continue
        v = verdict_of[ri]
        dtype_evals += len(v)
        failed = [c for c in r["calls"] if c["exc"] is not None]
        raised = [s for s in r["steps"] if s["outcome"] != "ok"]
        row.update({"steps": [s["outcome"] for s in r["steps"]], "oracle_calls": len(r["calls"]), "oracle_failures": len(failed),
                    "failure_classes": sorted({f"{c['exc_class']}:{c['exc']}" for c in failed}),
                    "stored_dtypes": {"eigenvectors": sorted(set(r["steps"][-1]["eig"])), "factors": sorted(set(r["steps"][-1]["fac"])),
                                      "corrected_eigenvalues": sorted(set(r["steps"][-1]["cor"]))} if r["steps"] else None,
                    "tag_model_agrees": "F" not in v})
        # loose numeric sanity (measurement)
        dev = None
        rk = (j["method"], j["freq"], j["variant"])
        if r["final"] is not None and rk in ref and not raised:
            dev = max((abs(a - b) for pa, pb in zip(r["final"], ref[rk]) for a, b in zip(pa, pb)), default=0.0)
            row["max_dev_vs_f64_run"] = dev
            if not r.get("finite", True):
                dev = math.inf
        pair_table.append(row)
        sig = pairing_signature(j, r["calls"])
        rp = {"kind": "dtype-pairing", "job": j, "steps": row["steps"], "failures": [{k: c[k] for k in ("step", "A", "est", "exc_class", "msg")} for c in failed][:4]}
        if failed or raised:
            ck.report(sig, f"SOAP with {j['method']} eigenvectors, parameter dtype {j['pdt']}, preconditioner_dtype {j['fdt']}: {len(failed)} of {len(r['calls'])} "
                           f"basis refreshes raised inside _amortized_computation ({row['failure_classes']}), bases not refreshed on the schedule; step outcomes {row['steps']}",
                      rp)
        elif "F" in v:
            ck.report(None, f"dtype tags of the refresh / stored state deviate from the dtype-tag model for {j['method']} {j['pdt']} x {j['fdt']}: {v}",
                      {**rp, "verdict": v, "predicate": "SoapDefs.dtype_call_ok / dtype_state_ok (stored basis and corrected eigenvalues in the parameter dtype, factors in preconditioner_dtype)"})
        elif dev is not None and not (dev <= max(SANITY_PARAM[j["pdt"]], SANITY_FACTOR[j["fdt"]])):
            ck.report("C03:measured:lowprec-sanity", f"MEASURED deviation {dev:.3g} of the {j['pdt']} x {j['fdt']} ({j['method']}) run from the float64 run exceeds the sanity bound",
                      {**rp, "deviation": dev})

    # ---------------- quantifier audit: measured counts of the input classes the property names or plainly allows (this run)
    gen = [(ci, c) for ci, c in enumerate(cases) if ci >= ncorpus and "error" not in results[ci]]
    cfg0 = lambda c: c["groups"][0]["cfg"]  # noqa
    cnt = lambda pred: sum(1 for ci, c in gen if pred(ci, c))  # noqa
    pats = lambda c: {s.get("gpattern") for s in c["steps"] if s.get("gpattern")}  # noqa
    shapes = [sh for _, c in gen for g in c["groups"] for sh in g["shapes"]]
    audit = {
        "method eigh / QR": [cnt(lambda i, c: cfg0(c)["amort"] == "eigh"), cnt(lambda i, c: cfg0(c)["amort"] == "qr")],
        "QR max_iterations 0 / 1 / 2-5 / 20": [cnt(lambda i, c, k=k: cfg0(c)["amort"] == "qr" and cfg0(c)["qr_iters"] in k) for k in ((0,), (1,), (2, 3, 5), (20,))],
        "QR tolerance 0 / tiny / 0.25 / inf": [cnt(lambda i, c, k=k: cfg0(c)["amort"] == "qr" and cfg0(c)["qr_tol"] in k) for k in ((0.0,), (1e-12, 1e-5), (0.25,), (math.inf,))],
        "QR refresh answers with a non-zero estimate (orthogonal-iteration path)": sum(1 for r in refresh if not r["eig_path"]),
        "beta2 = 1 / < 1": [cnt(lambda i, c: cfg0(c)["betas"][1] == 1.0), cnt(lambda i, c: cfg0(c)["betas"][1] < 1.0)],
        "epsilon 1e-2 / 1e-3 / 1e-4 / 1e-8": [cnt(lambda i, c, e=e: cfg0(c)["eps"] == e) for e in (1e-2, 1e-3, 1e-4, 1e-8)],
        "inverse-root override int / per-order list": [cnt(lambda i, c: isinstance(cfg0(c)["override"], int) and cfg0(c)["override"] != 0), cnt(lambda i, c: isinstance(cfg0(c)["override"], list))],
        "ignored dims: proper subset / all": [cnt(lambda i, c: 0 < len(cfg0(c)["ignored"]) < 4), cnt(lambda i, c: len(cfg0(c)["ignored"]) == 4)],
        "grafting none / sgd / adagrad / rmsprop / adam": [cnt(lambda i, c, g=g: cfg0(c)["graft"] == g) for g in (None, "sgd", "adagrad", "rmsprop", "adam")],
        "momentum / Nesterov / dampening": [cnt(lambda i, c: cfg0(c)["momentum"] != 0.0), cnt(lambda i, c: cfg0(c)["momentum"] != 0.0 and cfg0(c)["nesterov"]), cnt(lambda i, c: cfg0(c)["momentum"] != 0.0 and cfg0(c)["dampening"] != 0.0)],
        "weight decay coupled / decoupled": [cnt(lambda i, c: cfg0(c)["wd"] and not cfg0(c)["decoupled"]), cnt(lambda i, c: cfg0(c)["wd"] and cfg0(c)["decoupled"])],
        "beta1 = 0 / > 0; bias correction off": [cnt(lambda i, c: cfg0(c)["betas"][0] == 0.0), cnt(lambda i, c: cfg0(c)["betas"][0] != 0.0), cnt(lambda i, c: not cfg0(c)["biascorr"])],
        "parameter shapes of order 1 / 2 / 3 / 4": [sum(1 for sh in shapes if len(sh) == k) for k in (1, 2, 3, 4)],
        "shapes with a size-1 dimension (1x1 factors)": sum(1 for sh in shapes if 1 in sh),
        "blocked parameters (max_preconditioner_dim <= 3) / merged dims": [cnt(lambda i, c: cfg0(c)["max_dim"] <= 3), cnt(lambda i, c: cfg0(c)["merge"])],
        "rank-deficient factor at a refresh / exactly zero factor / exactly diagonal factor (n > 1) / diagonal and non-ascending": [
            sum(1 for r in refresh if r["rank"] < r["n"]), sum(1 for r in refresh if r["zero_factor"]),
            sum(1 for r in refresh if r["isdiag"] and r["n"] > 1), sum(1 for r in refresh if r["nonascending_diag"])],
        "some gradient absent at some step / whole group absent at some step": [cnt(lambda i, c: any(not all(row) for s in c["steps"] for row in s["present"])),
                                                                                 cnt(lambda i, c: any(not any(row) for s in c["steps"] for row in s["present"]))],
        "equal-shaped parameters with alternating gradients": sum(1 for t in ttag.values() if t == "alternating-twins"),
        "block whose first gradient comes after the other blocks' first refresh (targeted) / group-steps where some block has a basis and another not": [
            sum(1 for t in ttag.values() if t == "late-block"), sum(m.get("mixed_basis_steps", 0) for m in meas if "error" not in m)],
        "two parameter groups / twin groups with identical hyperparameters": [cnt(lambda i, c: len(c["groups"]) == 2), sum(1 for t in ttag.values() if t == "twin-groups")],
        "present gradient exactly zero on a whole parameter (some step)": cnt(lambda i, c: "zero" in pats(c)),
        "present gradient exactly zero on some blocks of a blocked parameter": cnt(lambda i, c: cfg0(c)["max_dim"] <= 3 and pats(c) & {"single_entry", "dead_row", "diag"}),
        "zero gradients until after the first refresh": sum(1 for t in ttag.values() if t == "zero-until-refresh"),
        "tiny gradients 2^-17 / 2^-8": [cnt(lambda i, c: c.get("gscale") == 2.0 ** -17), cnt(lambda i, c: c.get("gscale") == 2.0 ** -8)],
        "structured gradients: " + " / ".join(PATTERNS): [cnt(lambda i, c, k=k: k in pats(c)) for k in PATTERNS],
        "gradients with non-default memory layout": cnt(lambda i, c: "layout" in pats(c)),
        "start step not a multiple of the frequency / start = inf / frequency 1": [
            cnt(lambda i, c: isinstance(cfg0(c)["start"], int) and cfg0(c)["start"] > 0 and cfg0(c)["start"] % cfg0(c)["freq"] != 0),
            cnt(lambda i, c: isinstance(cfg0(c)["start"], float)), cnt(lambda i, c: cfg0(c)["freq"] == 1)],
        "stop point (save, fresh optimizer, load) before / between / right after a refresh": sum(1 for t in ttag.values() if t == "resume"),
        "lr / weight decay / momentum edited between steps": cnt(lambda i, c: any(s.get("edits") for s in c["steps"])),
        "cases run as a later call in an already used worker process (module-level state)": max(0, len(gen) - 16),
        "dtype pairing runs (parameter x preconditioner dtype -> runs)": {f"{a} x {b}": sum(1 for r in dres if r["job"]["pdt"] == a and r["job"]["fdt"] == b)
                                                                          for a in DT + ["f16"] for b in DT + ["f16"] if any(r["job"]["pdt"] == a and r["job"]["fdt"] == b for r in dres)},
        "dtype runs with ignored dim + Adam grafting + momentum + beta2 = 1 + small gradients + a zero-gradient step": sum(1 for r in dres if r["job"]["variant"] == "rich"),
    }
    not_exercised = [
        "value-level tie (1e-9) for dtypes other than float64: other pairings are tied by dtype tags, exception classes and a loose bound against the float64 run",
        "QR method with float16 preconditioner_dtype: same platform limit as F11 (no Half geqrf kernel; probed and recorded under dtype_pairings.platform_kernels), not run",
        "results that overflow / underflow the storage dtype (gradients are bounded by 2, epsilon is chosen representable in float16)",
        "factor matrices larger than 16 x 16 and boundary sizes in bytes (blocking / buffers: C05, C14)",
        "histories longer than 10 steps",
        "failing or non-finite answers of eigh / qr (fault protocol: C13) other than the platform's missing half-precision kernels",
        "EighEigenvectorConfig(retry_double_precision=False) and eigen_decomp_offload_device",
        "distributed execution (C06-C08), PT2 compilation (C18)",
        "stop points at every step of every history (C09); here: three targeted stop points per run",
    ]

    ck.coverage.update({
        "evaluations": nsteps + len(sched) + dtype_evals,
        "distinct_nontrivial": nontrivial,
        "rule": "tie: SOAP-only random configurations (eigh / QR with max_iterations 1,2,3,5 and tolerance 1e-5,0,0.25,1e-12; beta2 in {1,.75,.5,.96875}; epsilon; inv_root_override int/list; ignored-dims subsets; grafting none/SGD/Adagrad/RMSprop/Adam; beta1/beta3/bias correction; weight decay coupled/decoupled; momentum/dampening/Nesterov; max_preconditioner_dim, merge; frequency/start; 1-2 groups) x blocks of order 1..4 (incl. size-1 dims and rank-deficient early factors) x histories of 4-10 steps with absent gradients; evaluation = one (step, group) compared inside coqc (11 components incl. eigenvectors, corrected eigenvalues, queries) + one schedule-checker tuple per (step, block) + one dtype bool per observed refresh call / stored state of the 36 dtype-pairing runs; non-trivial = a case with >= 2 refresh steps (the second one has a non-zero estimate) and a non-refresh step at or after the start step",
        "samples": [{"cfg": cases[i]["groups"][0]["cfg"], "shapes": [g["shapes"] for g in cases[i]["groups"]], "steps": len(cases[i]["steps"])}
                    for i in sorted({ncorpus, min(len(cases) - 1, ncorpus + 1), len(cases) - 1})],
        "distribution": hist, "cases": len(cases), "corpus_cases": ncorpus, "constructor_errors": ctor_err, "disagreeing_steps": len(failures),
        "measurement": {"label": "MEASUREMENT, not proof: residuals of the bases the implementation stored (binary64 runs of the tie)",
                        "refreshes_measured": len(refresh), "measured_max": table, "budget": BUDGET,
                        "eigendecomposition_answers": sum(1 for r in refresh if r["eig_path"]), "qr_iteration_answers": sum(1 for r in refresh if not r["eig_path"]),
                        "rank_deficient_factors": sum(1 for r in refresh if r["rank"] < r["n"]), "sizes": sorted({r["n"] for r in refresh}),
                        "stored_equals_oracle_answer": len(stored_ne) == 0, "failed_oracle_calls": failed_calls},
        "schedule_checker": {"block_steps": len(sched), "changed": sum(1 for s in sched if s["changed"]), "violations": len(bad_sched)},
        "dtype_pairings": {"platform_kernels": kernels, "runs": len(dres), "table": pair_table, "sanity_bound": {"by_parameter_dtype": SANITY_PARAM, "by_preconditioner_dtype": SANITY_FACTOR}},
        "quantifier_audit": audit, "not_exercised": not_exercised, "targeted_cases": len(ttag),
        "exhaustive": False,
    })
    ck.assumptions += ["value tie: binary64 parameters and preconditioner_dtype only; oracle answers recorded from the implementation's own matrix_eigenvectors",
                       "eigh_contract / qr_contract / argsort_contract are Section hypotheses of the theorems; what LAPACK delivers is only measured (coverage.measurement)",
                       "other dtype pairings: dtype tags, success / exception class per refresh and per step (exact) plus a loose numeric sanity bound",
                       "steps that raise are excluded from the tie (failure protocol: C13)"]


def replay(obj) -> bool:
    kind = obj.get("kind")
    if kind == "dtype-pairing":
        r = dtype_worker(obj["job"])
        print("steps:", [s["outcome"] for s in r["steps"]], "oracle failures:", [(c["step"], c["exc_class"], c["msg"]) for c in r["calls"] if c["exc"]][:4])
        return True
    case = obj["case"]
    recs, _, _ = optrun.run_case(case)
    for row in recs:
        for r in row:
            print("step error" if r["error"] else "ok", r["after"]["t"], "refresh calls", len(r["calls"]), [b["coreig"][:2] for b in r["after"]["blocks"]])
    return True
