"""In-process rank simulator for the distributed distributors of /repo (+ a real multi-process gloo runner).

Why: torch's own threaded process group cannot be used (``get_device_mesh`` is a process-global
``functools.cache``; ranks-as-threads would share meshes and hang).  Instead, for the duration of a run, the names
the distributor modules imported (DESIGN Appendix B.2) are replaced *in the namespace of those modules* by
rank-aware stand-ins.  Nothing in torch.distributed is initialised, nothing under /repo is modified.

=====================================================================================================
API (everything a property harness needs; C06 uses all of it, C07/C08 reuse it)
=====================================================================================================

``run_cluster(world_size, rank_fn, *, timeout=5.0, seed=0, modules=None, patch_to_local=False) -> SimResult``
    Runs ``rank_fn(ctx)`` once per rank, each in its own thread, under the patches.  ``ctx`` is a ``RankCtx``:
    ``ctx.rank``, ``ctx.world_size``, ``ctx.generator`` (a private ``torch.Generator`` seeded from (seed, rank) -
    never use the global RNG inside rank threads), ``ctx.log`` (this rank's event list), ``ctx.cluster``
    (``ctx.cluster.world_group``, ``ctx.cluster.make_mesh(device_type, mesh, names)`` for user-supplied meshes of
    HSDP/HybridShard).  The value returned by ``rank_fn`` is stored in ``SimResult.results[rank]``.

``run_optimizer_cluster(world_size, init_params, make_optimizer, grads_per_step, *, observe=None, ...) -> SimResult``
    The usual shape of a scenario: every rank gets its own deep copy of ``init_params`` (list of tensors, turned
    into ``torch.nn.Parameter``), builds ``make_optimizer(ctx, params)`` inside its thread, then for each step sets
    ``p.grad`` from ``grads_per_step[step][i]`` (tensor or None; a callable ``(rank, step) -> list`` is accepted too),
    calls ``optimizer.step()`` and records a snapshot (list of cloned parameter tensors).
    ``SimResult.results[rank]`` is a dict ``{"params": [snapshot after step 0, ...], "extra": [...], "optimizer": opt}``;
    a rank that hung or raised has ``SimResult.errors[rank]`` set and ``SimResult.partial[rank]`` holds what it had
    recorded so far (same dict shape).  ``observe(ctx, step, optimizer, params)`` may return anything (-> "extra").

``run_serial(init_params, make_optimizer, grads_per_step, observe=None) -> dict``
    The same driver without any patch, in the calling thread (the single-process reference run).

``SimResult``: ``.world_size``, ``.results`` (per rank or None), ``.partial``, ``.errors`` (per rank: None or the
    exception; ``SimHang`` for a rank left waiting), ``.tracebacks``, ``.logs`` (per rank list of events), ``.hangs``
    (list of ``HangInfo`` dicts), ``.hung_ranks()``, ``.outcome`` in {"ok", "hang", "error"} ("error" = some rank raised
    something else than SimHang; hangs of its peers are then a consequence), ``.ok``, ``.wall_s``.

Events in a rank's log (tuples, in program order of that rank):
    ("new_subgroups", group_size)                      dist.new_subgroups(group_size=...)
    ("new_group", ranks_tuple)                         dist.new_group(ranks) - also issued by mesh creation, as
                                                       torch's DeviceMesh does for every mesh that is not the 1-D world
    ("mesh", mesh_as_nested_tuple, dim_names)          a DeviceMesh was *created* (cache miss of get_device_mesh)
    ("all_gather", group_ranks_tuple, nbytes_of_input) dist.all_gather_into_tensor(out, inp, group)
    ("dtensor_zeros", mesh_ranks_tuple)                a state "DTensor" was allocated (a plain tensor here)
``events_of(log, kinds)`` filters by kind.

Collectives: ``all_gather_into_tensor`` is a rendezvous keyed by (group ranks, per-rank per-group sequence number)
guarded by one condition variable.  A rank blocks until every member of the group has arrived at the call with the
same sequence number.  A hang is *reported*, never suffered: the wait ends with ``SimHang`` when (a) a missing
member has already finished its program (it can never arrive), (b) every unfinished rank is blocked and no
rendezvous is complete (deadlock), or (c) ``timeout`` seconds passed (fallback).  ``HangInfo`` = {"rank",
"collective", "group", "seq", "arrived", "missing", "reason"}.

State "DTensors" are plain tensors: ``dtensor_zeros(size, dtype=..., device_mesh=..., placements=...)`` is
``torch.zeros(size, dtype=dtype)`` on the calling rank.  ``get_device_mesh`` is cached *per rank*.
With ``patch_to_local=True`` ``torch.Tensor.to_local`` is ``detach`` during the run (FullyShard / HybridShard).

Replaced names (only those a module actually has):  ``dist`` (get_world_size, get_rank, new_subgroups, new_group,
all_gather_into_tensor, is_initialized, get_process_group_ranks, distributed_c10d.GroupMember.WORLD, ProcessGroup),
``get_device_mesh``, ``dtensor_zeros``, ``_mesh_resources`` (``_get_all_submeshes``) in
shampoo_{ddp,hsdp,hybrid_shard,fsdp,fully_shard}_distributor.  Only one cluster can run at a time in a process
(the patches are module-global; ``run_cluster`` serialises itself with a lock); run scenarios in parallel with
processes, not threads.

Real processes (thorough tier only, to validate the simulator itself):
``run_gloo(world_size, target, payload, *, timeout=60.0) -> GlooResult``
    spawns ``world_size`` processes (``torch.multiprocessing.spawn``, gloo, ``init_method=file://`` under
    /verif/.work), each calls ``target(rank, world_size, payload)`` where ``target`` is "module:function";
    the returned (picklable) value of each rank is collected.  After ``timeout`` seconds the children are killed
    and the outcome is "hang".  ``GlooResult``: ``.outcome`` in {"ok","hang","error"}, ``.results`` (per rank or
    None), ``.errors``.  ``gloo_logging_patches(log)`` (context manager, for use inside ``target``) records the
    same event tuples as the simulator from the real torch.distributed calls.

``silence_library_logging()`` turns off the loggers of distributed_shampoo / matrix_functions.

Checked beyond DDP (C06): HybridShardDistributor on a 2x2 mesh built with ``ctx.cluster.make_mesh("cpu", ((0, 1), (2, 3)),
("replicate", "shard"))`` and ``patch_to_local=True`` (parameters = the local shards as plain tensors) runs unchanged:
replicas agree, each shard column equals the serial optimizer on its local shards, all ranks log the same creations.
The API above is used by C06, C07 and C08 - extend it additively only.
"""
from __future__ import annotations

import contextlib
import copy
import importlib
import logging
import os
import shutil
import threading
import time
import traceback
import types
from pathlib import Path
from typing import Any, Callable, Sequence

import torch

WORK = Path(__file__).resolve().parent.parent / ".work"

DISTRIBUTOR_MODULES = (
    "distributed_shampoo.utils.shampoo_ddp_distributor",
    "distributed_shampoo.utils.shampoo_hsdp_distributor",
    "distributed_shampoo.utils.shampoo_hybrid_shard_distributor",
    "distributed_shampoo.utils.shampoo_fsdp_distributor",
    "distributed_shampoo.utils.shampoo_fully_shard_distributor",
)

_PROCESS_LOCK = threading.Lock()   # one simulated cluster at a time per process (patches are module-global)


def silence_library_logging() -> None:
    for name in ("distributed_shampoo", "matrix_functions", "optimizer_modules", "torch.distributed", "torch._dynamo", "torch._logging"):
        lg = logging.getLogger(name)
        lg.setLevel(logging.CRITICAL + 1)
        lg.propagate = False
    # module loggers are children of "distributed_shampoo"; belt and braces for already configured ones
    for name, lg in list(logging.Logger.manager.loggerDict.items()):
        if isinstance(lg, logging.Logger) and (name.startswith("distributed_shampoo") or name.startswith("matrix_functions")):
            lg.setLevel(logging.CRITICAL + 1)


class SimHang(RuntimeError):
    """Raised inside a rank thread whose collective can never complete (or did not within the timeout)."""

    def __init__(self, info: dict):
        super().__init__(f"rank {info['rank']} hung in {info['collective']} group={info['group']} seq={info['seq']} "
                         f"arrived={info['arrived']} missing={info['missing']} ({info['reason']})")
        self.info = info


class SimGroup:
    """A process group: a plain object holding a rank tuple."""

    __slots__ = ("ranks", "tag")

    def __init__(self, ranks: Sequence[int], tag: str = ""):
        self.ranks = tuple(int(r) for r in ranks)
        self.tag = tag

    def size(self) -> int:
        return len(self.ranks)

    def __repr__(self) -> str:
        return f"SimGroup{self.ranks}"


def _nested_tuple(t: torch.Tensor):
    return tuple(int(x) for x in t.tolist()) if t.ndim == 1 else tuple(_nested_tuple(x) for x in t)


class SimDeviceMesh:
    """Stand-in for torch.distributed.device_mesh.DeviceMesh with the attributes the distributors read."""

    def __init__(self, cluster: "SimCluster", device_type: str, mesh, mesh_dim_names=None, _init_backend: bool = True):
        self._cluster = cluster
        self.device_type = device_type
        self.mesh = mesh.clone().to(torch.int64) if isinstance(mesh, torch.Tensor) else torch.tensor(mesh, dtype=torch.int64)
        if self.mesh.ndim == 0:
            self.mesh = self.mesh.reshape(1)
        self.mesh_dim_names = tuple(mesh_dim_names) if mesh_dim_names is not None else None
        self._dim_groups: list[SimGroup | None] = []
        rank = cluster.current_rank()
        if _init_backend:
            cluster.log(("mesh", _nested_tuple(self.mesh), self.mesh_dim_names))
            if self.mesh.ndim == 1 and self.mesh.numel() == cluster.world_size:
                self._dim_groups = [cluster.world_group]
            else:
                # torch creates one sub-group per row of every mesh dimension, on every rank that builds the mesh
                for dim in range(self.mesh.ndim):
                    rows = self.mesh.swapdims(-1, dim).reshape(-1, self.mesh.size(dim))
                    mine = None
                    for row in rows:
                        g = cluster.dist.new_group(ranks=row.tolist())
                        if rank in g.ranks:
                            mine = g
                    self._dim_groups.append(mine)

    @property
    def ndim(self) -> int:
        return self.mesh.ndim

    @property
    def shape(self):
        return tuple(self.mesh.shape)

    def size(self, mesh_dim: int | None = None) -> int:
        return self.mesh.numel() if mesh_dim is None else self.mesh.size(mesh_dim)

    def get_rank(self) -> int:
        return self._cluster.current_rank()

    def _dim_index(self, mesh_dim) -> int:
        if mesh_dim is None:
            assert self.mesh.ndim == 1
            return 0
        if isinstance(mesh_dim, str):
            assert self.mesh_dim_names is not None and mesh_dim in self.mesh_dim_names, (mesh_dim, self.mesh_dim_names)
            return self.mesh_dim_names.index(mesh_dim)
        return int(mesh_dim)

    def get_group(self, mesh_dim=None) -> SimGroup:
        g = self._dim_groups[self._dim_index(mesh_dim)] if self._dim_groups else None
        if g is None:
            raise RuntimeError(f"rank {self.get_rank()} is not part of mesh {self.mesh.tolist()} along {mesh_dim}")
        return g

    def get_local_rank(self, mesh_dim=None) -> int:
        return self.get_group(mesh_dim).ranks.index(self.get_rank())

    def get_coordinate(self):
        idx = (self.mesh == self.get_rank()).nonzero()
        return [int(x) for x in idx[0]] if idx.numel() else None

    def __repr__(self) -> str:
        return f"SimDeviceMesh({self.mesh.tolist()}, names={self.mesh_dim_names})"


class _SimMeshResources:
    """Stand-in for torch.distributed.device_mesh._mesh_resources (only what HSDP / HybridShard call)."""

    def __init__(self, cluster: "SimCluster"):
        self._cluster = cluster

    def _get_all_submeshes(self, device_mesh: SimDeviceMesh, mesh_dim_name: str):
        dim = device_mesh._dim_index(mesh_dim_name)
        rows = device_mesh.mesh.swapdims(-1, dim).reshape(-1, device_mesh.mesh.size(dim))
        rank = self._cluster.current_rank()
        res = []
        for row in rows:
            sub = SimDeviceMesh(self._cluster, device_mesh.device_type, row, (mesh_dim_name,), _init_backend=False)
            sub._dim_groups = [device_mesh._dim_groups[dim]] if rank in row.tolist() else []
            res.append(sub)
        return res


class _SimDist:
    """Stand-in for the ``torch.distributed`` module object the distributor modules call ``dist``."""

    def __init__(self, cluster: "SimCluster"):
        self._c = cluster
        self.ProcessGroup = SimGroup
        self.distributed_c10d = types.SimpleNamespace(GroupMember=types.SimpleNamespace(WORLD=cluster.world_group, NON_GROUP_MEMBER=None))
        self.group = types.SimpleNamespace(WORLD=cluster.world_group)

    def is_initialized(self) -> bool:
        return True

    def is_available(self) -> bool:
        return True

    def get_world_size(self, group: SimGroup | None = None) -> int:
        return self._c.world_size if group is None else len(group.ranks)

    def get_rank(self, group: SimGroup | None = None) -> int:
        r = self._c.current_rank()
        if group is None or group is self._c.world_group:
            return r
        return group.ranks.index(r) if r in group.ranks else -1

    def get_process_group_ranks(self, group: SimGroup | None) -> list[int]:
        return list((group or self._c.world_group).ranks)

    def new_group(self, ranks=None, **_kw) -> SimGroup:
        rk = tuple(range(self._c.world_size)) if ranks is None else tuple(int(r) for r in ranks)
        self._c.log(("new_group", rk))
        return SimGroup(rk)

    def new_subgroups(self, group_size: int | None = None, **_kw):
        assert group_size is not None and self._c.world_size % group_size == 0, (group_size, self._c.world_size)
        self._c.log(("new_subgroups", int(group_size)))
        r = self._c.current_rank()
        subs = [SimGroup(range(s, s + group_size)) for s in range(0, self._c.world_size, group_size)]
        return subs[r // group_size], subs

    def all_gather_into_tensor(self, output_tensor: torch.Tensor, input_tensor: torch.Tensor, group: SimGroup | None = None, async_op: bool = False):
        assert not async_op
        self._c.all_gather(output_tensor, input_tensor, group or self._c.world_group)

    def barrier(self, group: SimGroup | None = None, **_kw):
        g = group or self._c.world_group
        dummy_in = torch.zeros(1, dtype=torch.int8)
        dummy_out = torch.zeros(len(g.ranks), dtype=torch.int8)
        self._c.all_gather(dummy_out, dummy_in, g, kind="barrier")


class RankCtx:
    def __init__(self, cluster: "SimCluster", rank: int, seed: int):
        self.cluster = cluster
        self.rank = rank
        self.world_size = cluster.world_size
        self.generator = torch.Generator()
        self.generator.manual_seed((int(seed) * 1000003 + rank * 7919 + 17) % (2 ** 63 - 1))
        self.log = cluster.logs[rank]


class SimCluster:
    def __init__(self, world_size: int, timeout: float = 5.0):
        assert world_size >= 1
        self.world_size = world_size
        self.timeout = timeout
        self.world_group = SimGroup(range(world_size), "WORLD")
        self.logs: list[list[tuple]] = [[] for _ in range(world_size)]
        self.hangs: list[dict] = []
        self._tls = threading.local()
        self._cond = threading.Condition()
        self._slots: dict[tuple, dict] = {}          # (kind, group ranks, seq) -> {"in": {rank: tensor}, "left": int}
        self._seq: list[dict] = [dict() for _ in range(world_size)]   # per rank: (kind, group ranks) -> next seq
        self._waiting: list[tuple | None] = [None] * world_size
        self._done = [False] * world_size
        self._mesh_cache: list[dict] = [dict() for _ in range(world_size)]
        self.dist = _SimDist(self)
        self.mesh_resources = _SimMeshResources(self)

    # ---- rank identity -----------------------------------------------------------
    def current_rank(self) -> int:
        r = getattr(self._tls, "rank", None)
        if r is None:
            raise RuntimeError("simulated torch.distributed called outside a rank thread")
        return r

    def log(self, ev: tuple) -> None:
        self.logs[self.current_rank()].append(ev)

    # ---- replacements of module-level names --------------------------------------
    def get_device_mesh(self, *args, **kwargs) -> SimDeviceMesh:
        """Stand-in for shampoo_dist_utils.get_device_mesh that keeps the REAL function's caching behaviour: the real one is
        wrapped in functools.cache, whose key distinguishes positional from keyword calls (and which may be removed by a
        change to /repo); the stand-in binds the arguments with the real signature and caches per rank with exactly that key,
        or not at all if the real function is not cached."""
        import functools
        import inspect
        r = self.current_rank()
        try:
            real = importlib.import_module("distributed_shampoo.utils.shampoo_dist_utils").get_device_mesh
            ba = inspect.signature(getattr(real, "__wrapped__", real)).bind(*args, **kwargs)
            ba.apply_defaults()
            device_type, mesh, mesh_dim_names = ba.arguments["device_type"], ba.arguments["mesh"], ba.arguments.get("mesh_dim_names")
            cached = hasattr(real, "cache_info")
        except (ImportError, AttributeError, KeyError):
            real, cached = None, True
            device_type, mesh, mesh_dim_names = (list(args) + [kwargs.get("device_type"), kwargs.get("mesh"), kwargs.get("mesh_dim_names")])[:3]
        if not cached:
            return SimDeviceMesh(self, device_type, mesh, mesh_dim_names)
        key = functools._make_key(args, kwargs, False)
        cache = self._mesh_cache[r]
        if key not in cache:
            cache[key] = SimDeviceMesh(self, device_type, mesh, mesh_dim_names)
        return cache[key]

    def make_mesh(self, device_type: str, mesh, mesh_dim_names=None) -> SimDeviceMesh:
        """A user-side mesh (what ``init_device_mesh`` would give): created like any other mesh, not cached."""
        return SimDeviceMesh(self, device_type, mesh, mesh_dim_names)

    def dtensor_zeros(self, *size, dtype=None, device_mesh: SimDeviceMesh | None = None, placements=None, **_kw) -> torch.Tensor:
        if len(size) == 1 and not isinstance(size[0], int):
            size = tuple(size[0])
        self.log(("dtensor_zeros", tuple(int(x) for x in device_mesh.mesh.reshape(-1).tolist()) if device_mesh is not None else ()))
        return torch.zeros(tuple(size), dtype=dtype)

    # ---- the rendezvous ----------------------------------------------------------
    def _deadlocked(self) -> bool:
        """Every unfinished rank is blocked, and no blocked rank's rendezvous is complete."""
        for r in range(self.world_size):
            if self._done[r]:
                continue
            key = self._waiting[r]
            if key is None:
                return False
            if len(self._slots[key]["in"]) == len(key[1]):
                return False
        return True

    def all_gather(self, output: torch.Tensor, inp: torch.Tensor, group: SimGroup, kind: str = "all_gather") -> None:
        rank = self.current_rank()
        ranks = group.ranks
        if rank not in ranks:
            raise RuntimeError(f"rank {rank} called {kind} on group {ranks} it is not a member of")
        if kind == "all_gather":
            self.logs[rank].append(("all_gather", ranks, int(inp.numel() * inp.element_size())))
        n = len(ranks)
        if output.numel() * output.element_size() != n * inp.numel() * inp.element_size():
            raise RuntimeError(f"all_gather_into_tensor: output has {output.numel() * output.element_size()} bytes, expected {n} x {inp.numel() * inp.element_size()}")
        with self._cond:
            sk = (kind, ranks)
            seq = self._seq[rank].get(sk, 0)
            self._seq[rank][sk] = seq + 1
            key = (kind, ranks, seq)
            slot = self._slots.setdefault(key, {"in": {}, "left": n})
            slot["in"][rank] = inp.detach().clone()
            self._waiting[rank] = key
            self._cond.notify_all()
            deadline = time.monotonic() + self.timeout
            reason = None
            while len(slot["in"]) < n:
                missing = [r for r in ranks if r not in slot["in"]]
                if any(self._done[r] for r in missing):
                    reason = "peer-finished"
                    break
                if self._deadlocked():
                    reason = "deadlock"
                    break
                left = deadline - time.monotonic()
                if left <= 0:
                    reason = "timeout"
                    break
                self._cond.wait(min(left, 0.25))
            if reason is not None:
                info = {"rank": rank, "collective": kind, "group": list(ranks), "seq": seq,
                        "arrived": sorted(slot["in"]), "missing": [r for r in ranks if r not in slot["in"]], "reason": reason}
                self.hangs.append(info)
                slot["in"].pop(rank, None)   # withdrawn: a later arrival must not complete against a rank that gave up
                self._waiting[rank] = None
                self._done[rank] = True      # this rank's program ends here: its peers must not wait for it
                self._cond.notify_all()
                raise SimHang(info)
            self._waiting[rank] = None
            parts = [slot["in"][r] for r in ranks]
            slot["left"] -= 1
            if slot["left"] == 0:
                del self._slots[key]
        assert output.is_contiguous()
        flat = torch.cat([p.contiguous().reshape(-1).view(torch.uint8) for p in parts])
        with torch.no_grad():
            output.view(-1).view(torch.uint8).copy_(flat)

    def _finish_rank(self, rank: int) -> None:
        with self._cond:
            self._done[rank] = True
            self._waiting[rank] = None
            self._cond.notify_all()


class SimResult:
    def __init__(self, world_size: int):
        self.world_size = world_size
        self.results: list[Any] = [None] * world_size
        self.partial: list[Any] = [None] * world_size
        self.errors: list[BaseException | None] = [None] * world_size
        self.tracebacks: list[str | None] = [None] * world_size
        self.logs: list[list[tuple]] = []
        self.hangs: list[dict] = []
        self.outcome = "ok"
        self.wall_s = 0.0

    @property
    def ok(self) -> bool:
        return self.outcome == "ok"

    def hung_ranks(self) -> list[int]:
        return sorted({h["rank"] for h in self.hangs})


def events_of(log: Sequence[tuple], kinds: Sequence[str]) -> list[tuple]:
    return [e for e in log if e[0] in kinds]


@contextlib.contextmanager
def _patched(cluster: SimCluster, modules: Sequence[str] | None, patch_to_local: bool):
    saved: list[tuple[Any, str, Any]] = []
    mods = []
    for name in (modules or DISTRIBUTOR_MODULES):
        try:
            mods.append(importlib.import_module(name))
        except Exception:  # a module that does not import here is simply not patched
            continue
    repl = {
        "dist": cluster.dist,
        "get_device_mesh": cluster.get_device_mesh,
        "dtensor_zeros": cluster.dtensor_zeros,
        "_mesh_resources": cluster.mesh_resources,
    }
    _missing = object()
    old_to_local = _missing
    try:
        for m in mods:
            for k, v in repl.items():
                if hasattr(m, k):
                    saved.append((m, k, getattr(m, k)))
                    setattr(m, k, v)
        if patch_to_local:
            old_to_local = torch.Tensor.__dict__.get("to_local", _missing)
            torch.Tensor.to_local = lambda self: self.detach()   # type: ignore[attr-defined]
        yield
    finally:
        for m, k, v in reversed(saved):
            setattr(m, k, v)
        if patch_to_local:
            if old_to_local is _missing:
                try:
                    del torch.Tensor.to_local   # type: ignore[attr-defined]
                except AttributeError:
                    pass
            else:
                torch.Tensor.to_local = old_to_local   # type: ignore[attr-defined]


def run_cluster(world_size: int, rank_fn: Callable[[RankCtx], Any], *, timeout: float = 5.0, seed: int = 0,
                modules: Sequence[str] | None = None, patch_to_local: bool = False, join_timeout: float | None = None) -> SimResult:
    """Run ``rank_fn(ctx)`` on ``world_size`` simulated ranks (one thread each).  See the module docstring."""
    silence_library_logging()
    res = SimResult(world_size)
    t0 = time.time()
    with _PROCESS_LOCK:
        cluster = SimCluster(world_size, timeout=timeout)
        ctxs = [RankCtx(cluster, r, seed) for r in range(world_size)]

        def body(r: int) -> None:
            cluster._tls.rank = r
            try:
                res.results[r] = rank_fn(ctxs[r])
            except SimHang as e:
                res.errors[r] = e
                res.partial[r] = getattr(ctxs[r], "partial", None)
            except BaseException as e:  # noqa - reported, never swallowed
                res.errors[r] = e
                res.tracebacks[r] = traceback.format_exc()
                res.partial[r] = getattr(ctxs[r], "partial", None)
            finally:
                cluster._finish_rank(r)

        with _patched(cluster, modules, patch_to_local):
            threads = [threading.Thread(target=body, args=(r,), name=f"sim-rank-{r}", daemon=True) for r in range(world_size)]
            for t in threads:
                t.start()
            limit = time.time() + (join_timeout if join_timeout is not None else 20 * timeout + 120)
            for t in threads:
                t.join(max(0.0, limit - time.time()))
            stuck = [r for r, t in enumerate(threads) if t.is_alive()]
            if stuck:
                # a rank thread that neither finished nor reached a collective (should not happen): make every
                # pending wait fail, give the threads a moment, and report
                with cluster._cond:
                    for r in stuck:
                        cluster._done[r] = True
                    cluster._cond.notify_all()
                for r in stuck:
                    threads[r].join(2 * timeout + 5)
                    if res.errors[r] is None and res.results[r] is None:
                        res.errors[r] = TimeoutError(f"rank {r} thread still running after the join limit")
        res.logs = cluster.logs
        res.hangs = list(cluster.hangs)
    if any(e is not None and not isinstance(e, SimHang) for e in res.errors):
        res.outcome = "error"      # a rank raised; hangs of its peers (if any) are a consequence, still listed in .hangs
    elif res.hangs:
        res.outcome = "hang"
    res.wall_s = time.time() - t0
    return res


# --------------------------------------------------------------------------------------
# optimizer-shaped scenarios


def _grads_for(grads_per_step, rank: int, step: int):
    g = grads_per_step(rank, step) if callable(grads_per_step) else grads_per_step[step]
    return g


def _drive(ctx: RankCtx | None, init_params, make_optimizer, grads_per_step, nsteps: int, observe, rec: dict) -> dict:
    params = [torch.nn.Parameter(p.detach().clone()) for p in init_params]
    opt = make_optimizer(ctx, params)
    rec["optimizer"] = opt
    rank = ctx.rank if ctx is not None else 0
    for step in range(nsteps):
        gs = _grads_for(grads_per_step, rank, step)
        assert len(gs) == len(params)
        for p, g in zip(params, gs):
            p.grad = None if g is None else g.detach().clone()
        opt.step()
        rec["params"].append([p.detach().clone() for p in params])
        if observe is not None:
            rec["extra"].append(observe(ctx, step, opt, params))
    return rec


def run_optimizer_cluster(world_size: int, init_params: Sequence[torch.Tensor], make_optimizer, grads_per_step, *, nsteps: int | None = None,
                          observe=None, timeout: float = 5.0, seed: int = 0, modules=None, patch_to_local: bool = False) -> SimResult:
    n = nsteps if nsteps is not None else len(grads_per_step)

    def rank_fn(ctx: RankCtx):
        ctx.partial = {"params": [], "extra": [], "optimizer": None}
        return _drive(ctx, copy.deepcopy(list(init_params)), make_optimizer, grads_per_step, n, observe, ctx.partial)

    return run_cluster(world_size, rank_fn, timeout=timeout, seed=seed, modules=modules, patch_to_local=patch_to_local)


def run_serial(init_params: Sequence[torch.Tensor], make_optimizer, grads_per_step, *, nsteps: int | None = None, observe=None) -> dict:
    silence_library_logging()
    n = nsteps if nsteps is not None else len(grads_per_step)
    return _drive(None, copy.deepcopy(list(init_params)), make_optimizer, grads_per_step, n, observe, {"params": [], "extra": [], "optimizer": None})


# --------------------------------------------------------------------------------------
# real processes (gloo)


class GlooResult:
    def __init__(self, world_size: int):
        self.world_size = world_size
        self.results: list[Any] = [None] * world_size
        self.errors: list[str | None] = [None] * world_size
        self.outcome = "ok"
        self.wall_s = 0.0


@contextlib.contextmanager
def gloo_logging_patches(log: list):
    """Inside a real process: record the simulator's event tuples from the real torch.distributed calls."""
    import torch.distributed as rdist
    import torch.distributed.device_mesh as dm
    import torch.distributed.distributed_c10d as c10d
    ddp_mod = importlib.import_module("distributed_shampoo.utils.shampoo_ddp_distributor")
    utils_mod = importlib.import_module("distributed_shampoo.utils.shampoo_dist_utils")

    real_new_group = dm.new_group
    real_new_subgroups = rdist.new_subgroups
    real_all_gather = rdist.all_gather_into_tensor
    real_zeros = ddp_mod.dtensor_zeros
    real_DeviceMesh = utils_mod.DeviceMesh

    def new_group(*a, **kw):
        ranks = kw["ranks"] if "ranks" in kw else (a[0] if a else None)
        log.append(("new_group", tuple(int(r) for r in (ranks if ranks is not None else range(rdist.get_world_size())))))
        return real_new_group(*a, **kw)

    def new_subgroups(group_size=None, *a, **kw):
        log.append(("new_subgroups", int(group_size)))
        return real_new_subgroups(group_size, *a, **kw)

    def all_gather_into_tensor(output_tensor, input_tensor, group=None, **kw):
        g = group if group is not None else c10d.GroupMember.WORLD
        log.append(("all_gather", tuple(rdist.get_process_group_ranks(g)), int(input_tensor.numel() * input_tensor.element_size())))
        return real_all_gather(output_tensor, input_tensor, group=group, **kw)

    def DeviceMesh(device_type, mesh, *, mesh_dim_names=None, **kw):
        t = torch.tensor(mesh) if not isinstance(mesh, torch.Tensor) else mesh
        log.append(("mesh", _nested_tuple(t.reshape(-1) if t.ndim <= 1 else t), tuple(mesh_dim_names) if mesh_dim_names is not None else None))
        return real_DeviceMesh(device_type, mesh, mesh_dim_names=mesh_dim_names, **kw)

    def dtensor_zeros(*size, device_mesh=None, **kw):
        log.append(("dtensor_zeros", tuple(int(x) for x in device_mesh.mesh.reshape(-1).tolist()) if device_mesh is not None else ()))
        return real_zeros(*size, device_mesh=device_mesh, **kw)

    fake_dist = types.SimpleNamespace(**{k: getattr(rdist, k) for k in ("get_world_size", "get_rank", "is_initialized", "get_process_group_ranks", "distributed_c10d", "ProcessGroup")})
    fake_dist.new_subgroups = new_subgroups
    fake_dist.all_gather_into_tensor = all_gather_into_tensor
    fake_dist.new_group = rdist.new_group
    saved = [(dm, "new_group", dm.new_group), (ddp_mod, "dist", ddp_mod.dist), (ddp_mod, "dtensor_zeros", ddp_mod.dtensor_zeros), (utils_mod, "DeviceMesh", utils_mod.DeviceMesh)]
    dm.new_group = new_group
    ddp_mod.dist = fake_dist
    ddp_mod.dtensor_zeros = dtensor_zeros
    utils_mod.DeviceMesh = DeviceMesh
    try:
        yield
    finally:
        for m, k, v in saved:
            setattr(m, k, v)


def _gloo_entry(rank: int, world_size: int, initfile: str, target: str, payload, outdir: str) -> None:
    import torch.distributed as rdist
    torch.set_num_threads(1)
    silence_library_logging()
    modname, fname = target.split(":")
    out: dict = {"rank": rank, "result": None, "error": None}
    try:
        import datetime
        rdist.init_process_group("gloo", init_method=f"file://{initfile}", rank=rank, world_size=world_size, timeout=datetime.timedelta(seconds=50))
        fn = getattr(importlib.import_module(modname), fname)
        out["result"] = fn(rank, world_size, payload)
    except BaseException:  # noqa
        out["error"] = traceback.format_exc()
    torch.save(out, os.path.join(outdir, f"rank{rank}.pt"))
    try:
        rdist.destroy_process_group()
    except BaseException:  # noqa
        pass


def run_gloo(world_size: int, target: str, payload, *, timeout: float = 60.0) -> GlooResult:
    """Run ``module:function`` as ``function(rank, world_size, payload)`` in ``world_size`` real gloo processes."""
    import signal
    import tempfile
    import torch.multiprocessing as tmp

    WORK.mkdir(exist_ok=True)
    d = Path(tempfile.mkdtemp(prefix="gloo-", dir=WORK))
    res = GlooResult(world_size)
    t0 = time.time()
    ctx = None
    try:
        initfile = d / "rendezvous"
        ctx = tmp.spawn(_gloo_entry, args=(world_size, str(initfile), target, payload, str(d)), nprocs=world_size, join=False, daemon=False)
        deadline = time.time() + timeout
        finished = False
        while time.time() < deadline:
            try:
                if ctx.join(timeout=0.5):
                    finished = True
                    break
            except Exception as e:  # a child died
                res.outcome = "error"
                res.errors = [repr(e)] * world_size
                finished = True
                break
        if not finished:
            res.outcome = "hang"
        for r in range(world_size):
            f = d / f"rank{r}.pt"
            if f.exists():
                try:
                    o = torch.load(f, weights_only=False)
                    res.results[r] = o["result"]
                    if o["error"]:
                        res.errors[r] = o["error"]
                        if res.outcome == "ok":
                            res.outcome = "error"
                except Exception as e:  # noqa
                    res.errors[r] = repr(e)
            elif res.outcome == "ok":
                res.outcome = "error"
                res.errors[r] = "no result file"
    finally:
        if ctx is not None:
            for p in ctx.processes:
                if p.is_alive():
                    try:
                        os.kill(p.pid, signal.SIGKILL)
                    except OSError:
                        pass
            for p in ctx.processes:
                p.join(5)
        shutil.rmtree(d, ignore_errors=True)
    res.wall_s = time.time() - t0
    return res
