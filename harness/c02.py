"""C02 - warm-up equals the grafted torch.optim optimizer; later its step norm is kept.

Three comparisons per warm-up case (all decided inside coqc, Python reads T/F):
  (i)   real torch.optim.X               vs  the Coq model of torch.optim.X (coq/theories/TorchOptim.v)      1e-9
  (ii)  DistributedShampoo in warm-up    vs  the Optimizer.v model, step by step (shared with C01)             1e-9
  (iii) DistributedShampoo (grafting X)  vs  torch.optim.X on the same parameters and gradients                1e-12
        - this IS the property on the implementation; a `false` here is a failing input of the real code.
After start_preconditioning_step: per block and step, ||delta_block|| / lr against the grafted method's direction norm
and delta parallel to Shampoo's direction, both directions computed by the Coq model from the implementation's observed
pre-state (exec/RunTorch.norm_ok)."""
from __future__ import annotations

import copy
import logging
import math
import multiprocessing as mp

from harness import c01, common, optrun
from harness.common import Check
from harness.optrun import cvec, fl

META = {
    "property_id": "C02",
    "design_ref": "DESIGN.md §4 C02",
    "technique": "Coq proof over R (induction over the gradient history with the state correspondence as invariant) relating the C01 block-step model to hand-written models of torch.optim.{SGD,Adagrad,RMSprop,Adam,AdamW}; three-way correspondence evaluated by vm_compute: torch model vs real torch.optim, Shampoo vs the C01 model, and Shampoo vs torch.optim directly; per-block norm transfer checked on the implementation's parameter deltas",
    "level_text": "Theorems (coq/props/C02.v) over the reals, for every history length, presence pattern and block shape: while the group's step counter is below start_preconditioning_step, Optimizer.block_step (the model C01 ties to /repo) run over a block's history yields, after every step, the same parameter values and corresponding state (second moment = grafting accumulator, first moment = filtered gradient, momentum buffer, step counter) as the model of torch.optim.SGD (momentum, Nesterov, coupled decay, dampening = 0; the guard is shown necessary by warmup_sgd_dampening_refuted), Adagrad (lr_decay 0), RMSprop (optional momentum), Adam and AdamW (beta3 = beta1, bias correction on, the block has a gradient whenever its group steps, exact float32 bias-correction scalars), torch running with the binary32 rounding of lr; from start_preconditioning_step on, every block's search direction is k x P_shampoo with k >= 0 and norm ||P_graft|| ||P_s|| / (||P_s|| + 1e-16).  Also proved: the block-event semantics used in these statements is the k-th block of Optimizer.group_step iterated over any group history (C02_group_run_block), and each torch step distributes over concatenation (C02_*_step_blockwise: torch.optim is element-wise, so a parameter's torch trajectory restricted to a block is the block's torch trajectory, whatever the merging/blocking).  All theorems are fully proved (nothing partial, no _statement left).  Tie, on every run: the torch models are compared with the real torch.optim, the Shampoo model with DistributedShampoo (as in C01), and DistributedShampoo with torch.optim directly at 1e-12 on blocked, merged and higher-order parameters with absent-gradient patterns; per-block delta norms and directions after the start step.",
    "level_note": "Trusted: Coq kernel + vm_compute; stdlib real-number axioms; both hand-written models, believed as far as the correspondence runs exercise them (binary64 parameters; lr binary32-representable and dyadic betas with <= 8 steps in the exact class so that Shampoo's float32 lr and bias-correction scalars are exact; a `loose` class with lr<=1e-2, betas .9/.999 at 2e-5: there Shampoo's float32 bias correction 1-beta2^t loses up to 3e-5 relative by cancellation).  The theorems are per block with the block's group counter; that a parameter is the disjoint union of its blocks is C05 (not re-proved here).  The Adam/AdamW theorems assume the float32 bias-correction scalars equal their real values (hints exact), as in C01.  Floating-point rounding of either side is not modelled.  Quantifier audit (coverage.quantifier_audit / not_exercised): targeted input classes run in every tier - Adam with beta1 = 0, present-but-zero / tiny / large gradients, gradients with non-default memory layouts (found F13: grad.view raised on non-viewable layouts with merged dims; repaired in b60e9a9, signature C02:nonviewable-grad-layout-raises), equal-shaped twin parameters and twin groups with alternating gradients, a second optimizer instance in the process, float32/bfloat16/float16 parameter and preconditioner dtypes (implementation-vs-torch.optim only, dtype-scaled tolerances), histories crossing the start step, empty parameters, many blocks; norm transfer also with momentum/dampening/Nesterov and decoupled decay (direction recovered from the momentum buffers / minus wd*w).",
    "ready": True,
}

KINDS = ["sgd", "adagrad", "rmsprop", "adam", "adamw"]
LRS = [0.125, 0.03125, 0.5, 0.0625, 0.25]
SHAPES = [[], [1], [3], [7], [8], [2, 3], [3, 4], [4, 6], [5, 3], [1, 5], [6, 1], [2, 3, 4], [3, 3, 3], [2, 1, 3], [2, 2, 2, 2], [2, 3, 2, 2], [4, 4]]
TOL_EXACT, TOL_LOOSE = 1e-12, 2e-5


# ------------------------------------------------------------------------------------------ generation

def gen_presence_rows(rng, kind, nparams, nsteps):
    """Adam/AdamW: a group's parameters have a gradient all together or not at all (Shampoo counts steps per group)."""
    if kind in ("adam", "adamw"):
        k = rng.choice(["all", "all", "alt", "random", "late", "flip"])
        rows = []
        for s in range(nsteps):
            v = {"all": True, "alt": s % 2 == 0, "random": rng.random() < 0.6, "late": s >= nsteps // 2, "flip": s % 2 == 1}[k]
            rows.append([v] * nparams)
        return rows, ["group-" + k] * nparams
    return c01.gen_presence(rng, nparams, nsteps)


def gen_warm_cfg(rng, kind, loose=False):
    pk, amort = rng.choice([("shampoo", "eigen"), ("shampoo", "eigen"), ("soap", "eigh"), ("soap", "qr"), ("shampoo", "newton")])
    c = {"kind": pk, "amort": amort, "graft": "adam" if kind == "adamw" else kind}
    dy = [0.5, 0.75, 0.875]
    if loose:
        c["lr"] = rng.choice([1e-3, 0.003, 0.01])
        c["gbeta2"] = rng.choice([0.999, 0.99, 0.9])
        c["geps"] = rng.choice([1e-8, 1e-6])
        b1 = rng.choice([0.9, 0.95])
    else:
        c["lr"] = rng.choice(LRS)
        c["gbeta2"] = rng.choice(dy)
        c["geps"] = rng.choice([1e-3, 1e-8, 0.125, 1e-5])
        b1 = rng.choice(dy)
    c["betas"] = ((b1 if kind in ("adam", "adamw") else 0.0), rng.choice([1.0, 0.75, 0.5]))
    c["beta3"] = -1.0
    c["biascorr"] = True if kind in ("adam", "adamw") else rng.random() < 0.5
    c["wd"] = rng.choice([0.0, 0.25, 0.125, 0.5])
    c["decoupled"] = (kind == "adamw") if c["wd"] != 0.0 or kind in ("adam", "adamw") else rng.random() < 0.5
    c["momentum"] = rng.choice([0.0, 0.5, 0.75, 0.25]) if kind in ("sgd", "rmsprop") else 0.0
    c["dampening"] = 0.0
    c["nesterov"] = kind == "sgd" and c["momentum"] != 0.0 and rng.random() < 0.5
    c["max_dim"] = rng.choice([1, 2, 3, 4, 6, 1024])
    c["merge"] = rng.random() < 0.6
    c["ignored"] = rng.choice([[], [], [], [0], [1]])
    c["override"] = 0
    c["freq"] = rng.choice([1, 2, 3])
    c["eps"] = 1e-3
    return c


def gen_warm_case(rng, kind, thorough=False, loose=False):
    c0 = gen_warm_cfg(rng, kind, loose)
    ngroups = 1 if rng.random() < 0.7 else 2
    nsteps = rng.randint(3, 8)
    c0["start"] = rng.choice([math.inf, nsteps + 1, nsteps + 3, 1000])
    groups = []
    for gi in range(ngroups):
        shapes = [rng.choice(SHAPES) for _ in range(rng.randint(1, 3))]
        if gi == 0:
            groups.append({"cfg": c0, "shapes": shapes})
        else:
            ov = {}
            for k in rng.sample(["lr", "wd", "momentum", "betas", "max_dim"], rng.randint(0, 3)):
                if k == "lr":
                    ov["lr"] = rng.choice(LRS) if not loose else 0.003
                elif k == "wd":
                    ov["wd"] = rng.choice([0.0, 0.375])
                    if kind not in ("adam", "adamw") and ov["wd"] != 0.0 and c0["decoupled"]:
                        ov.pop("wd")          # decoupled decay has no torch counterpart for these targets
                elif k == "momentum" and kind in ("sgd", "rmsprop") and not c0["nesterov"]:
                    ov["momentum"] = rng.choice([0.0, 0.625])
                elif k == "betas" and kind in ("adam", "adamw"):
                    b1 = rng.choice([0.5, 0.75]) if not loose else 0.8
                    ov["betas"] = (b1, c0["betas"][1])
                    ov["beta3"] = b1          # a group that overrides beta1 must also say beta3 (the resolved default is the optimizer-level beta1)
                elif k == "max_dim":
                    ov["max_dim"] = rng.choice([2, 5, 1024])
            groups.append({"overrides": ov, "shapes": shapes})
    pres = [gen_presence_rows(rng, kind, len(g["shapes"]), nsteps) for g in groups]
    steps = [{"present": [pres[gi][0][s] for gi in range(ngroups)], "gseed": rng.randrange(1 << 30), "edits": None} for s in range(nsteps)]
    return {"torch": kind, "loose": loose, "groups": groups, "init_seed": rng.randrange(1 << 30), "steps": steps,
            "presence_kinds": [p[1] for p in pres]}


def gen_norm_case(rng, thorough=False, variant=None):
    """A configuration with grafting that starts preconditioning early.  Default: no momentum, no decoupled decay, so the parameter
    delta of a block is -lr x (its search direction).  Variants (quantifier audit): `momentum` / `decoupled` keep C01's momentum,
    dampening, Nesterov resp. decoupled decay (RunTorch.block_norm_ok recovers the rescaled direction from the momentum buffers
    resp. subtracts wd x w); `zero`: present gradients that are exactly zero; `tiny`: gradients scaled by 2^-17."""
    c = c01.gen_cfg(rng)
    c["graft"] = rng.choice(["sgd", "adagrad", "rmsprop", "adam"])
    if variant == "momentum":
        c["momentum"] = rng.choice([0.5, 0.25])
    else:
        c["momentum"], c["dampening"], c["nesterov"] = 0.0, 0.0, False
    if variant == "decoupled":
        c["wd"], c["decoupled"] = rng.choice([0.25, 0.125]), True
    elif c["wd"] != 0.0:
        c["decoupled"] = False
    c["lr"] = rng.choice(LRS)
    c["start"] = rng.choice([1, 2, 3, -1])
    shapes = [rng.choice(c01.SHAPES + [[4, 6], [2, 3, 4]]) for _ in range(rng.randint(1, 3))]
    nsteps = rng.randint(4, 8 if thorough else 6)
    pres = c01.gen_presence(rng, len(shapes), nsteps)
    if variant in ("zero", "tiny", "momentum", "decoupled"):
        pres = ([[True] * len(shapes) for _ in range(nsteps)], ["all"] * len(shapes)) if rng.random() < 0.6 else pres
    steps = [{"present": [pres[0][s]], "gseed": rng.randrange(1 << 30), "edits": None} for s in range(nsteps)]
    case = {"groups": [{"cfg": c, "shapes": shapes}], "init_seed": rng.randrange(1 << 30), "steps": steps, "presence_kinds": [pres[1]],
            "variant": variant or "plain"}
    if variant == "zero":
        for s in steps[1:]:
            cands = [[0, pi] for pi, v in enumerate(s["present"][0]) if v]
            if cands and rng.random() < 0.6:
                s["zero"] = [rng.choice(cands)]
    if variant == "tiny":
        case["gscale"] = 2.0 ** -17
    return c01.condition_guard(case)


def merged_dims(shape, thr):
    """Distributor's merge of small dimensions (classification of inputs only)."""
    sq = [d for d in shape if d != 1] or [1]
    out = [sq[0]]
    for d in sq[1:]:
        if out[-1] * d <= thr:
            out[-1] *= d
        else:
            out.append(d)
    return out


def nonviewable_layout(case):
    """Does some parameter get a gradient whose (permuted) layout cannot be viewed with the merged dims?  Computed from the input."""
    import torch
    if not case.get("noncontig"):
        return False
    for gi, g in enumerate(case["groups"]):
        c = optrun.effective_cfg(case, gi)
        if not c["merge"]:
            continue
        for sh in g["shapes"]:
            if 0 in sh or len(sh) == 0:
                continue
            t = strided_like(torch.zeros(tuple(sh)))
            try:
                t.view(tuple(merged_dims(sh, c["max_dim"])))
            except RuntimeError:
                return True
    return False


def single_group(case):
    case["groups"] = case["groups"][:1]
    for s in case["steps"]:
        s["present"] = s["present"][:1]
    case["presence_kinds"] = case["presence_kinds"][:1]
    return case


def gen_targeted(rng, reps=1):
    """Input classes that the property's quantifier names or plainly allows and that the random stream reaches rarely or never
    (quantifier audit).  Every case carries `tags`; the evidence counts them."""
    out = []

    def add(case, *tags):
        case["tags"] = list(tags)
        out.append(case)

    for _ in range(reps):
        for kind in ("adam", "adamw"):
            for _ in range(2):                                  # Adam / AdamW with beta1 = 0 (no first-moment state on Shampoo's side)
                c = gen_warm_case(rng, kind)
                c0 = c["groups"][0]["cfg"]
                c0["betas"] = (0.0, c0["betas"][1])
                for g in c["groups"][1:]:
                    g["overrides"].pop("betas", None)
                    g["overrides"].pop("beta3", None)
                add(c, "adam_beta1_zero")
            c = gen_warm_case(rng, kind)                        # beta3 given explicitly (= beta1) instead of -1
            c["groups"][0]["cfg"]["beta3"] = c["groups"][0]["cfg"]["betas"][0]
            add(c, "beta3_explicit_equal_beta1")
        for kind in KINDS:                                      # PRESENT gradients that are exactly zero
            c = gen_warm_case(rng, kind)
            for si, s in enumerate(c["steps"]):
                cands = [[gi, pi] for gi, row in enumerate(s["present"]) for pi, v in enumerate(row) if v]
                if cands and (si == 0 or rng.random() < 0.5):
                    s["zero"] = [rng.choice(cands)] if rng.random() < 0.6 else cands
            add(c, "present_zero_gradient")
        for kind in KINDS:                                      # tiny gradients (exact-zero tests vs tolerance tests, eps dominating)
            c = gen_warm_case(rng, kind)
            c["gscale"] = 2.0 ** -17
            add(c, "tiny_gradients_2^-17")
        for kind in ("sgd", "rmsprop", "adam"):
            c = gen_warm_case(rng, kind)
            c["gscale"] = 2.0 ** 8
            add(c, "large_gradients_2^8")
        for kind in KINDS:                                      # gradients with a non-default memory layout
            c = gen_warm_case(rng, kind)
            c["noncontig"] = True
            for g in c["groups"]:                               # order-0 parameters have only one layout
                g["shapes"] = [sh if len(sh) >= 1 else [5] for sh in g["shapes"]]
            add(c, "grad_layout_nondefault_any_merge_setting")
        for kind in ("sgd", "adam"):
            c = single_group(gen_warm_case(rng, kind))
            c["noncontig"] = True
            c["groups"][0]["cfg"].update(merge=True, max_dim=1024)
            c["groups"][0]["shapes"] = [rng.choice([[3, 4], [2, 3], [3, 3, 3]])]
            for s in c["steps"]:
                s["present"] = [[True]]
            add(c, "grad_layout_nondefault_nonviewable_with_merge")
        for kind in ("sgd", "adagrad", "rmsprop"):              # two equal-shaped parameters, same number of gradients, different pattern
            c = single_group(gen_warm_case(rng, kind))
            sh = rng.choice([[3, 4], [5], [2, 3, 2]])
            c["groups"][0]["shapes"] = [sh, sh]
            for si, s in enumerate(c["steps"]):
                s["present"] = [[si % 2 == 0, si % 2 == 1]]
            c["presence_kinds"] = [["alt", "flip"]]
            add(c, "twin_equal_shaped_params_alternating")
        for kind in KINDS:                                      # twin parameter groups with identical hyperparameters, alternating
            c = gen_warm_case(rng, kind)
            sh = c["groups"][0]["shapes"]
            c["groups"] = [c["groups"][0], {"overrides": {}, "shapes": list(sh)}]
            for si, s in enumerate(c["steps"]):
                s["present"] = [[si % 2 == 0] * len(sh), [si % 2 == 1] * len(sh)]
            c["presence_kinds"] = [["group-alt"] * len(sh), ["group-flip"] * len(sh)]
            add(c, "twin_groups_identical_hyperparameters_alternating")
        for kind in ("sgd", "rmsprop", "adamw"):                # another DistributedShampoo alive and stepping in the same process
            c = gen_warm_case(rng, kind)
            c["twin_instance"] = True
            add(c, "second_optimizer_instance_same_process")
        for pd, qd in (("f32", "f32"), ("f32", "f64"), ("f64", "f32"), ("bf16", "f32"), ("bf16", "bf16"), ("f16", "f32")):
            for kind in rng.sample(KINDS, 2):                   # parameter / preconditioner dtype pairings
                c = gen_warm_case(rng, kind)
                c["pdtype"], c["qdtype"] = pd, qd
                if pd in ("bf16", "f16"):                       # keep the rounding noise of the 16-bit formats well inside DTYPE_TOL
                    c["steps"] = c["steps"][:5]
                    c["groups"][0]["cfg"]["lr"] = rng.choice([0.125, 0.03125, 0.0625])
                    c["groups"][0]["cfg"]["geps"] = rng.choice([1e-3, 0.125])
                    for g in c["groups"][1:]:
                        g["overrides"].pop("lr", None)
                add(c, f"dtype_param_{pd}_precond_{qd}")
        c = gen_warm_case(rng, rng.choice(["adagrad", "rmsprop", "adam"]))       # eps underflows the storage dtype: 0/0 on both sides
        c["pdtype"], c["qdtype"] = "f16", "f32"
        c["groups"][0]["cfg"]["geps"] = 1e-8
        c["steps"] = c["steps"][:4]
        add(c, "graft_eps_underflows_storage_dtype_f16")
        for kind in KINDS:                                      # the history crosses start_preconditioning_step: the warm-up prefix is compared
            c = single_group(gen_warm_case(rng, kind))
            n = rng.randint(4, 6)
            while len(c["steps"]) < n:
                c["steps"].append({"present": None, "gseed": rng.randrange(1 << 30), "edits": None})
            for s in c["steps"]:
                s["present"] = [[True] * len(c["groups"][0]["shapes"])]
            st = rng.choice([2, 3, 4])
            c["groups"][0]["cfg"]["start"] = st
            c["groups"][0]["cfg"]["freq"] = rng.choice([1, 2])
            c["compare_steps"] = st - 1
            add(c01.condition_guard(c), "history_crosses_start_prefix_compared")
        for kind, lr in (("sgd", 0.0), ("adam", 0.0), ("sgd", 2.0), ("adagrad", 8.0), ("adamw", 2.0)):
            c = gen_warm_case(rng, kind)
            c["groups"][0]["cfg"]["lr"] = lr
            add(c, "lr_zero" if lr == 0.0 else "lr_large")
        for kind in ("adagrad", "adam"):
            c = gen_warm_case(rng, kind)
            c["groups"][0]["cfg"]["geps"] = 1.0
            add(c, "graft_eps_large_1.0")
        for kind in ("sgd", "adamw"):                           # parameters without elements
            c = single_group(gen_warm_case(rng, kind))
            c["groups"][0]["shapes"] = [[0], [2, 0, 3], [3, 2]]
            for s in c["steps"]:
                s["present"] = [[True, True, True]]
            add(c, "empty_parameter")
        for kind in ("rmsprop", "adamw"):                       # many blocks per parameter
            c = single_group(gen_warm_case(rng, kind))
            c["groups"][0]["shapes"] = [[16, 6]]
            c["groups"][0]["cfg"].update(max_dim=2, merge=False)
            for s in c["steps"]:
                s["present"] = [[True]]
            add(c, "many_blocks_48")
        for kind in ("sgd", "adam"):                            # shortest and a longer history (dyadic powers stay exact in binary32 up to 12 steps for .5/.75)
            c = gen_warm_case(rng, kind)
            c["steps"] = c["steps"][:1]
            add(c, "single_step_history")
            c = single_group(gen_warm_case(rng, kind))
            c["groups"][0]["cfg"].update(betas=((0.75 if kind == "adam" else 0.0), 1.0), gbeta2=0.5, start=math.inf)
            while len(c["steps"]) < 12:
                c["steps"].append({"present": [[rng.random() < 0.8 or kind == "adam"] * len(c["groups"][0]["shapes"])], "gseed": rng.randrange(1 << 30), "edits": None})
            add(c, "long_history_12_steps")
    return out


def model_tie_applicable(case):
    """(ii) runs the case through optrun.run_case, which knows gscale / zero gradients but not these harness-side variations."""
    if set(case.get("tags", [])) & {"many_blocks_48", "long_history_12_steps", "single_step_history", "lr_large", "graft_eps_large_1.0"}:
        return False        # (ii) is C01's tie; these classes only vary what the direct comparison (iii) looks at
    return not (case.get("noncontig") or case.get("twin_instance") or case.get("pdtype", "f64") != "f64" or case.get("qdtype", "f64") != "f64"
                or any(0 in sh for g in case["groups"] for sh in g["shapes"]))


NORM_LP_TOL = {"f64": 1e-6, "f32": 1e-4, "bf16": 0.1, "f16": 0.02}     # relative, on ||delta|| / lr (measured worst deviations x >= 8)


UNIT_ROUNDOFF = {"f64": 2.0 ** -52, "f32": 2.0 ** -23, "bf16": 2.0 ** -8, "f16": 2.0 ** -10}      # storage rounding of the parameter values


def gen_norm_lp_case(rng, pd, tiny, zero=False):
    """Norm transfer with float32 / bfloat16 / float16 parameters (float32 factors): Adagrad-family grafting with a small grafting
    epsilon, so that the grafted direction has entries of magnitude ~1 whatever the gradient scale and the parameter delta stays
    far above the storage rounding of the parameter; with `tiny` gradients ||P_shampoo|| is small (~1e-4) and the guard constant in
    ||P_graft|| / (||P_shampoo|| + 1e-16) becomes visible if it is anything but negligible."""
    kind, amort = rng.choice([("shampoo", "eigen"), ("soap", "eigh")])          # no bfloat16 LAPACK kernels are involved: factors are float32
    c = {"kind": kind, "amort": amort, "graft": rng.choice(["adagrad", "rmsprop", "adam"]), "geps": 1e-8, "gbeta2": rng.choice([0.5, 0.75]),
         "betas": (rng.choice([0.0, 0.5]), rng.choice([1.0, 0.75])), "beta3": -1.0, "biascorr": True, "wd": 0.0, "decoupled": False,
         "momentum": 0.0, "dampening": 0.0, "nesterov": False, "ignored": [], "override": 0, "max_dim": rng.choice([2, 3, 1024]),
         "merge": rng.random() < 0.5, "freq": rng.choice([1, 2]), "lr": 0.5, "eps": 1e-2}
    c["start"] = rng.choice([st for st in (1, 2) if st >= c["freq"]])       # the constructor demands start >= frequency
    if pd == "f16":
        c["geps"] = 1e-3                                                     # 1e-8 underflows in float16 (0/0 wherever a gradient entry is 0)
    shapes = [rng.choice([[3, 4], [4, 4], [5], [2, 3, 2], [4, 6]]) for _ in range(rng.randint(1, 2))]
    nsteps = rng.randint(3, 4)
    steps = [{"present": [[True] * len(shapes)], "gseed": rng.randrange(1 << 30), "edits": None} for _ in range(nsteps)]
    case = {"groups": [{"cfg": c, "shapes": shapes}], "init_seed": rng.randrange(1 << 30), "steps": steps, "presence_kinds": [["all"] * len(shapes)],
            "variant": f"relnorm_{pd}" + ("_tiny" if tiny else "") + ("_zero" if zero else ""), "pdtype": pd, "qdtype": "f32" if pd != "f64" else "f64"}
    if tiny:
        case["gscale"] = 2.0 ** -17
        if pd == "f64":              # binary64: gradients ~1e-16, so that ||P_shampoo|| is of the order of the 1e-16 guard itself
            case["gscale"] = 2.0 ** -50
            c["geps"] = 2.0 ** -60
    if zero:                         # present gradients that are exactly zero: direction 0, never NaN
        for s in steps:
            if rng.random() < 0.6:
                s["zero"] = [[0, rng.randrange(len(shapes))]]
        steps[-1]["zero"] = [[0, 0]]
    return case


# ------------------------------------------------------------------------------------------ the two optimizers side by side

def torch_hyper(kind, c):
    """The torch.optim hyperparameters corresponding to Shampoo's (effective) group configuration."""
    if kind == "sgd":
        return {"lr": c["lr"], "momentum": c["momentum"], "dampening": 0.0, "weight_decay": c["wd"], "nesterov": bool(c["nesterov"] and c["momentum"] != 0.0)}
    if kind == "adagrad":
        return {"lr": c["lr"], "lr_decay": 0.0, "eps": c.get("geps", 1e-3), "weight_decay": c["wd"]}
    if kind == "rmsprop":
        return {"lr": c["lr"], "alpha": c.get("gbeta2", 0.75), "eps": c.get("geps", 1e-3), "weight_decay": c["wd"], "momentum": c["momentum"]}
    return {"lr": c["lr"], "betas": (c["betas"][0], c.get("gbeta2", 0.75)), "eps": c.get("geps", 1e-3), "weight_decay": c["wd"]}


def build_torch(case, tparams):
    import torch
    cls = {"sgd": torch.optim.SGD, "adagrad": torch.optim.Adagrad, "rmsprop": torch.optim.RMSprop, "adam": torch.optim.Adam,
           "adamw": torch.optim.AdamW}[case["torch"]]
    pgs = []
    for gi in range(len(case["groups"])):
        pgs.append({"params": tparams[gi], **torch_hyper(case["torch"], optrun.effective_cfg(case, gi))})
    return cls(pgs)


def torch_state_vectors(kind, topt, p, hyper):
    """(state tensors as the model lists them, own step counter); a parameter never updated has no state yet."""
    st = topt.state.get(p, {})
    z = [0.0] * p.numel()
    f = lambda t: t.detach().double().reshape(-1).tolist()  # noqa
    if kind == "sgd":
        b = st.get("momentum_buffer")
        return ([] if b is None else [f(b)]), 0
    if kind == "adagrad":
        return [f(st["sum"])], int(st["step"].item())      # Adagrad creates its state eagerly
    if kind == "rmsprop":
        v = [f(st["square_avg"]) if st else z]
        if hyper["momentum"] > 0:
            v.append(f(st["momentum_buffer"]) if st else z)
        return v, 0
    return ([f(st["exp_avg"]), f(st["exp_avg_sq"])] if st else [z, z]), (int(st["step"].item()) if st else 0)


DTYPES = {"f64": "float64", "f32": "float32", "bf16": "bfloat16", "f16": "float16"}
# tolerance of the direct comparison when the PARAMETER dtype is not binary64: both sides then round every tensor operation to the
# storage dtype, in a different operation order (unit roundoff 6e-8 / 3.9e-3 / 4.9e-4; measured worst deviations x >= 8)
DTYPE_TOL = {"f32": 2e-5, "bf16": 0.15, "f16": 0.03}


def strided_like(g):
    """The same values with a non-default memory layout (what autograd hands out after a transpose / expand / slice)."""
    import torch
    if g.dim() >= 2 and g.shape[0] > 1 and g.shape[-1] > 1:
        return g.transpose(0, -1).contiguous().transpose(0, -1)          # permuted strides
    if g.dim() >= 1 and g.numel() > 1:
        return torch.stack([g, g + 1.0], dim=-1)[..., 0]                 # innermost stride 2
    return g


def run_pair(case):
    """DistributedShampoo and torch.optim on the same parameters and gradients.
    Optional case keys: pdtype / qdtype (parameter / preconditioner dtype), noncontig (gradients with a non-default layout),
    twin_instance (a second, unrelated DistributedShampoo alive and stepping in the same process), gscale and per-step `zero`
    (handled by optrun.set_grads: power-of-two gradient scale, present-but-zero gradients)."""
    import torch
    logging.disable(logging.CRITICAL)
    pd = getattr(torch, DTYPES[case.get("pdtype", "f64")])
    qd = getattr(torch, DTYPES[case.get("qdtype", "f64")])
    params = optrun.build_params(case, dtype=pd)
    tparams = [[torch.nn.Parameter(p.detach().clone()) for p in ps] for ps in params]
    opt = optrun.build_optimizer(case, params, dtype=qd)
    topt = build_torch(case, tparams)
    decoy = None
    if case.get("twin_instance"):
        dparams = [[torch.nn.Parameter(p.detach().clone()) for p in ps] for ps in params]
        decoy = (dparams, optrun.build_optimizer(case, dparams, dtype=qd))
        for dps in dparams:               # one step ahead, so that its counters and scalars differ from the instance under test
            for dp in dps:
                dp.grad = torch.ones_like(dp)
        decoy[1].step()
    nblocks = sum(len(optrun.group_handles(opt, gi)[0]) for gi in range(len(params)))
    f64 = lambda t: t.detach().to(torch.float64).reshape(-1).tolist()  # noqa
    flat = lambda pss: [x for ps in pss for p in ps for x in f64(p)]  # noqa
    per_param = [[{"w0": f64(p), "grads": [], "traj": []} for p in ps] for ps in tparams]
    sh_traj, t_traj = [], []
    seen = {"zero_present": 0, "noncontig": 0}
    for step in case["steps"]:
        optrun.set_grads(case, params, step)
        for ps, tps in zip(params, tparams):
            for p, tp in zip(ps, tps):
                if p.grad is not None and case.get("noncontig"):
                    p.grad = strided_like(p.grad)
                    seen["noncontig"] += int(not p.grad.is_contiguous())
                tp.grad = None if p.grad is None else p.grad.detach().clone()
                if p.grad is not None and p.numel() > 0 and not bool(p.grad.any()):
                    seen["zero_present"] += 1
        if decoy is not None:            # the other instance steps first, on other gradients
            for ps, dps in zip(params, decoy[0]):
                for p, dp in zip(ps, dps):
                    dp.grad = None if p.grad is None else -2.0 * p.grad.detach().clone() + 0.25
            decoy[1].step()
        opt.step()
        topt.step()
        sh_traj.append(flat(params))
        t_traj.append(flat(tparams))
        for gi, tps in enumerate(tparams):
            for pi, tp in enumerate(tps):
                per_param[gi][pi]["grads"].append(None if tp.grad is None else f64(tp.grad))
                per_param[gi][pi]["traj"].append(f64(tp))
    for gi, tps in enumerate(tparams):
        hy = torch_hyper(case["torch"], optrun.effective_cfg(case, gi))
        for pi, tp in enumerate(tps):
            per_param[gi][pi]["state"], per_param[gi][pi]["n"] = torch_state_vectors(case["torch"], topt, tp, hy)
            per_param[gi][pi]["hyper"] = hy
    return {"shampoo": sh_traj, "torch": t_traj, "per_param": per_param, "nblocks": nblocks,
            "nparams": sum(len(ps) for ps in params), "seen": seen}


def case_tol(case):
    if case.get("pdtype", "f64") != "f64":
        return DTYPE_TOL[case["pdtype"]]
    return TOL_LOOSE if case.get("loose") else TOL_EXACT


def close(a, b, tol):
    if math.isnan(a) or math.isnan(b):
        return math.isnan(a) and math.isnan(b)
    if math.isinf(a) or math.isinf(b):
        return a == b
    return abs(a - b) <= tol * max(1.0, abs(a), abs(b))


def py_disagrees(case):
    """Search guidance only (shrinking); the verdict on the shrunk case is coqc's."""
    try:
        r = run_pair(case)
    except Exception:  # noqa
        return None
    tol = case_tol(case)
    n = case.get("compare_steps", len(r["shampoo"]))
    for si, (a, b) in enumerate(zip(r["shampoo"][:n], r["torch"][:n])):
        if not all(close(x, y, tol) for x, y in zip(a, b)):
            dev = max(abs(x - y) / max(1.0, abs(x), abs(y)) for x, y in zip(a, b))
            return si, dev
    return None


# ------------------------------------------------------------------------------------------ Coq text

def ctopt(kind, hy) -> str:
    if kind == "sgd":
        return f"(TSgd (mkSgdHp {fl(hy['lr'])} {fl(hy['momentum'])} {fl(hy['dampening'])} {fl(hy['weight_decay'])} {common.coq_bool(hy['nesterov'])}))"
    if kind == "adagrad":
        return f"(TAdagrad (mkAdagradHp {fl(hy['lr'])} {fl(hy['lr_decay'])} {fl(hy['eps'])} {fl(hy['weight_decay'])}))"
    if kind == "rmsprop":
        return f"(TRmsprop (mkRmspropHp {fl(hy['lr'])} {fl(hy['alpha'])} {fl(hy['eps'])} {fl(hy['weight_decay'])} {fl(hy['momentum'])}))"
    con = "TAdam" if kind == "adam" else "TAdamW"
    return f"({con} (mkAdamHp {fl(hy['lr'])} {fl(hy['betas'][0])} {fl(hy['betas'][1])} {fl(hy['eps'])} {fl(hy['weight_decay'])}))"


def cvecs(vs) -> str:
    return "[" + ";".join(cvec(v) for v in vs) + "]"


def case_term(case, r) -> str:
    per = []
    # the binary64 torch model is compared with torch.optim only when torch.optim itself runs in binary64
    for g in (r["per_param"] if case.get("pdtype", "f64") == "f64" else []):
        for p in g:
            hist = "[" + ";".join("None" if x is None else f"(Some {cvec(x)})" for x in p["grads"]) + "]"
            per.append(f"(torch_ok {ctopt(case['torch'], p['hyper'])} {cvec(p['w0'])} {hist} {cvecs(p['traj'])} {cvecs(p['state'])} {optrun.cZ(p['n'])})")
    n = case.get("compare_steps", len(r["shampoo"]))      # histories that cross start_preconditioning_step: the warm-up prefix
    return f"(case_ok [{';'.join(per)}] {fl(case_tol(case))} {cvecs(r['shampoo'][:n])} {cvecs(r['torch'][:n])})"


HEADER = """From Coq Require Import ZArith List Bool String PrimFloat.
From Shampoo Require Import Scalar Show Optimizer TorchOptim.
From ShampooExec Require Import RunOpt RunTorch.
Import ListNotations.
Open Scope float_scope.
"""
PAIR_COMPONENTS = ["torch_model_vs_torch_optim:trajectory", "torch_model_vs_torch_optim:state", "torch_model_vs_torch_optim:step_counter",
                   "shampoo_vs_torch_optim:trajectory"]
NORM_COMPONENTS = ["block_delta_norm_equals_grafted_norm", "block_delta_parallel_to_shampoo_direction"]


def coq_file(terms, show="show_case") -> str:
    body = [HEADER]
    for i, t in enumerate(terms):
        body.append(f"Definition r{i} := {t}.\nEval vm_compute in {show} r{i}.\n")
    return "\n".join(body)


def shard(terms, tag, max_bytes=500_000, max_n=150):
    files, cur, size = {}, [], 0
    for t in terms:
        cur.append(t)
        size += len(t)
        if size > max_bytes or len(cur) >= max_n:
            files[f"{tag}_{len(files):04d}"] = cur
            cur, size = [], 0
    if cur:
        files[f"{tag}_{len(files):04d}"] = cur
    return files


def eval_terms(ck: Check, terms, tag, show="show_case"):
    files = shard(terms, tag)
    out = ck.eval_coq({n: coq_file(ts, show) for n, ts in files.items()}, timeout=1200)
    verdicts = []
    for n, ts in files.items():
        assert len(out[n]) == len(ts), (n, len(out[n]), len(ts))
        verdicts += out[n]
    return verdicts


# ------------------------------------------------------------------------------------------ workers

def pair_worker(case):
    try:
        r = run_pair(case)
    except Exception as e:  # noqa
        return {"error": f"{type(e).__name__}: {e}"[:300]}
    return {"term": case_term(case, r), "nblocks": r["nblocks"], "nparams": r["nparams"], "seen": r["seen"],
            "updates": sum(1 for g in r["per_param"] for p in g for x in p["grads"] if x is not None)}


def norm_worker(case):
    try:
        recs, _, _ = optrun.run_case(case)
    except Exception as e:  # noqa
        return {"error": f"{type(e).__name__}: {e}"[:300]}
    rows = []
    for si, row in enumerate(recs):
        for gi, r in enumerate(row):
            start = r["cfg"]["start"]
            if r["error"] or r["after"]["t"] < start or r["after"]["t"] == r["before"]["t"]:
                continue
            if any(c["ans"] is None for c in r["calls"]):
                continue        # a failed matrix computation (C13) keeps the old root: not this property's subject
            rows.append({"step": si, "group": gi, "t": r["after"]["t"], "term": optrun.cstep(r).replace("(step_ok ", "(norm_ok ", 1),
                         "blocks": sum(1 for g in r["grads"] if g is not None)})
    return {"rows": rows}


def norm_lp_worker(case):
    import torch
    try:
        params = optrun.build_params(case, dtype=getattr(torch, DTYPES[case["pdtype"]]))
        opt = optrun.build_optimizer(case, params, dtype=getattr(torch, DTYPES[case["qdtype"]]))
        recs, _, _ = optrun.run_case(case, opt=opt, params=params)
    except Exception as e:  # noqa
        return {"error": f"{type(e).__name__}: {e}"[:300]}
    rows = []
    for si, row in enumerate(recs):
        for gi, r in enumerate(row):
            if r["error"] or r["after"]["t"] < r["cfg"]["start"] or r["after"]["t"] == r["before"]["t"] or any(c["ans"] is None for c in r["calls"]):
                continue
            rows.append({"step": si, "group": gi, "t": r["after"]["t"], "blocks": sum(1 for g in r["grads"] if g is not None),
                         "term": optrun.cstep(r).replace("(step_ok ", f"(norm_lp_ok {fl(NORM_LP_TOL[case['pdtype']])} {fl(UNIT_ROUNDOFF[case['pdtype']])} ", 1)})
    return {"rows": rows}


def pool_map(fn, items):
    with mp.get_context("fork").Pool(16) as pool:
        return pool.map(fn, items, chunksize=1)


# ------------------------------------------------------------------------------------------ shrinking a failing warm-up case

def shrink_pair(case):
    f = py_disagrees(case)
    if f is None:
        return case, None
    best = copy.deepcopy(case)
    best["steps"] = best["steps"][: f[0] + 1]
    budget = 40
    changed = True
    while changed and budget > 0:
        changed = False
        cands = []
        if len(best["steps"]) > 1:
            cands.append(lambda c: c.update(steps=c["steps"][1:]))
            cands.append(lambda c: c.update(steps=c["steps"][:-1]))
        if len(best["groups"]) > 1:
            def dropg(c):
                c["groups"].pop()
                for s in c["steps"]:
                    s["present"].pop()
            cands.append(dropg)
        for gi, g in enumerate(best["groups"]):
            if len(g["shapes"]) > 1:
                for pi in range(len(g["shapes"])):
                    def drop(c, gi=gi, pi=pi):
                        c["groups"][gi]["shapes"].pop(pi)
                        for s in c["steps"]:
                            s["present"][gi].pop(pi)
                    cands.append(drop)
            for pi, sh in enumerate(g["shapes"]):
                if len(sh) > 1 or (len(sh) == 1 and sh[0] > 1):
                    def small(c, gi=gi, pi=pi):
                        c["groups"][gi]["shapes"][pi] = [2] if len(c["groups"][gi]["shapes"][pi]) <= 1 else c["groups"][gi]["shapes"][pi][1:]
                    cands.append(small)
        c0 = best["groups"][0]["cfg"]
        for k, v in (("wd", 0.0), ("momentum", 0.0), ("nesterov", False), ("max_dim", 1024), ("merge", False), ("ignored", []),
                     ("kind", "shampoo"), ("amort", "eigen"), ("start", math.inf), ("lr", 0.5)):
            if c0.get(k) != v:
                def setk(c, k=k, v=v):
                    c["groups"][0]["cfg"][k] = v
                    if k == "momentum":
                        c["groups"][0]["cfg"]["nesterov"] = False
                    if k == "kind":
                        c["groups"][0]["cfg"]["amort"] = "eigen"
                cands.append(setk)
        if any(not all(row) for s in best["steps"] for row in s["present"]):
            cands.append(lambda c: [s.update(present=[[True] * len(r) for r in s["present"]]) for s in c["steps"]])
        for fn in cands:
            if budget <= 0:
                break
            c = copy.deepcopy(best)
            try:
                fn(c)
            except Exception:  # noqa
                continue
            budget -= 1
            r = py_disagrees(c)
            if r is not None:
                c["steps"] = c["steps"][: r[0] + 1]
                best, f, changed = c, r, True
                break
    return best, f


def jsonable(case):
    c = copy.deepcopy(case)
    for g in c["groups"]:
        for d in (g.get("cfg"), g.get("overrides")):
            if d and isinstance(d.get("start"), float) and math.isinf(d["start"]):
                d["start"] = "inf"
    return c


def unjson(case):
    c = copy.deepcopy(case)
    for g in c["groups"]:
        for d in (g.get("cfg"), g.get("overrides")):
            if d and d.get("start") == "inf":
                d["start"] = math.inf
            if d and "betas" in d:
                d["betas"] = tuple(d["betas"])
    return c


# ------------------------------------------------------------------------------------------ the check

def run(ck: Check) -> None:
    common.assert_repo_imports()
    logging.disable(logging.CRITICAL)
    ck.coq_props(extra_targets=["exec/RunOpt.vo", "exec/RunTorch.vo"])
    thorough = ck.tier == "thorough"
    per_kind = 500 if thorough else 36
    n_loose = 200 if thorough else 20
    n_norm = 800 if thorough else 60

    warm = []
    corpus = common.ROOT / "corpus" / "C02"
    if corpus.exists():
        import json
        for f in sorted(corpus.glob("*.json")):
            warm.append(unjson(json.loads(f.read_text())["case"]))
    ncorpus = len(warm)
    for kind in KINDS:
        warm += [gen_warm_case(ck.rng, kind, thorough) for _ in range(per_kind)]
    warm += [gen_warm_case(ck.rng, ck.rng.choice(KINDS), thorough, loose=True) for _ in range(n_loose)]
    n_random = len(warm)
    warm += gen_targeted(ck.rng, reps=4 if thorough else 1)          # quantifier audit: classes the random stream does not reach
    norm_cases = [gen_norm_case(ck.rng, thorough) for _ in range(n_norm)]
    for variant in ("momentum", "decoupled", "zero", "tiny"):
        norm_cases += [gen_norm_case(ck.rng, thorough, variant) for _ in range(40 if thorough else 7)]

    import time
    phases, t_last = {}, [time.time()]

    def lap(name):
        phases[name] = round(time.time() - t_last[0], 1)
        t_last[0] = time.time()
    lap("generation")
    # (i) + (iii): both optimizers side by side; compared by coqc
    pres = pool_map(pair_worker, warm)
    lap("pair_runs")
    idx = [i for i, r in enumerate(pres) if "error" not in r]
    verdicts = eval_terms(ck, [pres[i]["term"] for i in idx], "c02p")
    pair_v = {i: v for i, v in zip(idx, verdicts)}
    lap("pair_coqc")

    # (ii): Shampoo vs the Optimizer.v model on the same warm-up cases and on the post-start cases (shared with C01)
    sub = [c for j, c in enumerate(warm) if model_tie_applicable(c) and (thorough or j < ncorpus or j >= n_random or j % 2 == 0)]     # quick: every second random case (every target kind), all targeted ones
    res2, per2 = c01.evaluate(ck, sub + norm_cases, tag="c02m")
    model_bad = []
    for ci, pc in enumerate(per2):
        for row, v in pc:
            if "F" in v:
                model_bad.append((ci, row["step"], row["group"], c01.describe(v)))

    lap("model_tie_(ii)")
    # norm transfer after the start step
    nres = pool_map(norm_worker, norm_cases)
    nidx, nterms = [], []
    for ci, r in enumerate(nres):
        for row in r.get("rows", []):
            nidx.append((ci, row))
            nterms.append(row["term"])
    nverd = eval_terms(ck, nterms, "c02n", show="show_bools")
    lap("norm_phase")
    # norm transfer with float32 / bfloat16 / float16 parameters (norm clause only, relative, dtype-scaled tolerance)
    lp_cases = []
    for _ in range(6 if thorough else 1):
        for pd in ("f32", "bf16", "f16"):
            lp_cases += [gen_norm_lp_case(ck.rng, pd, tiny) for tiny in ((False, True, True) if pd != "f16" else (False,))]
            lp_cases.append(gen_norm_lp_case(ck.rng, pd, False, zero=True))
        lp_cases += [gen_norm_lp_case(ck.rng, "f64", True), gen_norm_lp_case(ck.rng, "f64", True, zero=True)]
    lres = pool_map(norm_lp_worker, lp_cases)
    lidx, lterms = [], []
    for ci, r in enumerate(lres):
        for row in r.get("rows", []):
            lidx.append((ci, row))
            lterms.append(row["term"])
    lverd = eval_terms(ck, lterms, "c02l", show="show_bools")
    lap("norm_phase_lowprec")

    # ---- verdicts
    hist = {"target": {}, "class": {"exact": 0, "loose": 0}, "groups": {}, "orders": {}, "presence": {}, "max_dim": {}, "merge": {},
            "blocks_per_param>1": 0, "steps": {}, "norm_graft": {}, "norm_kind": {}, "norm_block_steps": 0}
    ctor_err = 0
    nontrivial = 0
    bad_model_b, bad_impl = [], []
    audit, step_raises = {}, []
    for i, case in enumerate(warm):
        for t in case.get("tags", []):
            audit[t] = audit.get(t, 0) + 1
        if "error" in pres[i]:
            if case.get("tags"):
                step_raises.append((i, pres[i]["error"]))     # a targeted input class on which an optimizer raised
            ctor_err += 1
            continue
        for k, n in pres[i]["seen"].items():
            audit["measured:" + k] = audit.get("measured:" + k, 0) + int(n > 0)
        c0 = case["groups"][0]["cfg"]
        hist["target"][case["torch"]] = hist["target"].get(case["torch"], 0) + 1
        hist["class"]["loose" if case.get("loose") else "exact"] += 1
        hist["groups"][str(len(case["groups"]))] = hist["groups"].get(str(len(case["groups"])), 0) + 1
        hist["max_dim"][str(c0["max_dim"])] = hist["max_dim"].get(str(c0["max_dim"]), 0) + 1
        hist["merge"][str(c0["merge"])] = hist["merge"].get(str(c0["merge"]), 0) + 1
        hist["steps"][str(len(case["steps"]))] = hist["steps"].get(str(len(case["steps"])), 0) + 1
        for g in case["groups"]:
            for sh in g["shapes"]:
                hist["orders"][str(len(sh))] = hist["orders"].get(str(len(sh)), 0) + 1
        for ks in case["presence_kinds"]:
            for k in ks:
                hist["presence"][k] = hist["presence"].get(k, 0) + 1
        blocked = pres[i]["nblocks"] > pres[i]["nparams"]
        hist["blocks_per_param>1"] += int(blocked)
        if pres[i]["updates"] >= 3 and (blocked or any(not all(r) for s in case["steps"] for r in s["present"])):
            nontrivial += 1
        v = pair_v[i]
        if "F" in v[:3]:
            bad_model_b.append((i, v))
        if v[3] != "T":
            bad_impl.append((i, v))

    norm_bad = []
    for (ci, row), v in zip(nidx, nverd):
        c0 = norm_cases[ci]["groups"][0]["cfg"]
        hist["norm_graft"][c0["graft"]] = hist["norm_graft"].get(c0["graft"], 0) + 1
        hist["norm_kind"][c0["kind"]] = hist["norm_kind"].get(c0["kind"], 0) + 1
        hist["norm_block_steps"] += row["blocks"]
        if "F" in v:
            norm_bad.append((ci, row, v))
    lp_bad = [(ci, row) for (ci, row), v in zip(lidx, lverd) if "F" in v]
    norm_nontrivial = len({ci for (ci, row) in nidx})
    for (ci, row) in lidx:
        k = "norm_phase:" + lp_cases[ci]["variant"] + ":checked_steps"
        audit[k] = audit.get(k, 0) + 1
    audit["norm_phase:lowprec:cases_with_step_error"] = sum(1 for r in lres if "error" in r)
    for (ci, row) in nidx:
        k = "norm_phase:" + norm_cases[ci].get("variant", "plain")
        audit[k + ":checked_steps"] = audit.get(k + ":checked_steps", 0) + 1
    for k0, key in (("adam", "norm_phase:adamw_target(adam graft + decoupled decay):cases"),):
        audit[key] = sum(1 for c in norm_cases if c["groups"][0]["cfg"]["graft"] == k0 and c["groups"][0]["cfg"]["decoupled"] and c["groups"][0]["cfg"]["wd"] != 0.0)
    audit["random_stream:adam_family_group_idle_steps"] = sum(1 for c in warm[:n_random] if c["torch"] in ("adam", "adamw") and any(not any(r) for s in c["steps"] for r in s["present"]))
    audit["random_stream:absent_gradient_patterns"] = sum(1 for c in warm[:n_random] if any(not all(r) for s in c["steps"] for r in s["present"]))
    audit["random_stream:two_groups"] = sum(1 for c in warm[:n_random] if len(c["groups"]) == 2)
    audit["random_stream:last_step_is_start_minus_1_at_most"] = sum(1 for c in warm[:n_random] if c["groups"][0]["cfg"]["start"] == len(c["steps"]) + 1)
    audit["random_stream:blocked_parameters"] = hist["blocks_per_param>1"]
    audit["random_stream:order_0_or_size1_dims"] = sum(1 for c in warm[:n_random] for g in c["groups"] for sh in g["shapes"] if len(sh) == 0 or 1 in sh)
    audit["random_stream:loose_realistic_hyperparameters"] = hist["class"]["loose"]

    # an optimizer raised on a targeted input class: torch.optim steps on every such input, so this is DistributedShampoo not
    # following torch.optim's trajectory (run_pair builds and steps both; the message says which)
    seen = set()
    for i, err in step_raises:
        case = warm[i]
        sig = "C02:nonviewable-grad-layout-raises" if (nonviewable_layout(case) and "view size is not compatible" in err) else f"C02:raises:{case['tags'][0]}"
        if sig in seen:
            continue
        seen.add(sig)
        ck.report(sig, f"in warm-up, on the input class {case['tags']} stepping DistributedShampoo (grafting {case['torch']}) next to torch.optim.{case['torch']} "
                       f"raises {err[:160]} - torch.optim alone steps on this input",
                  {"kind": "property-fails", "part": "warmup-raises", "case": jsonable(case), "error": err,
                   "predicate": "DistributedShampoo.step() completes and yields torch.optim's trajectory"})

    # (iii) disagrees: a failing input of the real code
    seen = set()
    for i, v in bad_impl:
        kind = warm[i]["torch"]
        if kind in seen:
            continue
        seen.add(kind)
        small, f = shrink_pair(warm[i])
        confirmed = False
        if f is not None:
            w = pair_worker(small)
            if "term" in w:
                confirmed = eval_terms(ck, [w["term"]], "c02s")[0][3] != "T"
        if not confirmed:
            small, f = warm[i], py_disagrees(warm[i])
        model_b_fine = "F" not in v[:3]
        ck.report(f"C02:warmup-trajectory:{kind}",
                  f"in warm-up, DistributedShampoo grafting {kind} does not follow torch.optim.{kind}'s parameter trajectory "
                  f"(first deviating step {f[0] if f else '?'}, relative deviation {f[1] if f else float('nan'):.3g}; tolerance "
                  f"{case_tol(small)}, classes {small.get('tags', ['random stream'])}); the Coq torch model {'agrees' if model_b_fine else 'DISAGREES'} with torch.optim on this case",
                  {"kind": "property-fails", "part": "warmup", "case": jsonable(small), "first_bad_step": f[0] if f else None,
                   "relative_deviation": f[1] if f else None, "n_failing_cases": len(bad_impl), "shrunk_confirmed_by_coqc": confirmed,
                   "predicate": "RunTorch.case_ok component 3: DistributedShampoo trajectory = torch.optim trajectory"})
    # norm transfer fails: a failing input of the real code
    seen = set()
    for ci, row, v in norm_bad:
        comp = tuple(NORM_COMPONENTS[k] for k, ch in enumerate(v) if ch != "T")
        if comp in seen or len(seen) >= 2:
            continue
        seen.add(comp)
        case = copy.deepcopy(norm_cases[ci])
        case["steps"] = case["steps"][: row["step"] + 1]
        ck.report("C02:norm-transfer", f"step {row['step']} (group step {row['t']} >= start): a block's parameter delta violates {list(comp)}",
                  {"kind": "property-fails", "part": "norm-transfer", "case": jsonable(case), "failing_step": row["step"], "components": list(comp),
                   "n_failing_steps": len(norm_bad), "predicate": "RunTorch.norm_ok"})
    seen = set()
    for ci, row in lp_bad:
        pdt = lp_cases[ci]["pdtype"]
        if pdt in seen:
            continue
        seen.add(pdt)
        case = copy.deepcopy(lp_cases[ci])
        case["steps"] = case["steps"][: row["step"] + 1]
        ck.report(f"C02:norm-transfer:{pdt}", f"{pdt} parameters, step {row['step']} (group step {row['t']} >= start): a block's ||delta|| / lr is NaN or differs from "
                                              f"||P_graft|| ||P_s|| / (||P_s|| + 1e-16) by more than {NORM_LP_TOL[pdt]} relative ({lp_cases[ci]['variant']})",
                  {"kind": "property-fails", "part": "norm-transfer-lowprec", "case": jsonable(case), "failing_step": row["step"],
                   "n_failing_steps": len(lp_bad), "predicate": "RunTorch.norm_lp_ok"})
    # only the hand-written torch model disagrees with torch.optim: the model (not /repo) is wrong
    if bad_model_b and not bad_impl:
        i, v = bad_model_b[0]
        ck.report(None, f"correspondence broken: the Coq model of torch.optim.{warm[i]['torch']} disagrees with the real torch.optim "
                        f"({[PAIR_COMPONENTS[k] for k in range(3) if v[k] != 'T']}); the warmup_eq_* theorems no longer transfer (fix TorchOptim.v)",
                  {"kind": "model-B-broken", "case": jsonable(warm[i]), "n": len(bad_model_b)}, no_failing_input=True)
    # only the Shampoo model disagrees with Shampoo while the property itself holds on every case
    if model_bad and not bad_impl and not norm_bad and not lp_bad:
        ci, st, gi, comp = model_bad[0]
        case = (sub + norm_cases)[ci]
        ck.report(None, f"correspondence broken: Optimizer.v model step disagrees with DistributedShampoo (step {st}, group {gi}, {comp}) while "
                        f"the direct comparison with torch.optim and the norm check pass on all {len(warm) + len(norm_cases)} cases; "
                        f"the theorems of props/C02.v no longer transfer", {"kind": "model-A-broken", "case": jsonable(case), "step": st, "group": gi,
                                                                            "components": comp, "n": len(model_bad)}, no_failing_input=True)

    nsteps2 = sum(len(pc) for pc in per2)
    samples = []
    for i in (ncorpus, min(len(warm) - 1, ncorpus + per_kind * 3), len(warm) - 1):
        samples.append({"target": warm[i]["torch"], "cfg": jsonable(warm[i])["groups"][0]["cfg"], "shapes": [g["shapes"] for g in warm[i]["groups"]],
                        "steps": len(warm[i]["steps"]), "verdict": pair_v.get(i)})
    ck.coverage.update({
        "evaluations": len(idx) + nsteps2 + len(nterms) + len(lterms),
        "distinct_nontrivial": nontrivial + norm_nontrivial,
        "rule": "evaluation = one warm-up case (torch model vs torch.optim AND DistributedShampoo vs torch.optim over the whole history, all parameters), or one (step, group) of Shampoo vs the Optimizer.v model, or one post-start (step, group) norm/direction check over its blocks; non-trivial warm-up case = >= 3 parameter updates and (a parameter split into several blocks or an absent gradient); non-trivial norm case = has a checked step at or after the start step",
        "samples": samples, "distribution": hist, "exhaustive": False,
        "warmup_cases": len(warm), "corpus_cases": ncorpus, "constructor_errors": ctor_err,
        "shampoo_vs_torch_optim_disagreements": len(bad_impl), "torch_model_vs_torch_optim_disagreements": len(bad_model_b),
        "shampoo_model_steps": nsteps2, "shampoo_model_disagreeing_steps": len(model_bad),
        "norm_cases": len(norm_cases), "norm_steps_checked": len(nterms), "norm_disagreements": len(norm_bad), "norm_lowprec_steps_checked": len(lterms), "norm_lowprec_disagreements": len(lp_bad),
        "phase_seconds": phases,
        "quantifier_audit": dict(sorted(audit.items())),
        "not_exercised": {
            "dampening != 0 (SGD/RMSprop), Shampoo beta1 != 0 with SGD/Adagrad/RMSprop grafting, beta3 != beta1, use_bias_correction=False with Adam grafting, grafting beta2 = 1 for RMSprop/Adam, decoupled decay with SGD/Adagrad/RMSprop grafting, Nesterov with RMSprop": "outside `the range where the two formulations are mathematically identical` (dampening: C02_warmup_sgd_dampening_refuted; the others change the formula on one side only)",
            "Adam/AdamW with a parameter absent while its group steps": "excluded by the property's quantifier (own update count = group step count)",
            "non-dyadic betas / lr not binary32-representable at tolerance 1e-12": "Shampoo's float32 lr and bias-correction scalars then differ from torch's binary64 ones by up to 3e-5 relative; covered only by the loose class (2e-5)",
            "value-level tie of the Coq models for non-binary64 parameters": "the models are executed in binary64; float32/bfloat16/float16 parameters are compared implementation-vs-torch.optim only, at dtype-scaled tolerances (2e-5 / 0.15 / 0.03)",
            "gradient zero on ONE block of a multi-block parameter, structured (rank-1, dead-coordinate) gradients in the norm phase": "optrun.set_grads only zeroes whole parameters; singular / structured factor matrices are C10-C12's subject, zero blocks inside a parameter C04/C05's",
            "direction clause of the norm transfer with non-binary64 parameters": "the P_shampoo reference is the binary64 Coq model; inverse roots amplify storage rounding beyond any useful tolerance - the NORM clause is checked for float32/bfloat16/float16 parameters (relative 1e-4 / 0.1 / 0.02)",
            "float16 parameters with tiny (2^-17 scale) gradients": "their squares underflow in float16 on both sides (0/0 in torch.optim as well); float16 with present zero gradients after the start step IS generated (found F15)",
            "norm transfer with dampening = 1": "division by 1 - dampening when recovering the direction from the momentum buffers",
            "distributed (multi-rank) configurations, PT2-compiled steps, checkpoint resume inside warm-up": "C06-C08, C18, C09",
            "parameters above a few dozen elements / 2 GiB / alignment classes": "no size-dependent code path in the grafting step other than blocking (C05, C14)",
        },
        "tolerances": {"torch_model": 1e-9, "shampoo_model": 1e-9, "shampoo_vs_torch_exact_class": TOL_EXACT, "loose_class": TOL_LOOSE, "norm": 1e-9, "non_f64_parameter_dtype": DTYPE_TOL, "norm_lowprec_relative": NORM_LP_TOL},
    })
    ck.assumptions += ["binary64 parameters; exact class: lr binary32-representable, betas in {.5,.75,.875}, <= 8 steps (Shampoo's float32 scalars exact)",
                       "SGD/RMSprop: dampening = 0 (guard of the theorem; refuted otherwise); Adam/AdamW: a group's parameters have gradients together",
                       "norm check: momentum 0 and no decoupled decay, so a block's delta is -lr x its search direction; steps with a failed matrix computation skipped"]


def replay(obj) -> bool:
    common.assert_repo_imports()
    case = unjson(obj["case"])
    if obj.get("part") == "norm-transfer-lowprec":
        r = norm_lp_worker(case)
        print(r.get("error") or f"{len(r['rows'])} post-start (step, group) records; the verdict is RunTorch.norm_lp_ok (run ./check C02)")
        return True
    if obj.get("part") == "norm-transfer":
        recs, _, _ = optrun.run_case(case)
        r = recs[-1][0]
        for b, a, g in zip(r["before"]["blocks"], r["after"]["blocks"], r["grads"]):
            if g is not None:
                lr = r["cfg"]["lr"]
                print("block", b["dims"], "||delta||/lr =", math.sqrt(sum((x - y) ** 2 for x, y in zip(a["w"], b["w"]))) / lr)
        return True
    if obj.get("part") == "warmup-raises":
        try:
            run_pair(case)
        except Exception as e:  # noqa
            print("stepping DistributedShampoo next to torch.optim." + case["torch"], "raises", type(e).__name__ + ":", str(e)[:200])
            return True
        print("both optimizers step on this input")
        return False
    f = py_disagrees(case)
    print("DistributedShampoo vs torch.optim." + case["torch"], "deviates at step %d by %.3g" % f if f else "agree")
    return f is not None
