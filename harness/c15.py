"""C15 - shard-to-tensor-block recovery (both copies) vs the Coq model SplitRecovery.rec."""
from __future__ import annotations

import itertools
import math
import multiprocessing as mp

from harness import common, gen_targets
from harness.common import Check, coq_Z, coq_bool

META = {
    "property_id": "C15",
    "design_ref": "DESIGN.md §4 C15",
    "technique": "Coq proof (induction over the shape suffix, lia with div/mod) + exhaustive small-scope correspondence evaluated by vm_compute",
    "level_text": "Theorems over all shapes/ranges on the Gallina model of _split_tensor_block_recovery: ordered partition, slab shape/alignment/cell, minimality of the piece count among all ordered partitions into genuine slabs (split_minimal), empty range, non-flat rejection; the model is tied to both copies (FSDP, HSDP) by an exhaustive comparison on all shapes with numel<=36 (order<=4, order 5 with dims<=2) and all (start,end), done inside coqc.",
    "ready": True,
    "level_note": "Trusted: Coq kernel+vm_compute; the hand-written model (checked against the code only on the enumerated/random inputs); torch narrow/view/storage_offset semantics as observed.",
}


def shapes_upto(max_numel: int, max_order: int):
    out = [()]

    def rec(prefix, prod):
        for d in range(1, max_numel // prod + 1):
            sh = prefix + (d,)
            out.append(sh)
            if len(sh) < max_order:
                rec(sh, prod * d)

    rec((), 1)
    return out


def impl_run(args):
    """Run both copies on one (shape, list of (s,e)) work item; returns per copy, per range: (views_ok, pieces)."""
    import torch
    from distributed_shampoo.utils.shampoo_fsdp_distributor import FSDPDistributor
    from distributed_shampoo.utils.shampoo_hsdp_distributor import HSDPDistributor

    shape, ranges = args[0], args[1]
    meta = len(args) > 2 and args[2] == "meta"
    k = args[3] if len(args) > 3 and args[2] == "strided" else 1   # element stride of the flat shard (1 = contiguous)
    n = math.prod(shape)
    # huge shapes (numel up to 2^44) run on the meta device: views, offsets and shapes are real, there is no storage to compare
    base = torch.empty(n + 2, device="meta") if meta else torch.arange(k * (n + 2), dtype=torch.float32)
    flat = base[::k] if k > 1 else base    # a flat, uniformly strided (non-contiguous for k > 1) view: still "the given shard"
    res = []
    for fn in (FSDPDistributor._split_tensor_block_recovery, HSDPDistributor._split_tensor_block_recovery):
        per = []
        for s, e in ranges:
            shard = flat[s:e]
            try:
                out = fn(shard, torch.Size(shape), s, e)
            except Exception as ex:  # noqa
                per.append(("EXC:" + type(ex).__name__, []))
                continue
            ok = True
            pieces = []
            for p in out:
                o = p.storage_offset() - shard.storage_offset() if k > 1 else p.storage_offset() - s
                if k > 1:      # strided shard: same storage, offset a multiple of the stride, reads the right logical elements
                    ok = ok and p.untyped_storage().data_ptr() == base.untyped_storage().data_ptr() and o % k == 0
                    o //= k
                    ok = ok and bool(torch.equal(p.reshape(-1), flat[s + o: s + o + p.numel()]))
                elif meta:
                    ok = ok and p.is_contiguous() and p.device.type == "meta"
                else:
                    ok = ok and p.untyped_storage().data_ptr() == base.untyped_storage().data_ptr() and p.is_contiguous()
                    ok = ok and bool(torch.equal(p.reshape(-1), base[s + o: s + o + p.numel()]))
                pieces.append((o, p.numel(), list(p.shape)))
            per.append((ok, pieces))
        res.append(per)
    return res


def coq_pieces(pieces) -> str:
    return "[" + "; ".join(f"mk {coq_Z(o)} {l} [{'; '.join(map(str, sh))}]" for o, l, sh in pieces) + "]"


HEADER = """From Coq Require Import ZArith List String.
From Shampoo Require Import Show SplitRecovery SplitRecoveryProofs SplitChecker SplitMinimal SplitCheckerStrict.
Import ListNotations. Open Scope Z_scope.
"""


def run(ck: Check) -> None:
    common.assert_repo_imports()
    ck.coq_props()
    gen_targets.run(ck)          # translator tie: Gallina regenerated from the source + coq/gen/EquivC15.v
    thorough = ck.tier == "thorough"
    maxn = 36 if thorough else 20
    shapes = shapes_upto(maxn, 4) + [sh for sh in itertools.product((1, 2), repeat=5)]
    work = []
    for sh in shapes:
        n = math.prod(sh)
        work.append((sh, [(s, e) for s in range(n + 1) for e in range(s, n + 1)]))
    # random large shapes
    nrand = 20000 if thorough else 1500
    rnd = []
    for _ in range(nrand):
        order = ck.rng.randint(1, 5)
        sh = tuple(ck.rng.choice((1, 2, 3, 4, 5, 7, 8, 16, 31)) for _ in range(order))
        n = math.prod(sh)
        if n > 20000:
            continue
        kind = ck.rng.random()
        if kind < 0.3:   # aligned-ish boundaries
            r = math.prod(sh[ck.rng.randint(0, order - 1) + 1:]) if order > 1 else 1
            s = min(n, ck.rng.randint(0, max(0, n // r)) * r + ck.rng.choice((0, 0, 1, -1)) % (n + 1))
            e = min(n, max(s, ck.rng.randint(0, max(0, n // r)) * r + ck.rng.choice((0, 0, 1))))
        else:
            s = ck.rng.randint(0, n)
            e = ck.rng.randint(s, n)
        rnd.append((sh, [(s, e)]))
    work += rnd
    # shapes with a zero-sized dimension (numel 0): the only range is the empty one
    zero_shapes = [(0,), (0, 3), (3, 0), (2, 0, 2), (0, 0), (1, 0), (2, 3, 0, 2)]
    work += [(sh, [(0, 0)]) for sh in zero_shapes]
    # huge shapes on the meta device: numel between 2^31 and 2^44 (index arithmetic beyond int32 / float precision)
    huge = []
    for _ in range(1500 if thorough else 300):
        order = ck.rng.randint(1, 5)
        sh = tuple(ck.rng.choice((1, 2, 3, 7, 1 << 10, (1 << 10) + 1, 1 << 16, (1 << 20) - 1, 1 << 20)) for _ in range(order))
        n = math.prod(sh)
        if not (1 << 31) <= n <= (1 << 44):
            continue
        r = math.prod(sh[ck.rng.randint(0, order - 1) + 1:]) if order > 1 else 1
        s = min(n, ck.rng.randint(0, n // r) * r + ck.rng.choice((0, 0, 1, r - 1, ck.rng.randint(0, r))))
        e = min(n, max(s, ck.rng.randint(0, n // r) * r + ck.rng.choice((0, 0, 1, ck.rng.randint(0, r)))))
        huge.append((sh, [(s, e)], "meta"))
    work += huge
    # flat but NON-contiguous shards (element stride 2 / 3 of a larger buffer): the pieces must still be views of the given shard
    smax = 16 if thorough else 12
    strided = [(sh, [(s, e) for s in range(math.prod(sh) + 1) for e in range(s, math.prod(sh) + 1)], "strided", k)
               for sh in shapes_upto(smax, 4) for k in (2, 3)]
    for _ in range(2000 if thorough else 300):
        order = ck.rng.randint(1, 4)
        sh = tuple(ck.rng.choice((1, 2, 3, 4, 5, 7)) for _ in range(order))
        n = math.prod(sh)
        s = ck.rng.randint(0, n)
        strided.append((sh, [(s, ck.rng.randint(s, n))], "strided", ck.rng.choice((2, 3, 5))))
    work += strided
    with mp.get_context("fork").Pool(16) as pool:
        results = pool.map(impl_run, work, chunksize=8)

    # build case files: one bool per (copy, shape, s, e)
    cases = []   # (shape, s, e, copy, ok, pieces)
    for (sh, ranges, *rest), res in zip(work, results):
        k = rest[1] if len(rest) > 1 and rest[0] == "strided" else 1
        for ci, per in enumerate(res):
            for (s, e), (ok, pieces) in zip(ranges, per):
                cases.append((sh, s, e, ci, ok, pieces, k))
    sources = {}
    per_file = 1500
    for fi, chunk in enumerate(common.chunks(cases, per_file)):
        lines = [HEADER, "Definition results : list bool := ["]
        items = []
        for sh, s, e, ci, ok, pieces, k in chunk:
            shs = "[" + "; ".join(map(str, sh)) + "]"
            if isinstance(ok, str):
                items.append("false")
            else:
                items.append(f"andb {coq_bool(ok)} (agree {shs} {s} {e} {coq_pieces(pieces)})")
        lines.append(";\n".join(items))
        lines.append("].\nEval vm_compute in show_bools results.\n")
        sources[f"c15_{fi:04d}"] = "\n".join(lines)
    out = ck.eval_coq(sources)
    flat = "".join(out[f"c15_{fi:04d}"][0] for fi in range(len(sources)))
    assert len(flat) == len(cases), (len(flat), len(cases))
    bad = [c for c, b in zip(cases, flat) if b != "T"]

    # non-flat shards must be rejected (model: RaiseValueError), both copies
    import torch
    from distributed_shampoo.utils.shampoo_fsdp_distributor import FSDPDistributor
    from distributed_shampoo.utils.shampoo_hsdp_distributor import HSDPDistributor
    nonflat = 0
    for fn, nm in ((FSDPDistributor._split_tensor_block_recovery, "fsdp"), (HSDPDistributor._split_tensor_block_recovery, "hsdp")):
        for shard_shape in ((2, 3), (1, 4), (2, 1, 2), ()):
            t = torch.zeros(shard_shape)
            try:
                fn(t, torch.Size((2, 3)), 0, t.numel())
                raised = None
            except ValueError:
                raised = "ValueError"
            except Exception as ex:  # noqa
                raised = type(ex).__name__
            nonflat += 1
            if raised != "ValueError":
                ck.report(None, f"non-flat shard of shape {shard_shape} not rejected with ValueError by {nm} copy (got {raised})",
                          {"kind": "nonflat", "copy": nm, "shard_shape": list(shard_shape), "raised": raised})

    # failing-input search on disagreements: certified checker on the implementation's own output
    if bad:
        srcs = {}
        for fi, chunk in enumerate(common.chunks(bad, 500)):
            items = []
            for sh, s, e, ci, ok, pieces, k in chunk:
                shs = "[" + "; ".join(map(str, sh)) + "]"
                items.append("false" if isinstance(ok, str) else f"andb {coq_bool(ok)} (C15_checkb_strict {shs} {s} {e} {coq_pieces(pieces)})")
            srcs[f"c15_chk_{fi:04d}"] = HEADER + "Definition results : list bool := [" + ";\n".join(items) + "].\nEval vm_compute in show_bools results.\n"
        o2 = ck.eval_coq(srcs)
        flat2 = "".join(o2[f"c15_chk_{fi:04d}"][0] for fi in range(len(srcs)))
        failing = [c for c, b in zip(bad, flat2) if b != "T"]
        if failing:
            failing.sort(key=lambda c: (math.prod(c[0]), len(c[0]), c[2] - c[1]))
            sh, s, e, ci, ok, pieces, k = failing[0]
            ck.report(None, f"{['FSDP', 'HSDP'][ci]} copy violates C15 on shape={list(sh)} start={s} end={e}{f' (flat shard with element stride {k})' if k > 1 else ''}: returned {pieces} (views_ok={ok})",
                      {"kind": "property-fails", "copy": ["fsdp", "hsdp"][ci], "shape": list(sh), "start": s, "end": e,
                       "impl_pieces": pieces, "views_ok": ok, "shard_stride": k, "n_failing": len(failing), "predicate": "C15_checkb_strict (ordered partition, genuine slabs, minimal count) and views"})
        else:
            sh, s, e, ci, ok, pieces, k = bad[0]
            ck.report(None, f"model/implementation correspondence broken ({len(bad)} cases, first: copy={ci} shape={list(sh)} [{s},{e})) but the implementation output still passes C15_checkb",
                      {"kind": "correspondence", "broken": "SplitRecovery.agree (model rec vs implementation)", "shape": list(sh), "start": s, "end": e, "impl_pieces": pieces,
                       "theorems_not_transferring": ["C15_split_partitions_in_order", "C15_split_pieces_are_slabs", "C15_split_minimal"]}, no_failing_input=True)

    nontriv = {(sh, s, e) for sh, s, e, ci, ok, pieces, k in cases if len(pieces) >= 2}
    hist = {}
    for sh, s, e, ci, ok, pieces, k in cases:
        hist[len(pieces)] = hist.get(len(pieces), 0) + 1
    ck.coverage.update({
        "evaluations": len(cases) + nonflat,
        "distinct_nontrivial": len(nontriv),
        "rule": f"every shape of order<=4 with numel<={maxn} and order 5 with dims<=2, every 0<=start<=end<=numel, both copies (exhaustive), plus random shapes up to numel 20000; non-trivial = distinct (shape,start,end) whose result has >=2 pieces",
        "exhaustive": True,
        "samples": [{"shape": list(c[0]), "start": c[1], "end": c[2], "copy": ["fsdp", "hsdp"][c[3]], "pieces": c[5]} for c in (cases[len(cases) // 3], cases[len(cases) // 2], cases[-1])],
        "distribution": {"pieces_per_result": {str(k): v for k, v in sorted(hist.items())}, "orders": {str(o): sum(1 for w in work if len(w[0]) == o) for o in range(6)}, "random_cases": len(rnd), "nonflat_cases": nonflat},
        "disagreements": len(bad),
        "quantifier_audit": {
            "order 0 / 1 / 2 / 3 / 4 / 5 shapes (exhaustive + random + huge)": [sum(1 for w in work if len(w[0]) == o) for o in range(6)],
            "shapes with size-1 dimensions": sum(1 for w in work if 1 in w[0]),
            "shapes with a zero-sized dimension (empty range only)": len(zero_shapes),
            "empty ranges (start = end)": sum(1 for c in cases if c[1] == c[2]),
            "whole tensor (start = 0, end = numel)": sum(1 for c in cases if c[1] == 0 and c[2] == math.prod(c[0]) and c[2] > 0),
            "range inside one row of the last dimension": sum(1 for c in cases if len(c[0]) >= 2 and c[0][-1] > 0 and c[2] > c[1] and c[1] // c[0][-1] == (c[2] - 1) // c[0][-1]),
            "range starting AND ending mid-row": sum(1 for c in cases if len(c[0]) >= 2 and c[0][-1] > 0 and c[1] % c[0][-1] and c[2] % c[0][-1]),
            "results with 1 / 2 / 3 / 4 / >= 5 pieces": [hist.get(1, 0), hist.get(2, 0), hist.get(3, 0), hist.get(4, 0), sum(v for k, v in hist.items() if k >= 5)],
            "results with the maximum 2*order-1 pieces": sum(1 for c in cases if len(c[0]) >= 2 and len(c[5]) == 2 * len(c[0]) - 1),
            "FSDP copy / HSDP copy": [sum(1 for c in cases if c[3] == 0), sum(1 for c in cases if c[3] == 1)],
            "shard at a non-zero storage offset of a larger flat tensor": sum(1 for c in cases if c[1] > 0),
            "huge shapes on the meta device (numel 2^31..2^44)": len(huge),
            "huge shapes with numel >= 2^40": sum(1 for w in huge if math.prod(w[0]) >= 1 << 40),
            "non-flat shards (must raise ValueError)": nonflat,
            "flat NON-contiguous shards (element stride 2 / 3 / 5; views of the given shard, logical offsets vs the model)": sum(len(w[1]) for w in strided),
            "random large shapes (numel <= 20000)": len(rnd),
        },
        "not_exercised": [
            "storage identity of the views for the huge shapes (meta tensors have no storage; offsets, sizes, contiguity and device are compared)",
            "shard dtypes other than float32 (the routine only narrows and views)",
            "start > end, negative start or end > numel (outside the quantifier 0 <= start <= end <= numel; the FSDP copy asserts)",
            "CUDA tensors",
        ],
    })
    ck.assumptions += ["torch.narrow/view/storage_offset behave as observed (views identified by storage pointer + offset + contiguity)"]
    ck.gen_equiv_verdict()


def replay(obj) -> bool:
    import torch
    common.assert_repo_imports()
    from distributed_shampoo.utils.shampoo_fsdp_distributor import FSDPDistributor
    from distributed_shampoo.utils.shampoo_hsdp_distributor import HSDPDistributor
    fn = (FSDPDistributor if obj.get("copy") == "fsdp" else HSDPDistributor)._split_tensor_block_recovery
    sh, s, e = obj["shape"], obj["start"], obj["end"]
    k = obj.get("shard_stride", 1)
    base = torch.arange(k * (math.prod(sh) + 2), dtype=torch.float32)
    shard = base[::k][s:e]
    out = fn(shard, torch.Size(sh), s, e)
    got = [[(p.storage_offset() - shard.storage_offset()) // k, p.numel(), list(p.shape)] for p in out]
    print("pieces share the shard's storage:", [p.untyped_storage().data_ptr() == base.untyped_storage().data_ptr() for p in out])
    print("implementation returns", got, "recorded", obj.get("impl_pieces"))
    return True
