"""C01 - every step follows the documented Shampoo update rule.

The Coq model (coq/theories/Optimizer.v, executed in binary64 by coq/exec/RunOpt.v) is the documented algorithm at
block level; for every step of every generated history `coqc` applies ONE model step to the state observed on the
implementation before the step and compares with the state observed after it (tolerance 1e-9, matrix routines as
recorded oracle).  A `false` is therefore directly a step of the real optimizer that does not follow the rule."""
from __future__ import annotations

import copy
import json
import math
import multiprocessing as mp

from harness import common, gen_targets, optrun
from harness.common import Check

META = {
    "property_id": "C01",
    "design_ref": "DESIGN.md §4 C01",
    "technique": "Coq proof over R of the update-rule algebra/schedule/group independence on the executable Gallina model + per-step correspondence (model step applied to the implementation's observed state, compared by vm_compute in binary64)",
    "level_text": "Theorems (coq/props/C01.v) about the block-level Gallina model of one Shampoo step: refresh schedule <-> documented schedule, inverse roots held fixed between refreshes, parameter delta = -rnd32(lr) x direction, EMA/lerp and bias-correction identities, momentum/Nesterov/dampening recurrences, weight-decay modes, absent blocks and groups untouched / independent, default inheritance.  The model is tied to /repo on every run: for each generated configuration x history the model step is executed by coqc on the implementation's observed pre-state (all parameters, all checkpointable state, recorded matrix-oracle answers) and must reproduce the observed post-state and the oracle queries at 1e-9.",
    "level_note": "Trusted: Coq kernel + vm_compute; real-number axioms of the stdlib for theorems over R; the model is hand-written and believed as far as the per-step correspondence exercises it (binary64 parameters and factors only; other dtype pairings are exercised for errors only, in C03); matrix_inverse_root / matrix_eigenvectors are oracles whose answers are recorded (their own correctness is C10-C12); float32 bias-correction scalars are taken from the implementation's expression when within 1e-4 of the model's value.",
    "ready": True,
}

AMORT = [("shampoo", "eigen"), ("shampoo", "eigen_stab"), ("shampoo", "newton"), ("shampoo", "higher"), ("soap", "eigh"), ("soap", "qr")]
GRAFT = [None, "sgd", "adagrad", "rmsprop", "adam"]
SHAPES = [[], [1], [3], [5], [2, 3], [3, 4], [4, 1], [1, 4], [4, 4], [2, 3, 2], [3, 1, 2], [2, 2, 2], [2, 1, 3, 2], [2, 2, 2, 2], [1, 1], [6]]


def gen_cfg(rng, simple=False):
    kind, amort = rng.choice(AMORT)
    c = {"kind": kind, "amort": amort, "graft": rng.choice(GRAFT)}
    b1 = rng.choice([0.0, 0.5, 0.875])
    c["betas"] = (b1, rng.choice([1.0, 0.75, 0.5]))
    c["beta3"] = rng.choice([-1.0, 0.25, 0.0]) if b1 != 0.0 else -1.0
    c["biascorr"] = rng.random() < 0.6
    c["wd"] = rng.choice([0.0, 0.25])
    c["decoupled"] = rng.random() < 0.5
    c["momentum"] = rng.choice([0.0, 0.5])
    c["dampening"] = rng.choice([0.0, 0.25])
    c["nesterov"] = rng.random() < 0.5
    c["ignored"] = rng.choice([[], [], [], [0], [1], [0, 1, 2, 3]])
    c["override"] = 0 if c["ignored"] else rng.choice([0, 0, 1, 2, 3, [2, 1, 4, 3]])
    if amort in ("eigen", "eigen_stab"):
        c["expmult"] = rng.choice([1.0, 1.0, 0.5, 2.0])
    c["max_dim"] = rng.choice([1, 2, 3, 1024, 1024])
    c["merge"] = rng.random() < 0.6
    f = rng.choice([1, 2, 3])
    c["freq"] = f
    c["start"] = rng.choice([-1, f, f + 1, 5, math.inf])
    c["lr"] = rng.choice([0.125, 0.5, 0.03125, 0.1])
    c["eps"] = rng.choice([1e-2, 1e-3, 1e-4])   # larger ridge: keeps eps^(-1/root) <= 1e4 so that BLAS summation-order noise stays far below the 1e-9 tolerance
    # conditioning guard for the 1e-9 value tie: the largest entry of an inverse root is eps^(-expmult/root); keep it <= 1e4
    ov = c["override"]
    roots = [r for r in (ov if isinstance(ov, list) else [ov]) if r != 0] + ([2] if kind == "shampoo" else [2])
    worst = c.get("expmult", 1.0) / min(roots) if kind == "shampoo" else 1.0 / min(roots)
    c["eps"] = max(c["eps"], 10.0 ** (-4.0 / max(worst, 1e-9))) if worst > 1.0 else c["eps"]
    c["gbeta2"] = rng.choice([0.75, 0.5])
    c["geps"] = rng.choice([1e-3, 1e-8])
    c["qr_iters"] = rng.choice([1, 3])
    return c


def gen_presence(rng, nparams, nsteps):
    kinds = [rng.choice(["all", "all", "alt", "random", "never", "flip", "late"]) for _ in range(nparams)]
    rows = []
    for s in range(nsteps):
        row = []
        for k in kinds:
            row.append({"all": True, "alt": s % 2 == 0, "random": rng.random() < 0.6, "never": False,
                        "flip": (s // 1) % 2 == 1, "late": s >= nsteps // 2}[k])
        rows.append(row)
    return rows, kinds


def gen_case(rng, thorough=False):
    ngroups = 1 if rng.random() < 0.65 else 2
    groups = []
    c0 = gen_cfg(rng)
    for gi in range(ngroups):
        shapes = [rng.choice(SHAPES) for _ in range(rng.randint(1, 3))]
        if gi == 0:
            groups.append({"cfg": c0, "shapes": shapes})
        else:
            ov = {}
            for k in rng.sample(["lr", "betas", "momentum", "wd", "eps", "freq_start", "beta3", "max_dim", "nesterov"], rng.randint(0, 4)):
                if k == "betas":
                    b1 = rng.choice([0.0, 0.5])
                    ov["betas"] = (b1, rng.choice([1.0, 0.75]))
                elif k == "freq_start":
                    ov["freq"] = rng.choice([1, 2])
                    ov["start"] = rng.choice([2, 3])
                elif k == "beta3":
                    ov["beta3"] = rng.choice([0.25, 0.0])
                elif k == "lr":
                    ov["lr"] = rng.choice([0.25, 0.0625])
                elif k == "momentum":
                    ov["momentum"] = rng.choice([0.0, 0.75])
                elif k == "wd":
                    ov["wd"] = rng.choice([0.0, 0.5])
                elif k == "eps":
                    ov["eps"] = 1e-4
                elif k == "max_dim":
                    ov["max_dim"] = rng.choice([2, 1024])
                elif k == "nesterov":
                    ov["nesterov"] = not c0["nesterov"]
            groups.append({"overrides": ov, "shapes": shapes})
    nsteps = rng.randint(4, 10 if thorough else 7)
    pres = [gen_presence(rng, len(g["shapes"]), nsteps) for g in groups]
    steps = []
    for s in range(nsteps):
        ed = None
        if rng.random() < 0.12 and s > 0:
            gi = rng.randrange(ngroups)
            ed = [None] * ngroups
            which = rng.choice(["lr", "wd", "momentum"])
            eff = optrun.effective_cfg({"groups": groups}, gi)
            if which == "momentum" and eff["momentum"] == 0.0:
                which = "lr"
            ed[gi] = {which: {"lr": rng.choice([0.25, 0.0625, 0.0]), "wd": rng.choice([0.0, 0.125]), "momentum": 0.25}[which]}
        steps.append({"present": [pres[gi][0][s] for gi in range(ngroups)], "gseed": rng.randrange(1 << 30), "edits": ed})
    case = {"groups": groups, "init_seed": rng.randrange(1 << 30), "steps": steps, "presence_kinds": [p[1] for p in pres]}
    # gradient magnitude regimes (exact powers of two): tiny gradients make factor entries ~1e-10 (exact-zero tests such as
    # check_diagonal must not be replaced by tolerance tests); a large-gradient regime is not used: float noise in the rotated coordinates scales with it
    case["gscale"] = rng.choice([1.0, 1.0, 1.0, 1.0, 2.0 ** -17])
    # a present gradient that is exactly zero (not absent): factors must still decay, counters advance, momentum moves the block
    if rng.random() < 0.3 and nsteps >= 3:
        zs = rng.randrange(1, nsteps)
        gi = rng.randrange(ngroups)
        pi = rng.randrange(len(groups[gi]["shapes"]))
        steps[zs]["zero"] = [[gi, pi]]
        steps[zs]["present"][gi][pi] = True
    return condition_guard(case)


def condition_guard(case):
    """Keep the value tie well-conditioned: the search direction of an order-o Shampoo block is the gradient multiplied, mode after
    mode, by inverse roots whose entries reach eps^(-expmult/root); the float noise of BLAS summation order is amplified by the
    product over the modes.  Raise eps until eps^(-sum of exponents) <= 1e4 for every shape (and every order it can be merged to) (the formulas under test do
    not depend on eps)."""
    need = 0.0
    for gi, g in enumerate(case["groups"]):
        c = optrun.effective_cfg(case, gi)
        for sh in g["shapes"]:
            # merging may reduce the order of a block, and the root depends on the order: take the worst over all possible orders
            for order in range(1, max(1, len(sh)) + 1):
                if c.get("kind", "shampoo") == "soap":
                    E = 0.5
                else:
                    ov = c["override"]
                    if isinstance(ov, (list, tuple)):
                        root = ov[order] if order < len(ov) else 2 * order
                    else:
                        root = ov if ov != 0 else 2 * order
                    root = max(root, 1)
                    mult = c.get("expmult", 1.0) if c.get("amort", "eigen") in ("eigen", "eigen_stab") else 1.0
                    E = order * mult / root
                need = max(need, 10.0 ** (-4.0 / E))
    need = min(need, 0.5)
    c0 = case["groups"][0]["cfg"]
    c0["eps"] = max(c0["eps"], need)
    for g in case["groups"][1:]:
        if "eps" in g.get("overrides", {}):
            g["overrides"]["eps"] = max(g["overrides"]["eps"], need)
    return case


def impl_worker(case):
    try:
        recs, _, _ = optrun.run_case(case)
    except Exception as e:  # noqa  (constructor rejected the configuration, ...)
        return {"error": f"{type(e).__name__}: {e}"[:300]}
    out = []
    for si, row in enumerate(recs):
        for gi, r in enumerate(row):
            out.append({"step": si, "group": gi, "term": optrun.cstep(r), "error": r["error"], "ncalls": len(r["calls"]),
                        "failed_calls": sum(1 for c in r["calls"] if c["ans"] is None), "t_after": r["after"]["t"],
                        "start": r["cfg"]["start"], "untagged": len(r["untagged"])})
    return {"rows": out}


def evaluate(ck: Check, cases, tag="c01"):
    """Run the implementation on all cases, evaluate every step in coqc.  Returns per case the list of
    (row, verdict string) and the construction errors."""
    common.assert_repo_imports()
    with mp.get_context("fork").Pool(16) as pool:
        results = pool.map(impl_worker, cases, chunksize=1)
    files, cur, cur_size, index = {}, [], 0, []
    for ci, res in enumerate(results):
        if "error" in res:
            continue
        for ri, row in enumerate(res["rows"]):
            if row["error"]:
                continue
            cur.append(row["term"])
            index.append((ci, ri))
            cur_size += len(row["term"])
            if cur_size > 600_000 or len(cur) >= 120:
                files[f"{tag}_{len(files):04d}"] = cur
                cur, cur_size = [], 0
    if cur:
        files[f"{tag}_{len(files):04d}"] = cur
    out = ck.eval_coq({n: optrun.coq_file(ts) for n, ts in files.items()}, timeout=1200)
    verdicts = []
    for n in files:
        v = out[n]
        assert len(v) == len(files[n]), (n, len(v), len(files[n]))
        verdicts += v
    per_case = [[] for _ in cases]
    for (ci, ri), v in zip(index, verdicts):
        per_case[ci].append((results[ci]["rows"][ri], v))
    return results, per_case


def shrink(ck: Check, case, step, group):
    """Greedy shrink of a failing case: fewer steps, fewer groups/params, default hyperparameters."""
    def fails(c):
        try:
            res, per = evaluate(ck, [c], tag="shr")
        except Exception:  # noqa
            return None
        for row, v in per[0]:
            if "F" in v:
                return (row["step"], row["group"], v)
        return None

    best = copy.deepcopy(case)
    best["steps"] = best["steps"][: step + 1]
    f = fails(best)
    if f is None:
        return case, None
    budget = 24
    changed = True
    while changed and budget > 0:
        changed = False
        cands = []
        if len(best["steps"]) > 1:
            cands.append(("drop first step", lambda c: c.update(steps=c["steps"][1:])))
        for gi, g in enumerate(best["groups"]):
            if len(g["shapes"]) > 1:
                for pi in range(len(g["shapes"])):
                    def drop(c, gi=gi, pi=pi):
                        c["groups"][gi]["shapes"].pop(pi)
                        for s in c["steps"]:
                            s["present"][gi].pop(pi)
                    cands.append((f"drop param {gi}.{pi}", drop))
        if len(best["groups"]) > 1:
            def dropg(c):
                c["groups"].pop()
                for s in c["steps"]:
                    s["present"].pop()
                    if s.get("edits"):
                        s["edits"].pop()
            cands.append(("drop last group", dropg))
        c0 = best["groups"][0]["cfg"]
        for k, v in (("momentum", 0.0), ("wd", 0.0), ("graft", None), ("betas", (0.0, 1.0)), ("max_dim", 1024), ("ignored", []),
                     ("override", 0), ("nesterov", False), ("dampening", 0.0), ("expmult", 1.0), ("amort", "eigen" if c0.get("kind") != "soap" else "eigh")):
            if c0.get(k) != v:
                def setk(c, k=k, v=v):
                    c["groups"][0]["cfg"][k] = v
                    if k == "betas":
                        c["groups"][0]["cfg"]["beta3"] = -1.0
                cands.append((f"{k}->{v}", setk))
        for name, fn in cands:
            if budget <= 0:
                break
            c = copy.deepcopy(best)
            try:
                fn(c)
            except Exception:  # noqa
                continue
            budget -= 1
            r = fails(c)
            if r is not None:
                best, f, changed = c, r, True
                break
    return best, f


def describe(v: str) -> list[str]:
    return [optrun.COMPONENTS[i] for i, ch in enumerate(v) if ch != "T"]


def run(ck: Check) -> None:
    ck.coq_props(extra_targets=["exec/RunOpt.vo"])
    gen_targets.run(ck)          # translator tie: Gallina regenerated from the source + coq/gen/EquivC01.v
    thorough = ck.tier == "thorough"
    ncases = 1500 if thorough else 400
    cases = []
    corpus = common.ROOT / "corpus" / "C01"
    if corpus.exists():
        for f in sorted(corpus.glob("*.json")):
            cases.append(json.loads(f.read_text())["case"])
    ncorpus = len(cases)
    cases += [gen_case(ck.rng, thorough) for _ in range(ncases)]
    results, per_case = evaluate(ck, cases)

    nsteps = nontrivial = ctor_err = step_err = 0
    hist = {"kind": {}, "graft": {}, "groups": {}, "orders": {}, "presence": {}, "refresh_steps": 0, "non_refresh_steps_after_start": 0,
            "failed_oracle_calls": 0, "steps_with_step_error": 0}
    failures = []
    for ci, (case, res, pc) in enumerate(zip(cases, results, per_case)):
        if "error" in res:
            ctor_err += 1
            continue
        c0 = case["groups"][0]["cfg"]
        hist["kind"][f"{c0['kind']}/{c0['amort']}"] = hist["kind"].get(f"{c0['kind']}/{c0['amort']}", 0) + 1
        hist["graft"][str(c0["graft"])] = hist["graft"].get(str(c0["graft"]), 0) + 1
        hist["groups"][str(len(case["groups"]))] = hist["groups"].get(str(len(case["groups"])), 0) + 1
        for g in case["groups"]:
            for sh in g["shapes"]:
                hist["orders"][str(len(sh))] = hist["orders"].get(str(len(sh)), 0) + 1
        for ks in case.get("presence_kinds", []):
            for k in ks:
                hist["presence"][k] = hist["presence"].get(k, 0) + 1
        has_refresh = has_plain = False
        for row in res["rows"]:
            if row["error"]:
                hist["steps_with_step_error"] += 1
        for row, v in pc:
            nsteps += 1
            hist["failed_oracle_calls"] += row["failed_calls"]
            if row["ncalls"] > 0:
                has_refresh = True
                hist["refresh_steps"] += 1
            elif row["t_after"] >= (row["start"] if not (isinstance(row["start"], float) and math.isinf(row["start"])) else 10 ** 15):
                has_plain = True
                hist["non_refresh_steps_after_start"] += 1
            if "F" in v:
                failures.append((ci, row, v))
        if has_refresh and has_plain:
            nontrivial += 1

    if failures:
        # one report per distinct set of failing components, each shrunk
        seen = set()
        for ci, row, v in failures:
            key = tuple(describe(v))
            if key in seen or len(seen) >= 3:
                continue
            seen.add(key)
            small, f = shrink(ck, cases[ci], row["step"], row["group"])
            comp = describe(f[2]) if f else list(key)
            sig = classify(small)
            ck.report(sig, f"step {f[0] if f else row['step']} of group {f[1] if f else row['group']} does not follow the documented update rule: "
                           f"model step from the observed pre-state disagrees with the observed post-state in {comp}",
                      {"kind": "property-fails", "case": small, "failing_step": f[0] if f else row["step"], "group": f[1] if f else row["group"],
                       "components": comp, "original_case_index": ci, "n_failing_steps": len(failures),
                       "predicate": "RunOpt.step_ok (one Optimizer.group_step from the observed state, tol 1e-9)"})

    # other dtype pairings: errors / dtype tags / loose bound only
    # preconditioner_dtype float32 / float64 only: PyTorch has no bfloat16 kernels for eigh/qr and the iterative solvers are not
    # meant for 8 bits of mantissa (C03 records the QR/bfloat16 case as known finding F11); direct solvers only, so that a raised
    # error is never a legitimate non-convergence
    pairs = [(a, b) for a in ("float32", "float64", "bfloat16") for b in ("float32", "float64")]
    dcases = [c for c in cases[ncorpus:] if "error" not in results[cases.index(c)]
              and c["groups"][0]["cfg"]["amort"] in ("eigen", "eigen_stab", "eigh", "qr")][: (6 if not thorough else 30)]
    for c in dcases:
        c["groups"][0]["cfg"]["eps"] = max(c["groups"][0]["cfg"]["eps"], 1e-2)
    jobs = [(c, a, b) for c in dcases for a, b in pairs]
    with mp.get_context("fork").Pool(16) as pool:
        dres = pool.map(dtype_worker, jobs, chunksize=1)
    dt_hist = {}
    for (c, a, b), r in zip(jobs, dres):
        key = f"{a}/{b}"
        dt_hist.setdefault(key, {"runs": 0, "max_dev": 0.0})
        dt_hist[key]["runs"] += 1
        if r["dev"] == r["dev"] and r["dev"] != float("inf"):
            dt_hist[key]["max_dev"] = max(dt_hist[key]["max_dev"], round(r["dev"], 6))
        # the deviation from the float64 run is RECORDED only (eigenbases are not unique, so trajectories may legitimately differ at
        # lower precision); the verdict is: no exception, finite parameters, documented dtype tags - and float64/float64 reproduces itself
        bad_val = (r["dev"] != r["dev"]) or r["dev"] == float("inf") or ((a, b) == ("float64", "float64") and r["dev"] > 1e-9)
        if r["error"] or r["bad_dtypes"] or bad_val:
            ck.report(None, f"dtype pairing param={a} preconditioner={b}: " + (r["error"] or "; ".join(r["bad_dtypes"][:3]) or f"non-finite parameters or float64 run not reproducible (deviation {r['dev']:.3g})"),
                      {"kind": "dtype-pairing", "case": c, "param_dtype": a, "preconditioner_dtype": b, "result": r})

    gen = cases[ncorpus:]
    audit = {
        "tensor order 0": sum(1 for c in gen for g in c["groups"] for sh in g["shapes"] if len(sh) == 0),
        "tensor order 1": sum(1 for c in gen for g in c["groups"] for sh in g["shapes"] if len(sh) == 1),
        "tensor order 2": sum(1 for c in gen for g in c["groups"] for sh in g["shapes"] if len(sh) == 2),
        "tensor order 3": sum(1 for c in gen for g in c["groups"] for sh in g["shapes"] if len(sh) == 3),
        "tensor order 4": sum(1 for c in gen for g in c["groups"] for sh in g["shapes"] if len(sh) == 4),
        "size-1 dimensions": sum(1 for c in gen for g in c["groups"] for sh in g["shapes"] if 1 in sh),
        "two param groups": sum(1 for c in gen if len(c["groups"]) == 2),
        "group leaving beta3/start unset while overriding betas/freq": sum(1 for c in gen for g in c["groups"][1:] if ("betas" in g.get("overrides", {}) and "beta3" not in g["overrides"]) or ("freq" in g.get("overrides", {}))),
        "lr/wd/momentum edited between steps": sum(1 for c in gen if any(s.get("edits") for s in c["steps"])),
        "some gradient absent at some step": sum(1 for c in gen if any(not all(row) for s in c["steps"] for row in s["present"])),
        "all gradients of a group absent at some step": sum(1 for c in gen if any(not any(row) for s in c["steps"] for row in s["present"])),
        "present gradient exactly zero": sum(1 for c in gen if any(s.get("zero") for s in c["steps"])),
        "tiny gradients (2^-17)": sum(1 for c in gen if c.get("gscale", 1.0) != 1.0),
        "blocked parameters (max_preconditioner_dim <= 3)": sum(1 for c in gen if c["groups"][0]["cfg"]["max_dim"] <= 3),
        "merge dims off": sum(1 for c in gen if not c["groups"][0]["cfg"]["merge"]),
        "ignored dims set": sum(1 for c in gen if c["groups"][0]["cfg"]["ignored"]),
        "all dims ignored": sum(1 for c in gen if len(c["groups"][0]["cfg"]["ignored"]) == 4),
        "inverse-root override int": sum(1 for c in gen if isinstance(c["groups"][0]["cfg"]["override"], int) and c["groups"][0]["cfg"]["override"] != 0),
        "inverse-root override per-order list": sum(1 for c in gen if isinstance(c["groups"][0]["cfg"]["override"], list)),
        "exponent multiplier != 1": sum(1 for c in gen if c["groups"][0]["cfg"].get("expmult", 1.0) != 1.0),
        "start step not a multiple of the frequency": sum(1 for c in gen if isinstance(c["groups"][0]["cfg"]["start"], int) and c["groups"][0]["cfg"]["start"] > 0 and c["groups"][0]["cfg"]["start"] % c["groups"][0]["cfg"]["freq"] != 0),
        "start step = inf (grafting only)": sum(1 for c in gen if isinstance(c["groups"][0]["cfg"]["start"], float)),
        "beta1 = 0 / beta1 > 0 with beta3 != beta1": [sum(1 for c in gen if c["groups"][0]["cfg"]["betas"][0] == 0.0), sum(1 for c in gen if c["groups"][0]["cfg"]["betas"][0] != 0.0 and c["groups"][0]["cfg"]["beta3"] not in (-1.0, c["groups"][0]["cfg"]["betas"][0]))],
        "beta2 = 1 / < 1": [sum(1 for c in gen if c["groups"][0]["cfg"]["betas"][1] == 1.0), sum(1 for c in gen if c["groups"][0]["cfg"]["betas"][1] < 1.0)],
        "momentum with dampening and Nesterov": sum(1 for c in gen if c["groups"][0]["cfg"]["momentum"] and c["groups"][0]["cfg"]["dampening"] and c["groups"][0]["cfg"]["nesterov"]),
        "coupled / decoupled weight decay": [sum(1 for c in gen if c["groups"][0]["cfg"]["wd"] and not c["groups"][0]["cfg"]["decoupled"]), sum(1 for c in gen if c["groups"][0]["cfg"]["wd"] and c["groups"][0]["cfg"]["decoupled"])],
        "bias correction off": sum(1 for c in gen if not c["groups"][0]["cfg"]["biascorr"]),
    }
    ck.coverage.update({
        "quantifier_audit": audit,
        "not_exercised": ["value-level tie for dtypes other than float64 (errors / dtype tags only)", "bfloat16 preconditioner_dtype and iterative solvers in the dtype sweep (no kernels / legitimate non-convergence)",
                          "gradients with non-default memory layout (C05 covers the blocking of such gradients)", "histories longer than 10 steps"],
        "dtype_pairings": dt_hist,
        "evaluations": nsteps,
        "distinct_nontrivial": nontrivial,
        "rule": "random configurations (preconditioner kind x solver, grafting, betas/beta3, bias correction, decay value/mode, momentum/dampening/Nesterov, root override, exponent multiplier, ignored dims, max_preconditioner_dim, merge, frequency/start, 1-2 groups with overrides, lr/wd/momentum edits) x parameter sets of orders 0..4 x histories of 4-10 steps with absent gradients; evaluation = one (step, group) compared inside coqc; non-trivial = a case with at least one refresh step (oracle called) and one non-refresh step at or after the start step",
        "samples": [{"cfg": cases[i]["groups"][0]["cfg"], "shapes": [g["shapes"] for g in cases[i]["groups"]], "steps": len(cases[i]["steps"])} for i in (ncorpus, min(len(cases) - 1, ncorpus + 1), len(cases) - 1)],
        "distribution": hist, "cases": len(cases), "corpus_cases": ncorpus, "constructor_errors": ctor_err, "disagreeing_steps": len(failures),
        "exhaustive": False,
    })
    ck.assumptions += ["binary64 parameters and preconditioner_dtype only", "oracle answers recorded from the implementation's own matrix routines",
                       "steps that raise (failure tolerance exceeded, non-finite factor) are excluded here and covered by C13"]
    ck.gen_equiv_verdict()


def dtype_worker(args):
    """Control-flow / dtype-tag tie for the other dtype pairings: the step must not raise, parameters stay finite and state tensors
    carry the documented dtypes (values are NOT tied at these precisions; the deviation from the float64 run is only recorded)."""
    import logging
    import torch
    logging.disable(logging.CRITICAL)
    case, pdt, fdt = args
    pd, fd = getattr(torch, pdt), getattr(torch, fdt)
    from distributed_shampoo.utils.shampoo_preconditioner_list import ADAGRAD, SHAMPOO
    from distributed_shampoo.shampoo_types import FILTERED_GRAD, MOMENTUM
    out = {"pdt": pdt, "fdt": fdt, "error": None, "bad_dtypes": [], "dev": 0.0}
    try:
        ref_params = optrun.build_params(case)
        ref = optrun.build_optimizer(case, ref_params)
        params = [[torch.nn.Parameter(p.detach().to(pd)) for p in g] for g in ref_params]
        opt = optrun.build_optimizer(case, params, dtype=fd)
        for step in case["steps"]:
            optrun.set_grads(case, ref_params, step)
            for g, rg in zip(params, ref_params):
                for p, rp in zip(g, rg):
                    p.grad = None if rp.grad is None else rp.grad.to(pd)
            ref.step()
            opt.step()
        for gi in range(len(params)):
            blocks, infos = optrun.group_handles(opt, gi)
            for blk, info in zip(blocks, infos):
                bs = opt.state[info.param][info.composable_block_ids[1]]
                kf = bs[SHAMPOO]
                want = [(m.dtype, fd, "factor_matrices") for m in kf.factor_matrices]
                want += [(m.dtype, pd, "inv_or_eigvecs") for m in getattr(kf, "inv_factor_matrices", getattr(kf, "factor_matrices_eigenvectors", ()))]
                for key in (ADAGRAD, FILTERED_GRAD, MOMENTUM):
                    if key in bs:
                        want.append((bs[key].dtype, pd, key))
                out["bad_dtypes"] += [f"{n}: {a} != {b}" for a, b, n in want if a != b]
        dev = 0.0
        for g, rg in zip(params, ref_params):
            for p, rp in zip(g, rg):
                if not torch.isfinite(p).all():
                    dev = float("inf")
                else:
                    dev = max(dev, float((p.double() - rp).abs().max() / (1.0 + rp.abs().max())))
        out["dev"] = dev
    except Exception as e:  # noqa
        out["error"] = f"{type(e).__name__}: {e}"[:300]
    return out


def classify(case) -> str | None:
    """Stable signature of known findings, computed from the input."""
    c = case["groups"][0]["cfg"]
    b1 = c["betas"][0]
    beta3 = c.get("beta3", -1.0)
    if b1 != 0.0 and (beta3 == -1.0 or beta3 == b1) and not c.get("biascorr", True):
        return "C01:filtered-grad-state-aliased"
    return None


def replay(obj) -> bool:
    case = obj["case"]
    recs, _, _ = optrun.run_case(case)
    for row in recs:
        for r in row:
            print("step error" if r["error"] else "ok", r["after"]["t"], [b["w"][:3] for b in r["after"]["blocks"]])
    return True
