import json
import sys

from harness import common


def main() -> int:
    if len(sys.argv) < 2:
        print(__doc__ or "usage: ./check CXX [--tier quick|thorough] | build | replay <file>")
        return 2
    cmd = sys.argv[1]
    if cmd == "build":
        bad = common.scan_forbidden()
        ok, log = common.coq_build(verbose=True)
        for b in bad:
            print("FORBIDDEN:", b)
        print("coq build:", "ok" if ok else "FAILED")
        return 0 if ok and not bad else 1
    if cmd == "replay":
        import importlib
        obj = json.loads(open(sys.argv[2]).read())
        mod = importlib.import_module(f"harness.{obj['property'].lower()}")
        if not hasattr(mod, "replay"):
            print("no replay function for", obj["property"])
            return 2
        return int(bool(mod.replay(obj)))
    return common.run_property(cmd)


if __name__ == "__main__":
    sys.exit(main())
