import json
import sys

from harness import common


def main() -> int:
    if len(sys.argv) < 2:
        print(__doc__ or "usage: ./check CXX [--tier quick|thorough] | build | replay <file>")
        return 2
    cmd = sys.argv[1]
    if cmd == "build":
        bad = common.scan_forbidden()
        ok, log = common.coq_build(verbose=True)
        for b in bad:
            print("FORBIDDEN:", b)
        print("coq build:", "ok" if ok else "FAILED")
        # translator tie: regenerate Gallina from the source under VERIF_REPO and check the committed coq/gen/Equiv*.v against it
        import shutil
        from harness import gen_targets
        gen_ok = True
        for pid, (name, equiv, _, _) in sorted(gen_targets.SPECS.items()):
            wd = common.WORK / f"build-gen-{pid}"
            r = common.gen_equiv_compile(wd, name, lambda pid=pid: gen_targets.generate(pid), equiv, extra_libs=gen_targets.libs(pid))
            shutil.rmtree(wd, ignore_errors=True)
            print(f"coq/gen/{equiv} against {name} generated from {common.REPO}:", f"ok ({len(r['theorems'])} theorems, {r['wall_s']}s)" if r["ok"] else "FAILED")
            for b in r["broken"]:
                print("  ", b[:1500])
            gen_ok = gen_ok and r["ok"]
        return 0 if ok and not bad and gen_ok else 1
    if cmd == "coqchk":
        # independent re-check of every compiled property file (and all it depends on) + the axioms they rely on
        import subprocess
        from pathlib import Path
        ok, _ = common.coq_build()
        mods = ["ShampooProps." + f.stem for f in sorted((common.COQ / "props").glob("*.v"))]
        r = subprocess.run(["timeout", "3000", "coqchk", "-silent", "-o", "-Q", "theories", "Shampoo", "-Q", "props", "ShampooProps",
                            "-Q", "exec", "ShampooExec", *mods], cwd=common.COQ, capture_output=True, text=True)
        report = f"$ coqchk -silent -o ... {' '.join(mods)}\nexit={r.returncode}\n" + r.stdout + r.stderr
        print((r.stdout + r.stderr)[-1500:])
        # the translator tie: Gen*.v regenerated from the source under VERIF_REPO into a scratch dir, compiled there together with
        # coq/gen/PyPrelude*.v and the committed Equiv*.v, then re-checked by coqchk like the property files
        import shutil
        from harness import gen_targets
        wd = common.WORK / "coqchk-gen"
        shutil.rmtree(wd, ignore_errors=True)
        gmods, gen_ok = [], True
        for pid, (name, equiv, _, _) in sorted(gen_targets.SPECS.items()):
            g = common.gen_equiv_compile(wd, name, lambda pid=pid: gen_targets.generate(pid), equiv, extra_libs=gen_targets.libs(pid))
            gen_ok = gen_ok and g["ok"]
            if g["ok"]:
                gmods.append("ShampooGen." + Path(equiv).stem)
            else:
                report += f"\ncoq/gen/{equiv}: NOT COMPILED: {g['broken'][:1]}\n"
        r2 = subprocess.run(["timeout", "3000", "coqchk", "-silent", "-o", "-Q", "theories", "Shampoo", "-Q", "props", "ShampooProps",
                             "-Q", "exec", "ShampooExec", "-Q", str(wd / "gen"), "ShampooGen", *gmods], cwd=common.COQ, capture_output=True, text=True)
        report += (f"\n$ coqchk -silent -o ... -Q <scratch>/gen ShampooGen {' '.join(gmods)}   "
                   f"(Gen*.v generated from {common.REPO} by tools/py2coq.py, Equiv*.v = coq/gen/)\nexit={r2.returncode}\n" + r2.stdout + r2.stderr)
        print((r2.stdout + r2.stderr)[-1500:])
        shutil.rmtree(wd, ignore_errors=True)
        (common.ROOT / "coqchk_report.txt").write_text(report)
        return 0 if (ok and r.returncode == 0 and gen_ok and r2.returncode == 0) else 1
    if cmd == "replay":
        import importlib
        obj = json.loads(open(sys.argv[2]).read())
        mod = importlib.import_module(f"harness.{obj['property'].lower()}")
        if not hasattr(mod, "replay"):
            print("no replay function for", obj["property"])
            return 2
        return int(bool(mod.replay(obj)))
    return common.run_property(cmd)


if __name__ == "__main__":
    sys.exit(main())
