"""C14 - block-to-rank assignment, gather-buffer layout, selectors and state placement (three copies:
DDPDistributor, HSDPDistributor, HybridShardDistributor) vs the Coq model Assign.v.

Three case streams, each compared with the model inside coqc:
  A  `_distribute_buffer_sizes` called on `__new__`-constructed instances (only the group-size attribute set):
     exhaustive small scope + random; the same (input, output) pair coming from several copies is evaluated once;
  B  `_construct_distributed_buffers` on hand-built instances (blocks, selector, group size set by hand; the
     assignment fed to it is the instance's own `_distribute_buffer_sizes` result, as `__init__` does): byte offsets
     (`data_ptr - base`) and lengths of all typed views, size of the gather buffer, local buffer;
  C  full constructors of the three distributors, run sequentially for every rank of one replication group with the
     module names of DESIGN Appendix B.2 replaced by sequential stand-ins (no process group, no thread: a
     constructor issues no collective): `_distributor_selector`, `group_source_rank` and the device-mesh ranks handed
     to `dtensor_zeros` by `allocate_zeros_tensor` for every local block, and the buffers again.
"""
from __future__ import annotations

import itertools
import math
import time
import multiprocessing as mp
from types import SimpleNamespace
from unittest import mock

from harness import common, gen_targets
from harness.common import Check, coq_bool

META = {
    "property_id": "C14",
    "design_ref": "DESIGN.md §4 C14",
    "technique": "Coq proof (induction over the greedy loop; Graham's 4/3 bound by a double-counting argument; layout by prefix sums) + correspondence of the Gallina model with the three copies of the code evaluated by vm_compute (exhaustive small scope + random), certified checker on the implementation's output",
    "level_text": "Theorems for ANY list of byte sizes and ANY group size >= 1 on the Gallina model of _distribute_buffer_sizes / _construct_distributed_buffers / _split_local_dist_buffers / _distributor_selector / _allocate_zeros_distributed_tensor: every block gets its aligned size and one rank < gs; the result is the unique output of 'largest first (ties in block order) to the lexicographically least (load, rank)', for any heap implementation meeting heapq's contract; load gap <= largest aligned block; max load <= average + (1-1/gs) largest; Graham's bound in the sharp form 3*gs*max_load <= (4*gs-1)*max_load(b) for EVERY assignment b (hence 4/3, fully proved, no _partial); slots lie in the owner's segment, are >= the block bytes, multiples of 64, 64-aligned and pairwise disjoint; selectors partition the blocks; state meshes hold exactly the owner's position of every group. The model is tied to the three copies (DDP, HSDP, HybridShard) exactly, inside coqc.",
    "level_note": "Trusted: Coq kernel+vm_compute; the hand-written model (checked against the code on the enumerated/random inputs only); heapq.heappop/heappush and sorted(reverse=True) stability enter as the model's pop_min/sort_desc (heap implementation proved irrelevant under its contract); torch.split/view/data_ptr as observed; for stream C the sequential stand-ins for dist/get_device_mesh/dtensor_zeros/_mesh_resources written in this harness (they reproduce DeviceMesh group semantics; a wrong stand-in could hide a defect of the real runtime). The brute-force optimum comparison (<= 7 blocks) is numerical evidence, not part of the proof.",
    "ready": True,
}

COPIES = ("ddp", "hsdp", "hybrid")
DSIZE = {"fp32": 4, "fp16": 2, "bf16": 2}
V8 = (0, 1, 63, 64, 65, 127, 128, 130)          # byte sizes: ties after alignment, values around multiples of 64
V6 = (1, 64, 65, 128, 129, 256)
N6 = (1, 15, 16, 17, 32, 33)                     # numels: 4*n and 2*n around multiples of 64




# --------------------------------------------------------------------------------------
# implementation drivers (run in worker processes)


def _classes():
    from distributed_shampoo.utils.shampoo_ddp_distributor import DDPDistributor
    from distributed_shampoo.utils.shampoo_hsdp_distributor import HSDPDistributor
    from distributed_shampoo.utils.shampoo_hybrid_shard_distributor import HybridShardDistributor
    return {"ddp": (DDPDistributor, "_group_size"), "hsdp": (HSDPDistributor, "_dist_group_size"),
            "hybrid": (HybridShardDistributor, "_dist_group_size")}


def _torch_dtype(dt):
    import torch
    return {"fp32": torch.float32, "fp16": torch.float16, "bf16": torch.bfloat16}[dt]


PARAM_DTS = ("fp32", "bf16", "fp16", "f64")
_STUB_BLOCKS = {}


def _param_dtype(pd):
    import torch
    return {"fp32": torch.float32, "bf16": torch.bfloat16, "fp16": torch.float16, "f64": torch.float64}[pd]


def stub_param_dt(sizes, gs):
    """storage dtype of the (single) parameter block the stream-A stub carries: varies with the input so that every dtype
    meets every group size and block count"""
    return PARAM_DTS[(len(sizes) + gs) % 4]


def _call_assign(cls, attr, gs, sizes, d=None):
    import torch
    if d is None:
        d = cls.__new__(cls)
    setattr(d, attr, gs)
    pd = stub_param_dt(sizes, gs)
    if pd not in _STUB_BLOCKS:
        _STUB_BLOCKS[pd] = (torch.zeros(1, dtype=_param_dtype(pd)),)
    d._global_blocked_params = _STUB_BLOCKS[pd]      # the unchanged code does not read it here
    try:
        r = d._distribute_buffer_sizes(tuple(sizes))
        return tuple((int(a), int(b)) for a, b in r)
    except IndexError:
        return "IndexError"
    except Exception as ex:  # noqa
        return "Other:" + type(ex).__name__


def impl_assign(chunk):
    cl = _classes()
    return [[_call_assign(*cl[c], gs, sizes) for c in COPIES] for sizes, gs in chunk]


def impl_assign_history(chunk):
    """chunk: list of call sequences [(sizes, gs), ...].  Every sequence is executed in order in this process, on one instance
    per copy that is REUSED for all calls of the sequence (and the process has run other calls before): the result of a call
    must not depend on the calls made earlier."""
    cl = _classes()
    res = []
    for seq in chunk:
        inst = {c: cl[c][0].__new__(cl[c][0]) for c in COPIES}
        res.append([[_call_assign(*cl[c], gs, sizes, d=inst[c]) for c in COPIES] for sizes, gs in seq])
    return res


def _packable(o, n):
    """every entry can be sent as aligned + rank (aligned a non-negative multiple of 64, 0 <= rank < 64)"""
    return (not isinstance(o, str)) and len(o) == n and all(0 <= r < 64 and a >= 0 and a % 64 == 0 for a, r in o)


def _flatable(o, n):
    return (not isinstance(o, str)) and len(o) == n and all(0 <= r < 2 ** 62 and 0 <= a < 2 ** 62 for a, r in o)


def impl_assign_blocks(chunk):
    """chunk: list of (prefix, vals, k, gs).  Per block and copy: (w, one packed integer per case, in itertools.product order), or the
    explicit list of outputs if some output cannot be packed."""
    cl = _classes()
    res = []
    for prefix, vals, k, gs in chunk:
        inputs = [prefix + t for t in itertools.product(vals, repeat=k)]
        per = {}
        for c in COPIES:
            outs = [_call_assign(*cl[c], gs, s) for s in inputs]
            n = len(prefix) + k
            w = 0
            if all(_packable(o, len(s)) for o, s in zip(outs, inputs)):
                w = max([1] + [(a + r).bit_length() for o in outs for a, r in o])
            if w and n * w <= 62:       # one integer per case: entry i in bits [w*i, w*(i+1))
                per[c] = ("packed", (w, tuple(sum((a + r) << (w * i) for i, (a, r) in enumerate(o)) for o in outs)))
            elif all(_flatable(o, len(s)) for o, s in zip(outs, inputs)):
                per[c] = ("flat", tuple(outs))
            else:
                per[c] = ("explicit", tuple(outs))
        res.append(per)
    return res


def _shape_of(n):
    for p in (4, 3, 2):
        if n % p == 0 and n > p:
            return (p, n // p)
    return (n,)


def _same_view(a, b):
    return a.data_ptr() == b.data_ptr() and tuple(a.shape) == tuple(b.shape) and a.dtype == b.dtype and a.stride() == b.stride()


def _observe_buffers(d, dtype, me):
    """(flags_ok, views, total, local) of an instance whose _construct_distributed_buffers has run."""
    import torch  # noqa
    g = d._global_dist_buffer
    base = g.data_ptr()
    st = g.untyped_storage().data_ptr()
    ok = g.dtype == torch.int8 and g.dim() == 1
    views = []
    for buf, blk in zip(d._global_dist_blocked_buffers, d._global_blocked_params, strict=True):
        ok = ok and buf.dtype == dtype and tuple(buf.shape) == tuple(blk.shape) and buf.is_contiguous()
        ok = ok and buf.untyped_storage().data_ptr() == st
        views.append((int(buf.data_ptr() - base), int(buf.numel() * buf.element_size())))
    sel = d._distributor_selector
    loc = [b for b, s in zip(d._global_dist_blocked_buffers, sel) if s]
    ok = ok and len(loc) == len(d._local_dist_blocked_buffers) and all(_same_view(a, b) for a, b in zip(loc, d._local_dist_blocked_buffers))
    lb = d._local_dist_buffer
    ok = ok and lb.untyped_storage().data_ptr() == st and lb.dtype == torch.int8
    return bool(ok), views, int(g.numel()), (int(lb.data_ptr() - base), int(lb.numel()))


def _make_block(n, pd, noncontig):
    """a block as multi_dim_split would hand it out: a view of a parameter (possibly a non-contiguous column slice)"""
    import torch
    shape = _shape_of(n)
    if noncontig and len(shape) == 2:
        return torch.zeros(shape[0], 2 * shape[1], dtype=_param_dtype(pd))[:, :shape[1]]
    return torch.zeros(n, dtype=_param_dtype(pd)).view(shape)


def _run_buffers(copy, numels, dt, gs, me, pd="fp32", noncontig=False):
    import torch
    from distributed_shampoo.utils.shampoo_utils import get_dtype_size
    cls, attr = _classes()[copy]
    dtype = _torch_dtype(dt)
    d = cls.__new__(cls)
    setattr(d, attr, gs)
    try:
        d._global_blocked_params = tuple(_make_block(n, pd, noncontig) for n in numels)
        bsr = d._distribute_buffer_sizes(tuple(b.numel() * get_dtype_size(dtype) for b in d._global_blocked_params))
        d._distributor_selector = tuple(r == me for _, r in bsr)
        kw = {"group_rank": me} if copy == "ddp" else {"comms_group_rank": me}
        d._construct_distributed_buffers(buffer_size_ranks=bsr, communication_dtype=dtype, **kw)
        ok, views, total, local = _observe_buffers(d, dtype, me)
        return {"ok": ok, "bsr": [(int(a), int(b)) for a, b in bsr], "views": views, "total": total, "local": local}
    except Exception as ex:  # noqa
        return {"exc": type(ex).__name__ + ": " + str(ex)[:200]}


def impl_buffers(chunk):
    return [[_run_buffers(c, numels, dt, gs, me, pd, nc) for c in COPIES] for numels, dt, gs, me, pd, nc in chunk]


# ---- stream C: sequential stand-ins for the names of DESIGN Appendix B.2 ----


class _Grp:
    def __init__(self, ranks):
        self.ranks = tuple(int(r) for r in ranks)


class _Sim:
    """One simulated process at a time: `rank` is the global rank whose constructor is running."""

    def __init__(self, world):
        self.world, self.rank = world, 0
        self.WORLD = _Grp(range(world))


class _FakeMesh:
    def __init__(self, sim, device_type, mesh, names=None):
        import torch
        self._sim, self.device_type = sim, device_type
        self.mesh = mesh.clone() if isinstance(mesh, torch.Tensor) else torch.tensor(mesh)
        self.mesh_dim_names = tuple(names) if names is not None else None

    @property
    def ndim(self):
        return self.mesh.dim()

    def size(self, d=None):
        return self.mesh.numel() if d is None else self.mesh.size(d)

    def _dim(self, d):
        return d if isinstance(d, int) else self.mesh_dim_names.index(d)

    def _coords(self):
        pos = (self.mesh == self._sim.rank).nonzero()
        if len(pos) == 0:
            raise RuntimeError(f"rank {self._sim.rank} is not part of mesh {self.mesh.tolist()}")
        return pos[0].tolist()

    def get_local_rank(self, d=0):
        return self._coords()[self._dim(d)]

    def get_group(self, d=0):
        if self.mesh.dim() == 1:
            return _Grp(self.mesh.tolist())
        i, j = self._coords()
        return _Grp(self.mesh[:, j].tolist() if self._dim(d) == 0 else self.mesh[i, :].tolist())


def _fake_dist(sim):
    def get_rank(group=None):
        if group is None or group is sim.WORLD:
            return sim.rank
        return group.ranks.index(sim.rank)

    def new_subgroups(group_size=None, **kw):
        assert sim.world % group_size == 0
        groups = [_Grp(range(k * group_size, (k + 1) * group_size)) for k in range(sim.world // group_size)]
        return groups[sim.rank // group_size], groups

    return SimpleNamespace(
        get_world_size=lambda group=None: sim.world if group is None or group is sim.WORLD else len(group.ranks),
        get_rank=get_rank, new_subgroups=new_subgroups, is_initialized=lambda: True,
        get_process_group_ranks=lambda g: list(g.ranks), ProcessGroup=_Grp,
        distributed_c10d=SimpleNamespace(GroupMember=SimpleNamespace(WORLD=sim.WORLD)),
    )


def _patches(sim, mod, hybrid=False):
    import torch

    def get_device_mesh(device_type, mesh, mesh_dim_names=None):
        return _FakeMesh(sim, device_type, mesh, mesh_dim_names)

    def dtensor_zeros(size, dtype=None, device_mesh=None, placements=None, **kw):
        t = torch.zeros(size, dtype=dtype)
        t._c14_mesh = [int(r) for r in device_mesh.mesh.flatten().tolist()]
        return t

    def all_submeshes(device_mesh, name):
        dim = device_mesh._dim(name)
        rows = device_mesh.mesh.swapdims(-1, dim).reshape(-1, device_mesh.mesh.size(dim))
        return [_FakeMesh(sim, device_mesh.device_type, r, (name,)) for r in rows]

    ps = [mock.patch.object(mod, "dist", _fake_dist(sim)), mock.patch.object(mod, "get_device_mesh", get_device_mesh),
          mock.patch.object(mod, "dtensor_zeros", dtensor_zeros)]
    if hasattr(mod, "_mesh_resources"):
        ps.append(mock.patch.object(mod, "_mesh_resources", SimpleNamespace(_get_all_submeshes=all_submeshes)))
    if hybrid:
        ps.append(mock.patch.object(torch.Tensor, "to_local", lambda s: s.detach(), create=True))
    return ps


def _run_cluster(job):
    """job: copy, shapes (per parameter: full shape, and for hsdp the [start,end) of the local shard), mpd, merge, gs, R, S,
    s0, dt.  Returns per position p of the replication group what that rank's distributor holds."""
    import contextlib
    import importlib
    import torch
    from distributed_shampoo.shampoo_types import (CommunicationDType, DDPShampooConfig, HSDPShampooConfig, HybridShardShampooConfig,
                                                   FSDPParameterMetadata, MAX_PRECONDITIONER_DIM, PARAMS, USE_MERGE_DIMS)
    copy, gs, R, S, s0, dt = job["copy"], job["gs"], job["R"], job["S"], job["s0"], job["dt"]
    modname = {"ddp": "shampoo_ddp_distributor", "hsdp": "shampoo_hsdp_distributor", "hybrid": "shampoo_hybrid_shard_distributor"}[copy]
    mod = importlib.import_module("distributed_shampoo.utils." + modname)
    cls = _classes()[copy][0]
    cdt = {"fp32": CommunicationDType.FP32, "fp16": CommunicationDType.FP16, "bf16": CommunicationDType.BF16}[dt]
    if job.get("default_dtype"):
        cdt = CommunicationDType.DEFAULT
    dtype = _torch_dtype(dt)
    if copy == "ddp":
        world, L = R, list(range(R))
    else:
        world, L = R * S, [r * S + s0 for r in range(R)]
    ntpg = -1 if job.get("ntpg_default") else gs       # -1: "use the whole replication group" (only generated when R == gs)
    cp = bool(job.get("communicate_params"))
    sim = _Sim(world)
    user_mesh = _FakeMesh(sim, "cpu", [[r * S + s for s in range(S)] for r in range(R)], ("replicate", "shard"))
    out = []
    with contextlib.ExitStack() as es:
        for p_ in _patches(sim, mod, hybrid=(copy == "hybrid")):
            es.enter_context(p_)
        for p, grank in enumerate(L):
            sim.rank = grank
            try:
                if copy == "hsdp":
                    params, meta = [], {}
                    for k, (shape, (a, b)) in enumerate(job["shapes"]):
                        t = torch.zeros(b - a, dtype=_param_dtype(job.get("pd", "fp32")))
                        params.append(t)
                        from torch.distributed.fsdp import ShardingStrategy
                        meta[t] = FSDPParameterMetadata(fqn=f"p{k}", shape=torch.Size(shape), numel=math.prod(shape), start_idx=a, end_idx=b,
                                                        sharding_strategy=ShardingStrategy.HYBRID_SHARD)
                    cfg = HSDPShampooConfig(param_to_metadata=meta, device_mesh=user_mesh, communication_dtype=cdt, num_trainers_per_group=ntpg, communicate_params=cp)
                else:
                    params = [torch.zeros(shape, dtype=_param_dtype(job.get("pd", "fp32"))) for shape, _ in job["shapes"]]
                    cfg = (DDPShampooConfig(communication_dtype=cdt, num_trainers_per_group=ntpg, communicate_params=cp) if copy == "ddp"
                           else HybridShardShampooConfig(device_mesh=user_mesh, communication_dtype=cdt, num_trainers_per_group=ntpg, communicate_params=cp))
                group = {PARAMS: params, MAX_PRECONDITIONER_DIM: job["mpd"], USE_MERGE_DIMS: job["merge"]}
                d = cls(group, cfg)
                me_attr = p % gs
                ok, views, total, local = _observe_buffers(d, dtype, me_attr)
                sel = tuple(bool(x) for x in d._distributor_selector)
                loc = [b for b, s in zip(d._global_blocked_params, sel) if s]
                ok = ok and len(loc) == len(d._local_blocked_params) and all(_same_view(a, b) for a, b in zip(loc, d._local_blocked_params))
                # global index of every local block through its (unique) composable block id
                bsr = d._distribute_buffer_sizes(tuple(b.numel() * DSIZE[dt] for b in d._global_blocked_params))
                srcs = tuple(r for _, r in bsr)
                gl = d._construct_global_block_info_list(group_source_ranks=srcs)
                ids = [bi.composable_block_ids for bi in gl]
                ok = ok and len(set(ids)) == len(ids)
                state = []
                for bi in d._local_block_info_list:
                    t = bi.allocate_zeros_tensor(size=(2, 2), dtype=torch.float32, device=torch.device("cpu"))
                    pos = [L.index(r) if r in L else -1 for r in t._c14_mesh]
                    ok = ok and _same_view(bi.get_tensor(t), t)
                    state.append((ids.index(bi.composable_block_ids), int(bi.group_source_rank), pos))
                out.append({"ok": bool(ok), "numels": [int(b.numel()) for b in d._global_blocked_params], "nc_blocks": sum(1 for b in d._global_blocked_params if not b.is_contiguous()), "sel": sel, "state": state, "bsr": [(int(a), int(b)) for a, b in bsr],
                            "views": views, "total": total, "local": local})
            except Exception as ex:  # noqa
                import traceback
                out.append({"exc": type(ex).__name__ + ": " + str(ex)[:200], "tb": traceback.format_exc()[-600:]})
    return out


def impl_cluster(chunk):
    return [_run_cluster(j) for j in chunk]


# --------------------------------------------------------------------------------------
# Coq literals


def zn(x):
    return str(int(x)) if x >= 0 else f"({int(x)})"


def zl(xs):
    return "[" + "; ".join(zn(x) for x in xs) + "]"


def zpairs(ps):
    return "[" + "; ".join(f"({zn(a)}, {zn(b)})" for a, b in ps) + "]"


def il(xs):
    """list of primitive-integer literals (read natively by coqc; converted with Uint63.to_Z in RunC14.zs); None if not representable"""
    xs = [int(x) for x in xs]
    if any(x < 0 or x >= 2 ** 62 for x in xs):
        return None
    return "[" + "; ".join(map(str, xs)) + "]%uint63"


def flat(ps):
    return [x for p in ps for x in p]


def bl(bs):
    return "[" + "; ".join(coq_bool(b) for b in bs) + "]"


def state_lit(st):
    return "[" + "; ".join(f"({zn(i)}, ({zn(s)}, {zl(pos)}))" for i, s, pos in st) + "]"


def obs_lit(o):
    if isinstance(o, str):
        return "ObsIndexError" if o == "IndexError" else "ObsOther"
    return f"(ObsAssigned {zpairs(o)})"


HEADER = """From Coq Require Import Uint63 ZArith List Bool String.
From Shampoo Require Import Show Assign AssignChecker.
From ShampooExec Require Import RunC14.
Import ListNotations. Open Scope Z_scope.
"""


def eval_lists(ck: Check, tag: str, entries: list[tuple[str, int]], max_bytes: int = 40000) -> list[str]:
    """entries: (Coq term of type `list bool`, its expected length).  Returns the computed T/F string of every entry.
    Elaboration time grows with the text of a file, so files are cut by size and the largest are started first (the 16
    coqc processes then finish together)."""
    if not entries:
        return []
    files, cur, size = [], [], 0
    for i, (e, _) in enumerate(entries):
        if cur and size + len(e) > max_bytes:
            files.append(cur)
            cur, size = [], 0
        cur.append(i)
        size += len(e) + 8
    files.append(cur)
    order = sorted(range(len(files)), key=lambda f: -sum(len(entries[i][0]) for i in files[f]))
    srcs = {}
    for f in order:
        body = ";\n".join(entries[i][0] for i in files[f])
        srcs[f"{tag}_{f:05d}"] = HEADER + "Definition results : list bool := List.concat [\n" + body + "].\nEval vm_compute in show_bools results.\n"
    out = ck.eval_coq(srcs)
    res = [None] * len(entries)
    for f, idx in enumerate(files):
        r = out[f"{tag}_{f:05d}"]
        want = sum(entries[i][1] for i in idx)
        assert r and len(r[0]) == want, (tag, f, want, [len(x) for x in r])
        pos = 0
        for i in idx:
            res[i] = r[0][pos:pos + entries[i][1]]
            pos += entries[i][1]
    return res


def eval_bools(ck: Check, tag: str, items: list[str]) -> str:
    return "".join(eval_lists(ck, tag, [("[" + it + "]", 1) for it in items]))


# --------------------------------------------------------------------------------------
# brute-force optimum (evidence only)


def opt_makespan(sizes, m):
    js = sorted((s for s in sizes if s > 0), reverse=True)
    if not js:
        return 0
    best = [sum(js)]
    loads = [0] * m
    lower = max(js[0], -(-sum(js) // m))

    def rec(k):
        if best[0] == lower:
            return
        if k == len(js):
            best[0] = min(best[0], max(loads))
            return
        seen = set()
        for r in range(m):
            if loads[r] in seen:
                continue
            seen.add(loads[r])
            if loads[r] + js[k] < best[0]:
                loads[r] += js[k]
                rec(k + 1)
                loads[r] -= js[k]

    rec(0)
    return best[0]


# --------------------------------------------------------------------------------------
# generators

V4 = (1, 64, 65, 130)
T4 = (64, 100, 128, 192)
# worst-case families of LPT (ratio 4/3 - 1/(3m)): 2m+1 jobs 2m-1,2m-1,...,m+1,m+1,m,m,m   (in units of 64 bytes)
TIGHT = [((192, 192, 128, 128, 128), 2), ((320, 320, 256, 256, 192, 192, 192), 3), ((448, 448, 384, 384, 320, 320, 256, 256, 256), 4),
         ((190, 129, 128, 65, 127), 2), ((64, 64, 64, 64, 64, 64, 64), 3)]


def gen_assign_blocks(thorough: bool):
    """Exhaustive part of stream A: (prefix, vals, k, gs) stands for all lists prefix + t, t in vals^k, with group size gs."""
    scopes = [(V8, 0, 6), (V6, 6, 6), (T4, 7, 7)] if thorough else [(V8, 0, 5), (V4, 6, 6)]
    blocks = []
    for vals, minn, maxn in scopes:
        for n in range(minn, maxn + 1):
            k = n
            while len(vals) ** k > 1300:
                k -= 1
            for prefix in itertools.product(vals, repeat=n - k):
                for gs in (1, 2, 3, 4):
                    blocks.append((prefix, vals, k, gs))
    return blocks


GiB = 2 ** 30
# input classes the quantifier names or plainly allows and that random/exhaustive small lists do not reach (quantifier audit)
TARGETED = [
    # one padded block next to many tiny ones (padding dominates the load), group sizes 2..16
    *[((64,) + (4,) * 16, g) for g in (2, 3, 8, 16)], *[((512, 512) + (8, 12, 20) * 8, g) for g in (2, 4, 5)],
    # one dominant block plus small ones / ragged edges (the head of a FIFO of ranks is not the least loaded)
    *[((640,) + (64,) * 10, g) for g in (2, 3, 4)], ((100, 100, 4, 65536, 65536, 4, 1024, 4096, 4, 65536, 100), 6), ((128, 64, 500, 256), 1), ((128, 64, 500, 256), 2),
    # per-rank loads of 2 GiB and more (byte counts only, nothing is allocated): 32-bit and 63-bit boundaries
    ((GiB,) * 6, 2), ((256 * 2 ** 20,) * 40, 4), ((2 ** 31 - 1, 2 ** 31 - 64, 2 ** 31, 2 ** 31 + 1, 1), 2), ((2 ** 32, 2 ** 32 - 63, 7, 2 ** 32 + 65), 3),
    ((128 * 2 ** 20,) * 130, 8), ((2 ** 40 + 1, 2 ** 40, 2 ** 33, 5), 2), ((2 ** 62 + 3, 2 ** 62, 2 ** 61), 2), ((2 ** 63, 2 ** 63 - 1, 2 ** 64 + 64), 3),
    # boundaries of the group-size range with few / equal / single blocks
    ((1,), 1), ((1,), 16), ((64,) * 16, 16), ((64,) * 17, 16), ((65,) * 15, 16), ((63, 64, 65), 16), ((0,), 16), ((0, 0, 0), 2), ((), 1), ((), 16),
    # every residue class of the size modulo 64 around one and two lines
    (tuple(range(1, 65)), 3), (tuple(range(65, 129)), 5), (tuple(range(128, 63, -1)), 7),
]

# call sequences run on ONE instance per copy, in one process: a call must not see the loads left by an earlier call
HISTORIES = [
    [((1024, 64), 2), ((256,) * 6, 2), ((256,) * 6, 2)],
    [((64,), 2), ((64,), 2), ((64,), 2), ((64, 64), 2)],
    [((500, 4, 4), 3), ((4,) * 9, 3), ((500, 4, 4), 3)],
    [((130,), 1), ((130, 1), 1), ((1,), 1)],
    [((4096,) + (64,) * 3, 4), ((), 4), ((64,) * 8, 4), ((64,) * 8, 16), ((64,) * 8, 4)],
    [((GiB,) * 3, 2), ((64, 64), 2)],
]


def gen_assign_random(ck: Check, thorough: bool):
    inputs = [((), 0), ((64,), 0), ((1, 2), 0)] + list(TIGHT) + list(TARGETED)      # group size 0: heappop on an empty heap
    nrand = 12000 if thorough else 500
    maxn, maxg = (256, 32) if thorough else (64, 16)
    for _ in range(nrand):
        n = ck.rng.randint(0, maxn) if ck.rng.random() < 0.7 else ck.rng.randint(0, 9)
        gs = ck.rng.randint(1, maxg)
        ds = ck.rng.choice((4, 2, 2))
        style = ck.rng.random()
        if style < 0.35:      # blocks of a real layer: max_preconditioner_dim-sized blocks plus remainders
            b = ck.rng.choice((4, 8, 16, 32, 64))
            pool = [b * b, b * ck.rng.randint(1, b), ck.rng.randint(1, b) * ck.rng.randint(1, b), b]
            numels = [ck.rng.choice(pool) for _ in range(n)]
        elif style < 0.7:     # many ties after alignment
            numels = [ck.rng.choice((1, 7, 16, 17, 31, 32, 33, 48, 64, 65)) for _ in range(n)]
        else:
            numels = [ck.rng.randint(1, 5000) for _ in range(n)]
        inputs.append((tuple(x * ds for x in numels), gs))
    return inputs


def gen_buffer_inputs(ck: Check, thorough: bool):
    inputs = []
    maxn = 4 if thorough else 3
    dts = ("fp32", "fp16", "bf16") if thorough else ("fp32", "bf16")
    k = 0
    for n in range(1, maxn + 1):
        for numels in itertools.product(N6, repeat=n):
            for gs in (1, 2, 3, 4):
                for dt in dts:
                    inputs.append((numels, dt, gs, k % gs, "fp32", False))
                    k += 1
    nexh = len(inputs)
    # quantifier audit: parameter blocks stored in another dtype than fp32 and handed out as non-contiguous views; sizes in
    # every communication dtype around 1..32 / 33..63 modulo 64 (6 -> 24 B / 12 B, 21 -> 84 B / 42 B, 17 -> 68 B / 34 B)
    for pd in ("bf16", "fp16", "f64"):
        for n in (1, 2):
            for numels in itertools.product((1, 6, 16, 17, 21, 32), repeat=n):
                for gs in (1, 2):
                    for dt in ("fp32", "fp16", "bf16"):
                        inputs.append((numels, dt, gs, k % gs, pd, k % 3 == 0))
                        k += 1
    for gs, me in ((16, 15), (16, 0), (8, 7), (5, 4), (1, 0)):      # group-size range boundaries, last rank, ranks without block
        for numels in ((6,), (21, 6, 6), (16,) * 16, (17,) * 17, (1, 2, 3, 4, 5, 6, 7, 8, 9, 10, 11, 12, 13, 14, 15, 16, 17, 18, 19, 20)):
            for dt in ("fp32", "bf16"):
                inputs.append((numels, dt, gs, me, PARAM_DTS[k % 4], k % 2 == 0))
                k += 1
    ntarget = len(inputs) - nexh
    nrand = 3000 if thorough else 250
    maxn, maxg = (128, 32) if thorough else (64, 16)
    for _ in range(nrand):
        n = ck.rng.randint(1, maxn if ck.rng.random() < 0.5 else 10)
        gs = ck.rng.randint(1, maxg)
        dt = ck.rng.choice(("fp32", "fp16", "bf16"))
        if ck.rng.random() < 0.5:
            numels = tuple(ck.rng.choice((1, 8, 16, 17, 24, 32, 33, 64, 96, 100, 256)) for _ in range(n))
        else:
            numels = tuple(ck.rng.randint(1, 2000) for _ in range(n))
        inputs.append((numels, dt, gs, ck.rng.randrange(gs), ck.rng.choice(PARAM_DTS), ck.rng.random() < 0.3))
    return inputs, nexh


def gen_cluster_jobs(ck: Check, thorough: bool):
    jobs = []
    per_copy = 200 if thorough else 20
    for copy in COPIES:
        for k in range(per_copy):
            gs = ck.rng.choice((1, 2, 2, 3, 4, 4, 8) if thorough else (1, 2, 2, 3, 4))
            ngroups = ck.rng.choice((1, 1, 2, 3))
            R = gs * ngroups
            S = 1 if copy == "ddp" else ck.rng.choice((1, 2, 3))
            mpd = ck.rng.choice((2, 3, 4, 8))
            nparams = ck.rng.randint(1, 5 if thorough else 4)
            shapes = []
            for _ in range(nparams):
                order = ck.rng.choice((1, 2, 2, 3))
                shape = tuple(ck.rng.randint(1, 9 if thorough else 7) for _ in range(order))
                numel = math.prod(shape)
                if copy == "hsdp":
                    a = ck.rng.randint(0, numel)
                    b = ck.rng.randint(a, numel)
                    if ck.rng.random() < 0.15:
                        b = a
                    shapes.append((shape, (a, b)))
                elif copy == "hybrid":
                    rows = ck.rng.randint(0, shape[0]) if ck.rng.random() < 0.3 else shape[0]
                    shapes.append(((rows,) + shape[1:], None))
                else:
                    shapes.append((shape, None))
            if copy == "hsdp" and all(b == a for _, (a, b) in shapes):
                shapes[0] = (shapes[0][0], (0, math.prod(shapes[0][0])))
            if copy == "hybrid" and all(math.prod(s) == 0 for s, _ in shapes):
                shapes[0] = ((2, 3), None)
            jobs.append({"copy": copy, "gs": gs, "R": R, "S": S, "s0": ck.rng.randrange(S), "dt": ck.rng.choice(("fp32", "fp16", "bf16")),
                         "default_dtype": False, "mpd": mpd, "merge": ck.rng.random() < 0.5, "shapes": shapes,
                         "pd": PARAM_DTS[k % 4], "ntpg_default": ngroups == 1 and k % 3 == 0, "communicate_params": k % 5 == 0})
        # quantifier audit: upper part of the group-size range (8, 16), and a SECOND distributor with the same group size built
        # right after the first one in the same process (a second parameter group / optimizer): jobs are run two per worker call
        for gs, pd, dt in ((16, "bf16", "fp32"), (8, "fp16", "bf16")):
            for twin in (False, True):
                shapes = _targeted_shapes(copy, twin)
                jobs.append({"copy": copy, "gs": gs, "R": gs, "S": 1, "s0": 0, "dt": dt, "default_dtype": False, "mpd": 3, "merge": False, "shapes": shapes,
                             "pd": pd, "ntpg_default": twin, "communicate_params": False, "twin_of_previous": twin})
        for gs, pd in ((2, "bf16"), (2, "f64"), (1, "fp16"), (3, "bf16")):
            for twin in (False, True):
                jobs.append({"copy": copy, "gs": gs, "R": gs * 2, "S": 1 if copy == "ddp" else 2, "s0": 0, "dt": "fp32", "default_dtype": True, "mpd": 4, "merge": True,
                             "shapes": _targeted_shapes(copy, not twin), "pd": pd, "ntpg_default": False, "communicate_params": twin, "twin_of_previous": twin})
    for j in jobs[::7]:
        if j["dt"] == "fp32":
            j["default_dtype"] = True
    assert len(jobs) % 2 == 0
    return jobs


def _targeted_shapes(copy, variant):
    """a dominant parameter and small ones whose blocks (mpd 3 or 4) have byte sizes that are not multiples of 64"""
    base = [((7, 3), None), ((11,), None), ((3, 2), None), ((5, 5), None)] if not variant else [((2,), None), ((9, 4), None), ((1,), None), ((6, 7), None), ((3,), None)]
    if copy == "hsdp":
        return [(sh, (1 if i % 2 else 0, math.prod(sh) - (1 if i == 1 else 0))) for i, (sh, _) in enumerate(base)]
    if copy == "hybrid":
        return base[:2] + [((0, 3), None)] + base[2:]        # a parameter whose local shard is empty (skipped by the distributor)
    return base


# --------------------------------------------------------------------------------------


def block_inputs(blk):
    prefix, vals, k, gs = blk
    return [prefix + t for t in itertools.product(vals, repeat=k)]


def unpack_outputs(inputs, data):
    w, packed = data
    outs = []
    for s, v in zip(inputs, packed):
        es = [(v >> (w * i)) & ((1 << w) - 1) for i in range(len(s))]
        outs.append(tuple((e // 64 * 64, e % 64) for e in es))
    return outs


def run(ck: Check) -> None:
    common.assert_repo_imports()
    t0 = time.time()
    ck.coq_props(extra_targets=["exec/RunC14.vo"])
    gen_targets.run(ck)          # translator tie: Gallina regenerated from the source + coq/gen/EquivC14.v
    t_props = time.time() - t0
    thorough = ck.tier == "thorough"
    import logging
    logging.disable(logging.CRITICAL)

    a_blocks = gen_assign_blocks(thorough)
    a_rand = gen_assign_random(ck, thorough)
    b_inputs, nb_exh = gen_buffer_inputs(ck, thorough)
    c_jobs = gen_cluster_jobs(ck, thorough)
    with mp.get_context("fork").Pool(16) as pool:
        rk = pool.map_async(impl_assign_blocks, list(common.chunks(a_blocks, 8)))
        ra = pool.map_async(impl_assign, list(common.chunks(a_rand, 100)))
        rh = pool.map_async(impl_assign_history, [HISTORIES])
        rb = pool.map_async(impl_buffers, list(common.chunks(b_inputs, 40)))
        rc = pool.map_async(impl_cluster, list(common.chunks(c_jobs, 2)))
        k_out = [x for ch in rk.get() for x in ch]
        a_out = [x for ch in ra.get() for x in ch]
        h_out = [x for ch in rh.get() for x in ch]
        b_out = [x for ch in rb.get() for x in ch]
        c_out = [x for ch in rc.get() for x in ch]
    t_impl = time.time() - t0 - t_props

    # ---------------- stream A: exhaustive blocks (inputs enumerated inside Coq) ----------------
    # a group = the copies of one block that produced the same outputs; one Coq evaluation per group
    k_groups = []          # (block index, copies, "packed"/"explicit", data)
    for bi, per in enumerate(k_out):
        byval = {}
        for c in COPIES:
            byval.setdefault(per[c], []).append(c)
        for (kind, data), copies in byval.items():
            k_groups.append((bi, copies, kind, data))

    def k_entry(g, fn_block, fn_case):
        bi, copies, kind, data = g
        prefix, vals, k, gs = a_blocks[bi]
        n = len(vals) ** k
        if kind == "packed":
            return (f"{fn_block} {zl(prefix)} {zl(vals)} {k}%nat {gs} {data[0]} {il(data[1])}", n)
        if kind == "flat":
            return (f"{fn_block}_flat {zl(prefix)} {zl(vals)} {k}%nat {gs} {il([x for o in data for e in o for x in e])}", n)
        return ("[" + "; ".join(fn_case(s, gs, o) for s, o in zip(block_inputs(a_blocks[bi]), data)) + "]", n)

    def agree_case(s, gs, o):
        if _flatable(o, len(o)) and il(s) is not None:
            return f"agree_flat {il(s)} {gs} {il(flat(o))}"
        return f"agree_assign {zl(s)} {gs} {obs_lit(o)}"

    def check_case(s, gs, o):
        if gs < 1:
            return "true"                                   # group size 0 is outside the property
        if isinstance(o, str):
            return "false"                                  # the function must be total for gs >= 1
        if _flatable(o, len(o)) and il(s) is not None:
            return f"check_flat {il(s)} {gs} {il(flat(o))}"
        return f"C14_assign_checkbZ {zl(s)} {gs} {zpairs(o)}"

    tt = [time.time()]
    k_res = eval_lists(ck, "c14k", [k_entry(g, "agree_block", agree_case) for g in k_groups], max_bytes=100000)
    tt.append(time.time())
    # ---------------- stream A: random and hand-picked inputs ----------------
    a_cases = {}      # (sizes, gs, output) -> list of copies
    for (sizes, gs), per in zip(a_rand, a_out):
        for c, o in zip(COPIES, per):
            a_cases.setdefault((sizes, gs, o), []).append(c)
    n_hist_calls = 0
    for seq, outs in zip(HISTORIES, h_out):        # every call of a history is compared with the (history-free) model on its own
        for (sizes, gs), per in zip(seq, outs):
            n_hist_calls += 1
            for c, o in zip(COPIES, per):
                a_cases.setdefault((sizes, gs, o), []).append(c + ":history")
    a_keys = list(a_cases)

    def a_item(key, packed_fn, case_fn):
        s, gs, o = key
        if _packable(o, len(s)) and il(s) is not None:
            return f"{packed_fn} {il(s)} {gs} {il([a + r for a, r in o])}"
        return case_fn(s, gs, o)

    a_flat = eval_bools(ck, "c14a", [a_item(k, "agree_packed", agree_case) for k in a_keys])
    tt.append(time.time())
    a_bad = [(s, gs, o, a_cases[(s, gs, o)]) for (s, gs, o), b in zip(a_keys, a_flat) if b != "T"]
    for g, r in zip(k_groups, k_res):
        if "F" in r:
            bi, copies, kind, data = g
            inputs = block_inputs(a_blocks[bi])
            outs = unpack_outputs(inputs, data) if kind == "packed" else data
            a_bad += [(s, a_blocks[bi][3], o, copies) for s, o, b in zip(inputs, outs, r) if b != "T"]

    # ---------------- stream B ----------------
    b_cases = {}      # (numels, dt, gs, me, frozen result) -> copies
    for (numels, dt, gs, me, pd, nc), per in zip(b_inputs, b_out):
        for c, r in zip(COPIES, per):
            fr = ("exc", r["exc"]) if "exc" in r else (r["ok"], tuple(r["bsr"]), tuple(r["views"]), r["total"], r["local"])
            b_cases.setdefault((numels, dt, gs, me, fr, pd, nc), []).append(c)
    b_keys = list(b_cases)

    def b_item(key):
        numels, dt, gs, me, fr, pd, nc = key
        if fr[0] == "exc":
            return "false"
        ok, bsr, views, total, local = fr
        if il(flat(views)) is None:
            return f"andb {coq_bool(ok)} (agree_buffers {zl(numels)} {DSIZE[dt]} {gs} {me} {zpairs(views)} {zn(total)} ({zn(local[0])}, {zn(local[1])}))"
        return f"andb {coq_bool(ok)} (agree_buffers_flat {il(numels)} {DSIZE[dt]} {gs} {me} {il(flat(views))} {zn(total)} {zn(local[0])} {zn(local[1])})"

    b_flat = eval_bools(ck, "c14b", [b_item(k) for k in b_keys])
    tt.append(time.time())
    b_bad = [k for k, b in zip(b_keys, b_flat) if b != "T"]

    # ---------------- stream C ----------------
    c_cases = []      # (job, p, result of that rank)
    for job, res in zip(c_jobs, c_out):
        for p, r in enumerate(res):
            c_cases.append((job, p, r))

    def c_item(case):
        job, p, r = case
        if "exc" in r:
            return "false"
        ds, gs, R = DSIZE[job["dt"]], job["gs"], job["R"]
        sizes = [n * ds for n in r["numels"]]
        me = p % gs
        fs = il([x for i, src, pos in r["state"] for x in (i, src, len(pos), *pos)])
        st = (f"agree_state_flat {il(sizes)} {gs} {R} {me} {len(r['state'])} {fs}" if fs is not None
              else f"agree_state {zl(sizes)} {gs} {R} {me} {state_lit(r['state'])}")
        bf = (f"agree_buffers_flat {il(r['numels'])} {ds} {gs} {me} {il(flat(r['views']))} {zn(r['total'])} {zn(r['local'][0])} {zn(r['local'][1])}" if il(flat(r["views"])) is not None
              else f"agree_buffers {zl(r['numels'])} {ds} {gs} {me} {zpairs(r['views'])} {zn(r['total'])} ({zn(r['local'][0])}, {zn(r['local'][1])})")
        return f"andb {coq_bool(r['ok'])} (andb (agree_selector_i {il(sizes)} {gs} {me} {bl(r['sel'])}) (andb ({st}) ({bf})))"

    c_flat = eval_bools(ck, "c14c", [c_item(x) for x in c_cases])
    tt.append(time.time())
    c_bad = [x for x, b in zip(c_cases, c_flat) if b != "T"]
    t_coq = time.time() - t0 - t_props - t_impl

    # ---------------- verdicts (DESIGN 2.4): certified checkers on the implementation's own output ----------------
    if a_bad:
        k_chk = eval_lists(ck, "c14k_chk", [k_entry(g, "check_block", check_case) for g in k_groups], max_bytes=100000)
        a_chk = eval_bools(ck, "c14a_chk", [a_item(k, "check_packed", check_case) if k[1] >= 1 else "true" for k in a_keys])
        failing = [(s, gs, o, a_cases[(s, gs, o)]) for (s, gs, o), b in zip(a_keys, a_chk) if b != "T"]
        for g, r in zip(k_groups, k_chk):
            if "F" in r:
                bi, copies, kind, data = g
                inputs = block_inputs(a_blocks[bi])
                outs = unpack_outputs(inputs, data) if kind == "packed" else data
                failing += [(s, a_blocks[bi][3], o, copies) for s, o, b in zip(inputs, outs, r) if b != "T"]
        if failing:
            failing.sort(key=lambda x: (len(x[0]), x[1], sum(x[0]), x[0]))
            s, gs, o, copies = failing[0]
            ck.report(None, f"_distribute_buffer_sizes ({'/'.join(sorted(set(copies)))} copy) violates C14 on sizes={list(s)} group_size={gs}: returned {o} "
                            f"(not the largest-first/least-loaded run with lexicographic ties, or unbalanced, or not aligned); {len(failing)} failing inputs",
                      {"kind": "assign-property-fails", "copies": sorted(set(copies)), "sizes": list(s), "gs": gs, "impl": o,
                       "n_failing": len(failing), "n_disagreeing": len(a_bad), "predicate": "C14_assign_checkbZ (lpt_spec shape + balance)"})
        else:
            a_bad.sort(key=lambda x: (len(x[0]), x[1], sum(x[0]), x[0]))
            s, gs, o, copies = a_bad[0]
            ck.report(None, f"model/implementation correspondence broken for _distribute_buffer_sizes ({len(a_bad)} cases, first: {'/'.join(sorted(set(copies)))} sizes={list(s)} gs={gs} -> {o}) "
                            "but every output still passes C14_assign_checkb",
                      {"kind": "correspondence", "broken": "Assign.agree_assign", "copies": sorted(set(copies)), "sizes": list(s), "gs": gs, "impl": o,
                       "theorems_not_transferring": ["C14_assign_total_deterministic", "C14_assign_is_lpt", "C14_lpt_gap_le_max", "C14_lpt_four_thirds"]},
                      no_failing_input=True)
    if b_bad:
        def b_chk(key):
            numels, dt, gs, me, fr, pd, nc = key
            if fr[0] == "exc":
                return "false"
            ok, bsr, views, total, local = fr
            sizes = [n * DSIZE[dt] for n in numels]
            if not _packable(bsr, len(numels)) or il(flat(views)) is None:
                return f"andb {coq_bool(ok)} (C14_checkbZ {zl(sizes)} {gs} {zpairs(bsr)} {zpairs(views)})"
            return f"andb {coq_bool(ok)} (check_buffers_flat {il(sizes)} {gs} {il([a + r for a, r in bsr])} {il(flat(views))})"
        flatb = eval_bools(ck, "c14b_chk", [b_chk(k) for k in b_keys])
        failing = [k for k, b in zip(b_keys, flatb) if b != "T"]
        if failing:
            failing.sort(key=lambda x: (len(x[0]), x[2], sum(x[0]), x[0]))
            numels, dt, gs, me, fr, pd, nc = failing[0]
            copies = b_cases[failing[0]]
            ck.report(None, f"buffer layout of the {'/'.join(copies)} copy violates C14 on numels={list(numels)} dtype={dt} group_size={gs} rank={me} (parameter dtype {pd}, non-contiguous blocks {nc}): {fr}; {len(failing)} failing inputs",
                      {"kind": "buffers-property-fails", "copy": copies[0], "copies": copies, "numels": list(numels), "dt": dt, "gs": gs, "me": me, "pd": pd, "nc": nc, "impl": fr, "n_failing": len(failing),
                       "predicate": "C14_checkbZ (views in owner segment, >= block bytes, 64-aligned, pairwise disjoint) and aliasing flags"})
        else:
            numels, dt, gs, me, fr, pd, nc = b_bad[0]
            copies = b_cases[b_bad[0]]
            ck.report(None, f"model/implementation correspondence broken for _construct_distributed_buffers ({len(b_bad)} cases, first: {'/'.join(copies)} numels={list(numels)} {dt} gs={gs} me={me}) "
                            "but every layout still passes C14_checkb",
                      {"kind": "correspondence", "broken": "Assign.agree_buffers", "copy": copies[0], "copies": copies, "numels": list(numels), "dt": dt, "gs": gs, "me": me, "pd": pd, "nc": nc, "impl": fr,
                       "theorems_not_transferring": ["C14_buffers_in_owner_segment", "C14_buffers_ge_block_bytes", "C14_buffers_disjoint_aligned"]}, no_failing_input=True)
    if c_bad:
        # property predicate on the observed cluster: selectors of each group partition the blocks, every local block is
        # owned by the rank that holds it and its state mesh has exactly the owner's position of every group
        items = []
        for job, res in zip(c_jobs, c_out):
            if any("exc" in r for r in res):
                items.append("false")
                continue
            gs, R = job["gs"], job["R"]
            n = len(res[0]["numels"])
            parts = []
            for g in range(R // gs):
                parts.append(f"partitionb {n}%nat [" + "; ".join(bl(res[g * gs + k]["sel"]) for k in range(gs)) + "]")
            for p, r in enumerate(res):
                parts.append(coq_bool(r["ok"] and r["numels"] == res[0]["numels"] and len(r["state"]) == sum(r["sel"])
                                      and all(src == p % gs and 0 <= i < n and r["sel"][i] for i, src, _ in r["state"])))
                for i, src, pos in r["state"]:
                    parts.append(f"mesh_okb {src} {gs} {R} {zl(pos)}")
                sizes = [x * DSIZE[job["dt"]] for x in r["numels"]]
                if _packable(r["bsr"], len(sizes)) and il(flat(r["views"])) is not None:
                    parts.append(f"check_buffers_flat {il(sizes)} {gs} {il([a + b for a, b in r['bsr']])} {il(flat(r['views']))}")
                else:
                    parts.append(f"C14_checkbZ {zl(sizes)} {gs} {zpairs(r['bsr'])} {zpairs(r['views'])}")
            items.append("forallb (fun b : bool => b) [" + "; ".join(parts) + "]")
        flatc = eval_bools(ck, "c14c_chk", items)
        failing = [j for j, b in zip(c_jobs, flatc) if b != "T"]
        if failing:
            failing.sort(key=lambda j: (j["R"], len(j["shapes"])))
            j = failing[0]
            ck.report(None, f"{j['copy']} distributor violates C14 (selectors do not partition the blocks of a group, or a state mesh is not one-owner-per-group, or the buffer layout is wrong, or construction failed) "
                            f"for group_size={j['gs']} replicas={j['R']} shapes={j['shapes']}; {len(failing)} failing scenarios",
                      {"kind": "cluster-property-fails", "job": j, "impl": c_out[c_jobs.index(j)], "n_failing": len(failing),
                       "predicate": "partitionb / mesh_okb / owner == holder / C14_checkbZ on the buffers"})
        else:
            job, p, r = c_bad[0]
            ck.report(None, f"model/implementation correspondence broken for the {job['copy']} constructor ({len(c_bad)} rank cases, first: position {p}, gs={job['gs']}, R={job['R']}) "
                            "but selectors still partition and state meshes are one-per-group",
                      {"kind": "correspondence", "broken": "Assign.agree_selector/agree_state/agree_buffers", "job": job, "position": p, "impl": r,
                       "theorems_not_transferring": ["C14_state_on_exactly_one_rank", "C14_state_mesh_one_per_group", "C14_buffers_disjoint_aligned"]}, no_failing_input=True)

    # ---------------- numerical evidence for the 4/3 constant (not a proof) ----------------
    cand = {}
    for g in k_groups:
        bi, copies, kind, data = g
        gs = a_blocks[bi][3]
        if gs < 2:
            continue
        inputs = block_inputs(a_blocks[bi])
        outs = unpack_outputs(inputs, data) if kind == "packed" else data
        for s, o in zip(inputs, outs):
            if isinstance(o, str) or not (3 <= len(s) <= 7):
                continue
            al = tuple(sorted(a for a, _ in o))
            if sum(al) and (al, gs) not in cand:
                cand[(al, gs)] = (s, o)
    for (s, gs, o) in a_keys:
        if not isinstance(o, str) and 3 <= len(s) <= 9 and 2 <= gs <= 4 and sum(a for a, _ in o) > 0:
            cand.setdefault((tuple(sorted(a for a, _ in o)), gs), (s, o))
    worst, nopt, viol = (0.0, None), 0, []
    keys = sorted(cand, key=lambda k: (-len(k[0]), k))
    budget = 8000 if thorough else 2500
    for (al, gs) in keys[:budget]:
        s, o = cand[(al, gs)]
        lpt = max(sum(a for a, r in o if r == k) for k in range(gs))
        opt = opt_makespan(al, gs)
        nopt += 1
        if 3 * gs * lpt > (4 * gs - 1) * opt:
            viol.append((s, gs, o, lpt, opt))
        if lpt / opt > worst[0]:
            worst = (lpt / opt, {"sizes": list(s), "gs": gs, "lpt": lpt, "opt": opt})
    if viol:
        s, gs, o, lpt, opt = viol[0]
        ck.report(None, f"Graham bound fails numerically on the implementation's output: sizes={list(s)} gs={gs} max_load={lpt} optimum={opt}",
                  {"kind": "assign-property-fails", "copies": list(COPIES), "sizes": list(s), "gs": gs, "impl": o, "lpt": lpt, "opt": opt, "predicate": "3*gs*max_load <= (4*gs-1)*OPT (brute force)"})


    # ---------------- quantifier audit: measured number of generated cases per input class named or allowed by the property ----------------
    def al64(x):
        return (x + 63) // 64 * 64

    A = {k: 0 for k in (
        "A_group_size_1", "A_group_size_2_to_4", "A_group_size_5_to_15", "A_group_size_16", "A_empty_block_list", "A_single_block", "A_zero_byte_block",
        "A_some_size_not_multiple_of_64", "A_all_sizes_multiples_of_64", "A_ties_after_alignment", "A_all_blocks_equal", "A_fewer_blocks_than_ranks", "A_more_blocks_than_ranks",
        "A_one_dominant_block_many_small", "A_padding_exceeds_half_of_load", "A_rank_load_ge_2GiB", "A_rank_load_ge_4GiB", "A_single_block_ge_2GiB", "A_size_ge_2^62_(Z_literal_path)",
        "A_stub_param_dtype_bf16_or_fp16", "A_stub_param_dtype_f64")}

    def classify(sizes, gs):
        n = len(sizes)
        if gs < 1:
            return
        A["A_group_size_1"] += gs == 1
        A["A_group_size_2_to_4"] += 2 <= gs <= 4
        A["A_group_size_5_to_15"] += 5 <= gs <= 15
        A["A_group_size_16"] += gs == 16
        A["A_empty_block_list"] += n == 0
        A["A_single_block"] += n == 1
        A["A_zero_byte_block"] += 0 in sizes
        nm = any(x % 64 for x in sizes)
        A["A_some_size_not_multiple_of_64"] += nm
        A["A_all_sizes_multiples_of_64"] += n > 0 and not nm
        als = [al64(x) for x in sizes]
        A["A_ties_after_alignment"] += len(set(als)) < n
        A["A_all_blocks_equal"] += n >= 2 and len(set(sizes)) == 1
        A["A_fewer_blocks_than_ranks"] += 0 < n < gs
        A["A_more_blocks_than_ranks"] += n > gs
        if n >= 8:
            srt = sorted(als)
            A["A_one_dominant_block_many_small"] += srt[-1] >= 8 * max(64, srt[n // 2])
        tot = sum(als)
        A["A_padding_exceeds_half_of_load"] += tot > 0 and 2 * (tot - sum(sizes)) > tot
        A["A_rank_load_ge_2GiB"] += tot >= gs * 2 ** 31
        A["A_rank_load_ge_4GiB"] += tot >= gs * 2 ** 32
        A["A_single_block_ge_2GiB"] += n > 0 and max(sizes) >= 2 ** 31
        A["A_size_ge_2^62_(Z_literal_path)"] += n > 0 and max(sizes) >= 2 ** 62
        pd = stub_param_dt(sizes, gs)
        A["A_stub_param_dtype_bf16_or_fp16"] += pd in ("bf16", "fp16")
        A["A_stub_param_dtype_f64"] += pd == "f64"

    for blk in a_blocks:
        for sz in block_inputs(blk):
            classify(sz, blk[3])
    for sz, g in a_rand:
        classify(sz, g)
    audit = {k: 3 * v for k, v in A.items()}                  # every input runs on the three copies
    audit["A_group_size_0_(IndexError, outside the property)"] = 3 * sum(1 for _, g in a_rand if g == 0)
    audit["A_later_call_on_a_reused_instance_same_process (history independence)"] = 3 * sum(len(seq) - 1 for seq in HISTORIES)
    audit["A_lpt_worst_case_families"] = 3 * len(TIGHT)
    bk = [k for k in b_keys for _ in b_cases[k]]
    audit.update({
        "B_comm_dtype_fp32": sum(1 for k in bk if k[1] == "fp32"), "B_comm_dtype_fp16": sum(1 for k in bk if k[1] == "fp16"), "B_comm_dtype_bf16": sum(1 for k in bk if k[1] == "bf16"),
        "B_param_dtype_bf16_or_fp16": sum(1 for k in bk if k[5] in ("bf16", "fp16")), "B_param_dtype_f64": sum(1 for k in bk if k[5] == "f64"),
        "B_param_2byte_and_block_bytes_1_to_32_mod_64": sum(1 for k in bk if k[5] in ("bf16", "fp16") and any(1 <= (n * DSIZE[k[1]]) % 64 <= 32 for n in k[0])),
        "B_non_contiguous_block_views": sum(1 for k in bk if k[6] and any(len(_shape_of(n)) == 2 for n in k[0])),
        "B_group_size_1": sum(1 for k in bk if k[2] == 1), "B_group_size_5_to_15": sum(1 for k in bk if 5 <= k[2] <= 15), "B_group_size_16": sum(1 for k in bk if k[2] == 16),
        "B_observed_from_last_rank_of_group": sum(1 for k in bk if k[2] >= 2 and k[3] == k[2] - 1), "B_ranks_without_any_block": sum(1 for k in bk if len(k[0]) < k[2]),
        "B_block_bytes_not_multiple_of_64": sum(1 for k in bk if any((n * DSIZE[k[1]]) % 64 for n in k[0])),
        "B_block_bytes_exact_multiple_of_64": sum(1 for k in bk if any((n * DSIZE[k[1]]) % 64 == 0 for n in k[0])),
    })
    audit.update({
        "C_param_dtype_bf16_or_fp16": sum(j["R"] for j in c_jobs if j.get("pd") in ("bf16", "fp16")), "C_param_dtype_f64": sum(j["R"] for j in c_jobs if j.get("pd") == "f64"),
        "C_comm_dtype_DEFAULT": sum(j["R"] for j in c_jobs if j["default_dtype"]), "C_comm_dtype_fp16_or_bf16": sum(j["R"] for j in c_jobs if j["dt"] != "fp32"),
        "C_num_trainers_per_group_minus_1": sum(j["R"] for j in c_jobs if j.get("ntpg_default")), "C_communicate_params_True": sum(j["R"] for j in c_jobs if j.get("communicate_params")),
        "C_group_size_1": sum(j["R"] for j in c_jobs if j["gs"] == 1), "C_group_size_8": sum(j["R"] for j in c_jobs if j["gs"] == 8), "C_group_size_16": sum(j["R"] for j in c_jobs if j["gs"] == 16),
        "C_several_groups_per_replication_set": sum(j["R"] for j in c_jobs if j["R"] > j["gs"]),
        "C_second_distributor_same_group_size_same_process": sum(j["R"] for j in c_jobs if j.get("twin_of_previous")),
        "C_hsdp_empty_or_partial_shards": sum(j["R"] for j in c_jobs if j["copy"] == "hsdp" and any(b - a < math.prod(sh) for sh, (a, b) in j["shapes"])),
        "C_hybrid_empty_local_parameter": sum(j["R"] for j in c_jobs if j["copy"] == "hybrid" and any(math.prod(sh) == 0 for sh, _ in j["shapes"])),
        "C_use_merge_dims_False": sum(j["R"] for j in c_jobs if not j["merge"]),
        "C_blocks_that_are_non_contiguous_views": sum(1 for _, _, r in c_cases if r.get("nc_blocks", 0) > 0),
        "C_ranks_without_any_block": sum(1 for j, _, r in c_cases if "numels" in r and not any(r["sel"])),
    })

    # ---------------- evidence ----------------
    def hist(xs):
        h = {}
        for x in xs:
            h[x] = h.get(x, 0) + 1
        return {str(k): v for k, v in sorted(h.items())}

    def nb(n):
        return n if n <= 8 else (16 if n <= 16 else (64 if n <= 64 else 256))

    def gb(g):
        return g if g <= 4 else (8 if g <= 8 else (16 if g <= 16 else 32))

    n_block_cases = sum(len(v) ** k for _, v, k, _ in a_blocks)
    blocks_hist, gs_hist = {}, {}
    for prefix, vals, k, gs in a_blocks:
        n = len(prefix) + k
        blocks_hist[n] = blocks_hist.get(n, 0) + len(vals) ** k
        gs_hist[gs] = gs_hist.get(gs, 0) + len(vals) ** k
    for s, gs in a_rand:
        blocks_hist[nb(len(s))] = blocks_hist.get(nb(len(s)), 0) + 1
        gs_hist[gb(gs)] = gs_hist.get(gb(gs), 0) + 1
    n_b = sum(len(v) for v in b_cases.values())
    total_eval = 3 * (n_block_cases + len(a_rand) + n_hist_calls) + n_b + len(c_cases)
    nontriv = (sum(len(v) ** k for p, v, k, gs in a_blocks if gs >= 2 and len(p) + k >= 2) + sum(1 for s, gs in a_rand if gs >= 2 and len(s) >= 2)
               + sum(1 for k in b_keys if k[2] >= 2 and len(k[0]) >= 2) + sum(1 for j in c_jobs if j["gs"] >= 2))
    mid = next((k for k in a_keys if 4 <= len(k[0]) <= 9 and k[1] >= 2 and not isinstance(k[2], str)), a_keys[len(a_keys) // 2])
    bmid = b_keys[len(b_keys) // 2]
    ck.coverage.update({
        "evaluations": total_eval,
        "distinct_nontrivial": nontriv,
        "rule": (f"stream A: all lists over {'V8^<=6, V6^6 and T4^7' if thorough else 'V8^<=5 and V4^6'} (V8={list(V8)}, V6={list(V6)}, V4={list(V4)}, T4={list(T4)}) x group sizes 1..4 (exhaustive; inputs enumerated inside Coq in "
                 f"itertools.product order) + group size 0 + LPT worst-case families + random lists (<= {256 if thorough else 64} blocks, groups <= {32 if thorough else 16}, numel x {{4,2}} bytes), each on the three copies "
                 f"(copies with identical outputs share one Coq evaluation); stream B: all lists of <= {4 if thorough else 3} numels over {list(N6)} x groups 1..4 x dtypes + random (three copies); "
                 "stream C: random cluster scenarios, every rank of one replication group, three copies; evaluations = implementation calls compared; distinct_nontrivial = distinct inputs with group size >= 2 and >= 2 blocks"),
        "exhaustive": True,
        "samples": [
            {"stream": "A", "copies": a_cases[mid], "sizes": list(mid[0]), "gs": mid[1], "impl": mid[2] if isinstance(mid[2], str) else [list(x) for x in mid[2]]},
            {"stream": "B", "copies": b_cases[bmid], "numels": list(bmid[0]), "dtype": bmid[1], "gs": bmid[2], "me": bmid[3], "impl": bmid[4]},
            {"stream": "C", "copy": c_cases[-1][0]["copy"], "gs": c_cases[-1][0]["gs"], "R": c_cases[-1][0]["R"], "position": c_cases[-1][1],
             "impl": {k: v for k, v in c_cases[-1][2].items() if k in ("numels", "sel", "state", "local", "total", "exc")}},
        ],
        "distribution": {
            "A_exhaustive_inputs": n_block_cases, "A_exhaustive_blocks": len(a_blocks), "A_other_inputs": len(a_rand), "A_coq_groups": len(k_groups), "A_copies_per_input": 3,
            "A_blocks_per_input": {str(k): v for k, v in sorted(blocks_hist.items())}, "A_group_size": {str(k): v for k, v in sorted(gs_hist.items())},
            "A_unpackable_block_groups": sum(1 for g in k_groups if g[2] != "packed"),
            "B_impl_cases": n_b, "B_distinct_coq_cases": len(b_keys), "B_exhaustive_inputs": nb_exh, "B_dtypes": hist(k[1] for k in b_keys), "B_blocks": hist(nb(len(k[0])) for k in b_keys),
            "B_group_size": hist(gb(k[2]) for k in b_keys),
            "C_scenarios": len(c_jobs), "C_rank_cases": len(c_cases), "C_copies": hist(j["copy"] for j in c_jobs), "C_group_size": hist(j["gs"] for j in c_jobs),
            "C_replicas": hist(j["R"] for j in c_jobs), "C_blocks": hist(nb(len(r.get("numels", []))) for _, _, r in c_cases),
        },
        "disagreements": {"A": len(a_bad), "B": len(b_bad), "C": len(c_bad)},
        "quantifier_audit": audit,
        "not_exercised": [
            "per-rank loads >= 2 GiB with real buffers (streams B/C): only the byte-count function _distribute_buffer_sizes sees such sizes (stream A); allocating multi-GiB gather buffers per case is out of reach",
            "an empty block list in streams B/C: _construct_distributed_buffers reads _global_blocked_params[0].device and raises IndexError on the unchanged tree - outside the property (stream A covers the empty list)",
            "blocks with zero elements in streams B/C: the distributors never create them (stream A covers zero byte sizes)",
            "CUDA devices / NCCL, real process groups and real DTensor allocation (no accelerator; state meshes are observed through the stand-ins of stream C)",
            "group sizes that do not divide the replication set, num_trainers_per_group out of range: rejected by the constructors (C17's territory), not part of C14",
            "communication dtypes other than DEFAULT/FP32/FP16/BF16: the enum has no other member",
            "group sizes above 16 in the quick tier (thorough: up to 32) - outside the quantified range 1..16",
        ],
        "graham_numeric_evidence": {"label": "evidence, not proof: brute-force optimum on the implementation's outputs (<= 7 blocks from the exhaustive scope, <= 9 from the hand-picked families; groups 2..4)", "cases": nopt,
                                    "max_ratio_lpt_over_opt": round(worst[0], 6), "worst_case": worst[1], "bound_checked": "3*gs*max_load <= (4*gs-1)*OPT", "violations": len(viol)},
    })
    ck.assumptions += [
        "heapq.heappop returns the least (load, rank) tuple and heappush adds one (model: pop_min / cons; C14_heap_implementation_irrelevant covers any implementation with that contract)",
        "sorted(..., reverse=True) is a stable descending sort (model: sort_desc)",
        "torch.split/Tensor.split/view/data_ptr behave as observed (views identified by storage pointer, byte offset and length)",
        "stream C: the sequential stand-ins for dist / get_device_mesh / dtensor_zeros / _mesh_resources in harness/c14.py reproduce DeviceMesh group semantics",
        "coq/exec/RunC14.v (enumeration of the exhaustive inputs in itertools.product order, unpacking of the outputs packed as aligned+rank, one bit field per block) is part of the comparison machinery",
    ]
    ck.notes.append(f"phase times (s): coq build + Print Assumptions {t_props:.1f}, implementation runs {t_impl:.1f}, case evaluation in coqc {t_coq:.1f} (A exhaustive {tt[1]-tt[0]:.1f}, A other {tt[2]-tt[1]:.1f}, B {tt[3]-tt[2]:.1f}, C {tt[4]-tt[3]:.1f})")
    ck.notes.append("lpt_four_thirds is fully proved (sharp form 4/3 - 1/(3 gs)); the brute-force comparison is reported as evidence only")
    ck.gen_equiv_verdict()


def replay(obj) -> bool:
    common.assert_repo_imports()
    kind = obj.get("kind", "")
    if "sizes" in obj and "gs" in obj:
        cl = _classes()
        for c in obj.get("copies") or COPIES:
            if c.endswith(":history"):
                print(c, "call sequences of HISTORIES on one reused instance ->", [per for seq in impl_assign_history(HISTORIES) for per in seq], "recorded (one of the calls)", obj["sizes"], obj["gs"], obj.get("impl"))
                continue
            print(c, "_distribute_buffer_sizes", obj["sizes"], "gs", obj["gs"], "->", _call_assign(*cl[c], obj["gs"], tuple(obj["sizes"])), "recorded", obj.get("impl"))
        return True
    if "numels" in obj:
        for c in obj.get("copies") or [obj["copy"]]:
            print(c, "buffers ->", _run_buffers(c, obj["numels"], obj["dt"], obj["gs"], obj["me"], obj.get("pd", "fp32"), bool(obj.get("nc"))), "recorded", obj.get("impl"))
        return True
    if "job" in obj:
        j = obj["job"]
        j["shapes"] = [(tuple(s), tuple(ab) if ab is not None else None) for s, ab in j["shapes"]]
        print(j["copy"], "cluster ->", _run_cluster(j))
        return True
    print("nothing to replay for kind", kind)
    return True
