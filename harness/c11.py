"""C11 - inverse roots are symmetric positive definite and finite on degenerate input.

Also hosts the machinery shared with C10 (same Coq model MatrixFunctions.v): running the real
`matrix_inverse_root` with `matrix_eigenvalue_decomposition` wrapped so that the answer of
`torch.linalg.eigh` is RECORDED, writing case files in which coqc evaluates the model (binary64 instance)
on the same input and the recorded oracle answer and compares it with the implementation's result.
"""
from __future__ import annotations

import contextlib
import logging
import math
from fractions import Fraction
from unittest import mock

from harness import common
from harness.common import Check, coq_float, coq_bool

META = {
    "property_id": "C11",
    "design_ref": "DESIGN.md §4 C11",
    "technique": "Coq proof over the reals about the Gallina model of matrix_inverse_root (torch.linalg.eigh as an oracle whose recorded answer is an input of the model) "
                 "+ correspondence evaluated by vm_compute in binary64 inside coqc + certified checker on the implementation's output + measured float32/float64 residuals",
    "level_text": "Proved in Coq (14 theorems, props/C11.v; real-number instance of the model, stdlib real axioms only; shape/root guards closed and valid for every scalar instance): for ANY size n, "
                  "any symmetric A (no PSD assumption), eps > 0, any positive rational root and any answer (L, Q) of eigh satisfying its contract (query = Q diag(L) Q^T, Q^T Q = I; Q Q^T = I is derived, left_inv_right_inv), the matrix returned by "
                  "the eigendecomposition path of matrix_inverse_root - with and without enhance_stability - is symmetric, positive definite (x^T X x > 0), has all eigenvalues <= eps^e "
                  "(x^T X x <= eps^e x^T x; e = the negative binary32-rounded exponent actually used), commutes with A, does not depend on which valid decomposition eigh returns "
                  "(spectral_fun_unique, lambda_min included) and is orthogonally equivariant X(P A P^T) = P X(A) P^T; the numel==1 path has the same properties for every real entry, negative included; "
                  "inputs with numel > 1 that are not square 2-D are rejected with ValueError whatever the configuration, root and flag; root <= 0 is rejected on the eigen and diagonal paths. "
                  "Tie: the same Gallina term, run in binary64 on generated zero / rank-deficient / slightly indefinite / PSD / repeated-spectrum matrices (n = 1..12, scales 1e-6..1e6, 10 roots, both "
                  "stability settings), non-square / non-2-D shapes and roots <= 0, agrees with the real routine (normwise 1e-9, exception classes, the matrix handed to eigh); a certified checker "
                  "(C11_checkb, sound over the reals) evaluates symmetry, commutation, positive Rayleigh quotients <= eps^e on the implementation's own output. "
                  "MEASURED, not proved (labelled so in the evidence): finiteness and the size of the symmetry / PD / cap / commutation / equivariance residuals of the real routine in float32 and float64 "
                  "for n up to 64 relative to n*u*cond; the eigh contract residuals; the double-precision retry.",
    "level_note": "Trusted: Coq kernel + vm_compute; the hand-written model (checked against the code only on generated inputs); the oracle contract for torch.linalg.eigh (A = Q diag(L) Q^T, Q^T Q = I: "
                  "measured every run, never proved); torch.pow = real power on positive bases; nothing is claimed about rounding error of the binary64/binary32 executions beyond the measured constants. "
                  "Newton / higher-order solvers with a non-positive root are outside the model (the code returns NaNs or fails in math.log2 instead of rejecting).",
    "ready": True,
}

U = {"float32": 2.0 ** -24, "float64": 2.0 ** -53}

HEADER = """From Coq Require Import ZArith List String Floats.
From Shampoo Require Import Show Scalar Matrix MatrixFunctions.
Import ListNotations MFAgree.
Open Scope float_scope.
Notation fo := float_ops.
"""

# ------------------------------------------------------------------------------------------------
# configurations: ("eigen", enh) | ("newton", max_iter, tol) | ("ho", rel_eps, max_iter, tol, order) | ("unknown",)


def make_config(cfg):
    from matrix_functions_types import CoupledHigherOrderConfig, CoupledNewtonConfig, EigenConfig, RootInvConfig
    k = cfg[0]
    if k == "eigen":
        return EigenConfig(enhance_stability=bool(cfg[1]))
    if k == "newton":
        return CoupledNewtonConfig(max_iterations=cfg[1], tolerance=cfg[2])
    if k == "ho":
        return CoupledHigherOrderConfig(rel_epsilon=cfg[1], max_iterations=cfg[2], tolerance=cfg[3], order=cfg[4])
    if k == "unknown":
        return _UnknownConfig()
    raise AssertionError(cfg)


class _UnknownConfigBase:
    pass


def _UnknownConfig():
    from matrix_functions_types import RootInvConfig
    import dataclasses

    @dataclasses.dataclass
    class VerifUnknownRootInvConfig(RootInvConfig):
        pass
    return VerifUnknownRootInvConfig()


def coq_config(cfg) -> str:
    k = cfg[0]
    if k == "eigen":
        return f"(EigenCfg {coq_bool(bool(cfg[1]))})"
    if k == "newton":
        return f"(NewtonCfg {cfg[1]}%nat {coq_float(cfg[2])})"
    if k == "ho":
        return f"(HigherOrderCfg {coq_float(cfg[1])} {cfg[2]}%nat {coq_float(cfg[3])} {cfg[4]}%nat)"
    return "UnknownCfg"


def coq_rows(rows) -> str:
    return "[" + "; ".join("[" + "; ".join(coq_float(float(x)) for x in r) + "]" for r in rows) + "]"


def coq_vec(v) -> str:
    return "[" + "; ".join(coq_float(float(x)) for x in v) + "]"


def coq_shape(shape) -> str:
    return "[" + "; ".join(f"{d}%nat" for d in shape) + "]"


def coq_Zlit(n: int) -> str:
    return f"({n})%Z"


@contextlib.contextmanager
def quiet():
    logging.disable(logging.CRITICAL)
    try:
        yield
    finally:
        logging.disable(logging.NOTSET)


EXN = {"ValueError": "ValueError", "NotImplementedError": "NotImplementedError", "ArithmeticError": "ArithmeticError",
       "ZeroDivisionError": "ZeroDivisionError"}


def observe(case: dict, dtype: str = "float64") -> dict:
    """Run the real matrix_inverse_root on `case`; record the eigh query/answer and the iterative solvers' status."""
    import torch
    import matrix_functions as mf

    tdt = getattr(torch, dtype)
    A = torch.tensor(case["A"], dtype=tdt).reshape(case["shape"])
    root = Fraction(case["p"], case["q"])
    rec: dict = {"eigh": [], "iter": []}
    real_eig = mf.matrix_eigenvalue_decomposition
    real_newton = mf._matrix_inverse_root_newton
    real_ho = mf._matrix_inverse_root_higher_order

    def eig_wrap(A_in, *a, **kw):
        L, Q = real_eig(A_in, *a, **kw)
        rec["eigh"].append((A_in.detach().clone(), L.detach().clone(), Q.detach().clone()))   # L is modified in place later
        return L, Q

    def mk_iter_wrap(real):
        def w(*a, **kw):
            out = real(*a, **kw)
            rec["iter"].append((out[2].name, int(out[3]), float(out[4])))
            return out
        return w

    obs: dict = {}
    with quiet(), mock.patch.object(mf, "matrix_eigenvalue_decomposition", eig_wrap), \
            mock.patch.object(mf, "_matrix_inverse_root_newton", mk_iter_wrap(real_newton)), \
            mock.patch.object(mf, "_matrix_inverse_root_higher_order", mk_iter_wrap(real_ho)):
        try:
            X = mf.matrix_inverse_root(A, root, make_config(case["cfg"]), epsilon=case["eps"], is_diagonal=case["is_diag"])
            obs["kind"] = "ok"
            obs["X"] = X
        except Exception as e:  # noqa
            obs["kind"] = "raise"
            obs["exc"] = type(e).__name__
            obs["msg"] = str(e)[:120]
    obs["eigh"] = rec["eigh"]
    obs["iter"] = rec["iter"]
    return obs


def obs_term(case: dict, obs: dict) -> str:
    if obs["kind"] == "raise":
        return f"(ObsRaise {EXN[obs['exc']]})" if obs["exc"] in EXN else "ObsOther"
    X = obs["X"]
    n = case["shape"][0] if len(case["shape"]) == 2 and math.prod(case["shape"]) > 1 else 1
    if X.numel() != n * n:
        return "ObsOther"
    rows = X.reshape(n, n).tolist()
    if obs["iter"]:
        fl, it, err = obs["iter"][-1]
        return f"(ObsIter {coq_rows(rows)} {fl} {it}%nat {coq_float(err)})"
    return f"(ObsOk {coq_rows(rows)})"


def model_term(case: dict, obs: dict) -> str:
    """matrix_inverse_root float_ops shape A p q cfg eps is_diag L Q, with the recorded eigh answer."""
    shape = case["shape"]
    numel = math.prod(shape)
    if len(shape) == 2:
        rows = [case["A"][i * shape[1]:(i + 1) * shape[1]] for i in range(shape[0])]
    else:
        rows = [case["A"]] if numel else []
    if obs["eigh"]:
        _, L, Q = obs["eigh"][-1]
        Ls, Qs = coq_vec(L.tolist()), coq_rows(Q.tolist())
    else:
        Ls, Qs = "[]", "[]"
    return (f"(matrix_inverse_root fo {coq_shape(shape)} (rows {coq_rows(rows)}) {coq_Zlit(case['p'])} {case['q']}%positive "
            f"{coq_config(case['cfg'])} {coq_float(case['eps'])} {coq_bool(case['is_diag'])} (of_list fo {Ls}) (rows {Qs}))")


def case_n(case: dict) -> int:
    shape = case["shape"]
    return shape[0] if len(shape) == 2 and math.prod(shape) > 1 else 1


def query_term(case: dict, obs: dict) -> str:
    """The matrix the model passes to eigh equals the one the implementation passed (when it called eigh at all)."""
    if not obs["eigh"]:
        return "true"
    n = case_n(case)
    enh = coq_bool(case["cfg"][0] == "eigen" and bool(case["cfg"][1]))
    Ain = obs["eigh"][-1][0].tolist()
    return (f"(mclose 0x1p-40 {n}%nat (eigen_query fo {n}%nat (rows {coq_rows(case_rows(case))}) {coq_float(case['eps'])} {enh}) "
            f"(rows {coq_rows(Ain)}))")


def case_rows(case: dict):
    shape = case["shape"]
    return [case["A"][i * shape[1]:(i + 1) * shape[1]] for i in range(shape[0])]


TOL_EIGEN = 1e-9
TOL_ITER = 1e-6


def agree_term(case: dict, obs: dict) -> str:
    tol = TOL_EIGEN if (case["cfg"][0] in ("eigen", "unknown") or case["is_diag"] or case_n(case) == 1) else TOL_ITER
    return f"agree {coq_float(tol)} {case_n(case)}%nat {model_term(case, obs)} {obs_term(case, obs)}"


def eval_bool_lists(ck: Check, prefix: str, columns: list[list[str]], per_file: int) -> list[str]:
    """columns[k][i] = Coq boolean term number k of case i.  Returns, per column, the string of T/F."""
    ncase = len(columns[0]) if columns else 0
    sources = {}
    for fi, lo in enumerate(range(0, ncase, per_file)):
        parts = [HEADER]
        for k, col in enumerate(columns):
            parts.append(f"Definition r{k} : list bool := [\n" + ";\n".join(col[lo:lo + per_file]) + "].\nEval vm_compute in show_bools r" + str(k) + ".\n")
        sources[f"{prefix}_{fi:04d}"] = "\n".join(parts)
    out = ck.eval_coq(sources) if sources else {}
    res = []
    for k in range(len(columns)):
        res.append("".join(out[f"{prefix}_{fi:04d}"][k] for fi in range(len(sources))))
        assert len(res[-1]) == ncase, (prefix, k, len(res[-1]), ncase)
    return res


# ------------------------------------------------------------------------------------------------
# input generators (every random choice from ck.rng)


def rand_orth(n: int, seed: int):
    import torch
    g = torch.Generator().manual_seed(seed)
    Q, _ = torch.linalg.qr(torch.randn(n, n, dtype=torch.float64, generator=g))
    return Q


def spectrum(rng, n: int, kind: str, scale: float, cond: float) -> list[float]:
    """Eigenvalues for a test matrix.  kinds: psd | rankdef | zero | indef | repeated."""
    if kind == "zero":
        return [0.0] * n
    lc = math.log10(cond)
    lam = [scale * 10 ** (-rng.random() * lc) for _ in range(n)]
    lam[0] = scale
    if n > 1:
        lam[-1] = scale / cond
    if kind == "repeated":
        vals = lam[:max(1, min(3, n // 2))]
        lam = [rng.choice(vals) for _ in range(n)]
        lam[0] = scale
    if kind in ("rankdef", "indef") and n > 1:
        k = rng.randint(1, n - 1)
        for i in range(k, n):
            lam[i] = 0.0
    if kind == "indef":
        m = rng.randint(1, max(1, min(2, n - 1))) if n > 1 else 1
        for i in range(m):
            lam[n - 1 - i] = -scale * 10 ** rng.uniform(-9, -3)     # lambda_min in [-1e-3 * scale, 0)
    rng.shuffle(lam)
    return lam


def make_sym(lam: list[float], seed: int, diagonal: bool = False):
    import torch
    n = len(lam)
    if diagonal or n == 1:
        return torch.diag(torch.tensor(lam, dtype=torch.float64))
    Q = rand_orth(n, seed)
    A = (Q * torch.tensor(lam, dtype=torch.float64)) @ Q.T
    return (A + A.T) / 2


ROOTS = [(1, 1), (2, 1), (3, 1), (4, 1), (8, 1), (3, 2), (4, 3), (5, 2), (2, 3), (8, 3)]


def new_case(A, p, q, cfg, eps, is_diag=False, tag="") -> dict:
    return {"shape": list(A.shape), "A": A.reshape(-1).tolist(), "p": p, "q": q, "cfg": tuple(cfg), "eps": float(eps),
            "is_diag": bool(is_diag), "tag": tag}


def case_brief(case: dict) -> dict:
    return {"shape": case["shape"], "root": f"{case['p']}/{case['q']}", "cfg": list(case["cfg"]), "eps": case["eps"],
            "is_diag": case["is_diag"], "kind": case.get("tag", "")}


def gen_eigen_cases(rng, count: int, nmax: int = 12) -> list[dict]:
    """Symmetric inputs for the eigen configuration: zero, rank-deficient, slightly indefinite, PSD, repeated spectra."""
    cases = []
    kinds = ["zero", "rankdef", "indef", "indef", "psd", "repeated"]
    for k in range(count):
        n = 1 + (k % nmax) if k < 2 * nmax else rng.randint(1, nmax)
        kind = kinds[k % len(kinds)]
        scale = 10 ** rng.uniform(-6, 6)
        cond = 10 ** rng.uniform(0, 8)
        lam = spectrum(rng, n, kind, scale, cond)
        diagonal = rng.random() < 0.1
        A = make_sym(lam, rng.randrange(1 << 40), diagonal=diagonal)
        eps = (scale if kind != "zero" else 1.0) * 10 ** rng.uniform(-10, -1)
        p, q = rng.choice(ROOTS)
        enh = rng.random() < 0.5
        cases.append(new_case(A, p, q, ("eigen", enh), eps, False, kind + ("-diag" if diagonal else "")))
    return cases


def gen_guard_cases(rng) -> list[dict]:
    """numel > 1 and not a square 2-D matrix: every configuration and flag must raise ValueError; root <= 0."""
    import torch
    cases = []
    cfgs = [("eigen", False), ("eigen", True), ("newton", 10, 1e-6), ("ho", 0.0, 10, 1e-8, 3), ("unknown",)]
    shapes = [(2,), (3,), (7,), (2, 3), (3, 2), (1, 2), (2, 1), (4, 1), (1, 5), (2, 2, 2), (1, 2, 2), (2, 1, 2), (1, 1, 2), (2, 3, 4), (3, 3, 1), (1, 3, 3), (2, 2, 1, 1)]
    for sh in shapes:
        for cfg in cfgs:
            A = torch.tensor([rng.uniform(0.5, 2.0) for _ in range(math.prod(sh))], dtype=torch.float64).reshape(sh)
            p, q = rng.choice(ROOTS + [(0, 1), (-2, 1)])
            cases.append(new_case(A, p, q, cfg, 0.1, rng.random() < 0.3, "nonsquare"))
    # root <= 0 on square inputs: diagonal flag and eigen configurations -> ValueError
    for p, q in [(0, 1), (-1, 1), (-2, 1), (-3, 2), (-1, 3)]:
        for n in (2, 3, 5):
            A = make_sym([1.0 + i for i in range(n)], rng.randrange(1 << 40))
            for cfg, isd in [(("eigen", False), False), (("eigen", True), False), (("eigen", False), True), (("newton", 5, 1e-6), True),
                             (("ho", 0.0, 5, 1e-8, 3), True), (("unknown",), True)]:
                cases.append(new_case(A, p, q, cfg, 0.1, isd, "root<=0"))
    # numel == 1: any shape, any configuration, no root validation (root 0 -> ZeroDivisionError)
    for sh in [(), (1,), (1, 1), (1, 1, 1)]:
        for cfg in cfgs:
            A = torch.tensor([rng.uniform(0.5, 2.0)], dtype=torch.float64).reshape(sh)
            p, q = rng.choice(ROOTS + [(0, 1), (-2, 1)])
            cases.append(new_case(A, p, q, cfg, 0.1, rng.random() < 0.3, "numel1"))
    return cases


# ------------------------------------------------------------------------------------------------
# C11 checker call on the implementation's output


def c11_check_term(case: dict, obs: dict) -> str | None:
    """C11_checkb on the implementation's X for eigen-configuration cases with eps > 0, root > 0, n > 1."""
    import torch
    if obs["kind"] != "ok" or case["cfg"][0] != "eigen" or case["is_diag"] or case["p"] <= 0 or case["eps"] <= 0:
        return None
    n = case_n(case)
    if obs["X"].numel() != n * n or len(case["A"]) != n * n:
        return None          # not a square input / output: handled by the shape-guard comparison
    X = obs["X"].reshape(n, n)
    A = torch.tensor(case["A"], dtype=torch.float64).reshape(n, n)
    if n == 1:           # numel == 1 fast path: no eigh call; the 1x1 decomposition is (a, [[1]])
        L, Q = A.reshape(1).clone(), torch.ones(1, 1, dtype=torch.float64)
        if case["cfg"][1]:
            L = L + case["eps"]
    elif not obs["eigh"]:
        return None
    else:
        _, L, Q = obs["eigh"][-1]
    lam_min, lam_max = float(L.min()), float(L.max())
    if case["cfg"][1]:   # enhance_stability: L are the eigenvalues of A + eps I
        lam_min, lam_max = lam_min - case["eps"], lam_max - case["eps"]
    s = -min(lam_min, 0.0)
    cond = (lam_max + s + case["eps"]) / case["eps"]
    u = U["float64"]
    slack = max(1e-9, 100 * n * u * cond)
    e = float(torch.as_tensor(-1.0 / Fraction(case["p"], case["q"])))
    cap = case["eps"] ** e
    xs = float(X.abs().max()) if bool(torch.isfinite(X).all()) else 1.0
    tol_s = 1e-9 * max(xs, 1e-300)
    tol_c = slack * n * xs * max(float(A.abs().max()), 1e-300)
    bound = cap * (1 + slack)
    return (f"(C11_checkb fo {n}%nat (rows {coq_rows(A.tolist())}) (rows {coq_rows(X.tolist())}) (rows {coq_rows(Q.tolist())}) "
            f"{coq_float(tol_s)} {coq_float(tol_c)} {coq_float(bound)})")


# ------------------------------------------------------------------------------------------------
# measured clauses (NOT theorems): float32 / float64 behaviour of the real routine, n up to 64

BUDGET = 64.0


def finding_signature(shape, A_flat) -> str | None:
    """Known-finding classifier, computed from the INPUT only."""
    if math.prod(shape) == 1 and A_flat[0] < 0:
        return "C11:numel1-fastpath-no-eigenvalue-shift"
    return None


def measure_one(A, p: int, q: int, eps: float, enh: bool, seed: int, dtype: str) -> dict:
    """Finiteness, symmetry, PD, eigenvalue cap, commutation, equivariance of the real eigen path on A (in `dtype`).
    Residuals are evaluated in float64 on the returned matrix and normalised by n*u*cond(A + s + eps)."""
    import torch
    import matrix_functions as mf
    from matrix_functions_types import EigenConfig

    tdt = getattr(torch, dtype)
    u = U[dtype]
    n = A.shape[0]
    Ad = A.to(tdt)
    Ad = (Ad + Ad.T) / 2
    root = Fraction(p, q)
    cfg = EigenConfig(enhance_stability=enh)
    try:
        with quiet():
            X = mf.matrix_inverse_root(Ad, root, cfg, epsilon=eps)
    except Exception as ex:  # noqa
        return {"finite": False, "raised": type(ex).__name__ + ": " + str(ex)[:100]}
    res: dict = {"finite": bool(torch.isfinite(X).all()), "dtype_ok": X.dtype == tdt}
    if not res["finite"]:
        return res
    X64, A64 = X.double(), Ad.double()
    lam = torch.linalg.eigvalsh(A64)
    s = -min(float(lam[0]), 0.0)
    cond = (float(lam[-1]) + s + eps) / eps
    nuc = n * u * cond
    e = float(torch.as_tensor(-1.0 / root))
    cap = eps ** e
    xn = float(X64.abs().max())
    res["cond"] = cond
    res["nuc"] = nuc
    res["nuc_X"] = n * u * max(cond, cond ** (q / p))      # cond(X) = cond^(1/r): decides whether PD can survive rounding
    res["sym_over_nu"] = float((X64 - X64.T).abs().max()) / xn / (n * u)
    ev = torch.linalg.eigvalsh((X64 + X64.T) / 2)
    res["lambda_min_X"] = float(ev[0])
    res["pd"] = float(ev[0]) > 0
    res["pd_c"] = max(0.0, -float(ev[0])) / (nuc * float(ev[-1]))
    res["cap_c"] = max(0.0, float(ev[-1]) / cap - 1.0) / nuc
    an = float(A64.norm())
    res["comm_c"] = (float((X64 @ A64 - A64 @ X64).norm()) / (float(X64.norm()) * an) / nuc) if an > 0 else 0.0
    P = rand_orth(n, seed)
    B64 = P @ A64 @ P.T
    B = ((B64 + B64.T) / 2).to(tdt)
    try:
        with quiet():
            XB = mf.matrix_inverse_root(B, root, cfg, epsilon=eps)
    except Exception as ex:  # noqa
        res["equiv_finite"] = False
        res["raised"] = type(ex).__name__ + ": " + str(ex)[:100]
        res["equiv_c"] = float("inf")
        return res
    res["equiv_finite"] = bool(torch.isfinite(XB).all())
    res["equiv_c"] = float((XB.double() - P @ X64 @ P.T).norm()) / float(X64.norm()) / nuc if res["equiv_finite"] else float("inf")
    return res


def measure_oracle(A) -> dict:
    """What torch.linalg.eigh actually delivers for A (float64): the contract assumed by the theorems."""
    import torch
    L, Q = torch.linalg.eigh(A)
    n = A.shape[0]
    I = torch.eye(n, dtype=A.dtype)
    an = max(float(A.abs().max()), 1e-300)
    return {"QtQ": float((Q.T @ Q - I).abs().max()), "QQt": float((Q @ Q.T - I).abs().max()),
            "recon": float(((Q * L) @ Q.T - A).abs().max()) / an, "ascending": bool((L[1:] >= L[:-1]).all())}


def retry_check() -> list[str]:
    """double-precision retry of matrix_eigenvalue_decomposition: with eigh failing on non-float64 input the routine must
    still return (retry in double), and must re-raise when retry_double_precision is False."""
    import torch
    import matrix_functions as mf
    from matrix_functions_types import EigenConfig

    problems = []
    real = torch.linalg.eigh
    calls = []

    def flaky(A, *a, **kw):
        calls.append(A.dtype)
        if A.dtype != torch.float64:
            raise RuntimeError("verif: injected eigh failure in low precision")
        return real(A, *a, **kw)

    A = make_sym([1.0, 0.5, 0.0, -1e-6], 7).to(torch.float32)
    A = (A + A.T) / 2
    with quiet(), mock.patch.object(mf.torch.linalg, "eigh", flaky):
        try:
            X = mf.matrix_inverse_root(A, Fraction(2), EigenConfig(), epsilon=1e-4)
            ref = mf.matrix_inverse_root(A.double(), Fraction(2), EigenConfig(), epsilon=1e-4)
            if not bool(torch.isfinite(X).all()) or float((X.double() - ref).abs().max()) > 1e-4 * float(ref.abs().max()):
                problems.append("retry in double precision returned a wrong or non-finite matrix")
            if calls[:2] != [torch.float32, torch.float64]:
                problems.append(f"eigh call sequence {calls[:2]} is not (float32, float64)")
        except Exception as ex:  # noqa
            problems.append(f"eigh failure in float32 not retried in double precision: {type(ex).__name__}")
        try:
            mf.matrix_inverse_root(A, Fraction(2), EigenConfig(retry_double_precision=False), epsilon=1e-4)
            problems.append("retry_double_precision=False did not propagate the eigh failure")
        except RuntimeError:
            pass
        except Exception as ex:  # noqa
            problems.append(f"retry_double_precision=False raised {type(ex).__name__} instead of the eigh error")
    return problems


def gen_measure_inputs(rng, thorough: bool):
    sizes = [1, 2, 3, 5, 8, 13, 21, 32, 48, 64]
    reps = 12 if thorough else 3
    kinds = ["zero", "rankdef", "indef", "psd", "indef", "repeated"]
    out = []
    k = 0
    for dtype in ("float32", "float64"):
        u = U[dtype]
        for n in sizes:
            for kind in kinds:
                for _ in range(reps):
                    scale = 10 ** rng.uniform(-6, 6)
                    cond = 10 ** rng.uniform(0, math.log10(0.1 / u) - 1)
                    lam = spectrum(rng, n, kind, scale, cond)
                    A = make_sym(lam, rng.randrange(1 << 40))
                    base = scale if kind != "zero" else 1.0
                    eps = base * 10 ** rng.uniform(math.log10(16 * u), -1)     # not below the dtype resolution of the scale
                    p, q = ROOTS[k % len(ROOTS)]
                    k += 1
                    out.append((A, p, q, eps, rng.random() < 0.5, rng.randrange(1 << 40), dtype, kind))
    return out


# ------------------------------------------------------------------------------------------------


def hist(xs) -> dict:
    h: dict = {}
    for x in xs:
        h[str(x)] = h.get(str(x), 0) + 1
    return dict(sorted(h.items()))


def run(ck: Check) -> None:
    import torch
    common.assert_repo_imports()
    torch.set_num_threads(1)
    ck.coq_props()
    thorough = ck.tier == "thorough"

    # ---- 1. the tie: model (binary64, recorded eigh answer) vs implementation ----------------------
    cases = gen_eigen_cases(ck.rng, 2800 if thorough else 400) + gen_guard_cases(ck.rng)
    observations = [observe(c) for c in cases]
    agree_col = [agree_term(c, o) for c, o in zip(cases, observations)]
    query_col = [query_term(c, o) for c, o in zip(cases, observations)]
    chk_terms = [c11_check_term(c, o) for c, o in zip(cases, observations)]
    chk_col = [t if t is not None else "true" for t in chk_terms]
    agree_s, query_s, chk_s = eval_bool_lists(ck, "c11", [agree_col, query_col, chk_col], per_file=24)
    bad = [i for i in range(len(cases)) if agree_s[i] != "T" or query_s[i] != "T"]
    chk_fail = [i for i in range(len(cases)) if chk_terms[i] is not None and chk_s[i] != "T"]
    chk_fail_all = list(chk_fail)
    # shape guard / root validation are exact statements: the implementation's outcome class must be ValueError
    guard_fail = [i for i, (c, o) in enumerate(zip(cases, observations))
                  if c.get("tag") in ("nonsquare", "root<=0") and not (o["kind"] == "raise" and o.get("exc") == "ValueError")]

    def rep(i):
        c, o = cases[i], observations[i]
        d = {"case": {k: c[k] for k in ("shape", "A", "p", "q", "cfg", "eps", "is_diag", "tag")},
             "impl_outcome": o["kind"] + (":" + o["exc"] if o["kind"] == "raise" else ""),
             "impl_X": o["X"].tolist() if o["kind"] == "ok" else None}
        return d

    if guard_fail:
        i = min(guard_fail, key=lambda i: math.prod(cases[i]["shape"]))
        ck.report(None, f"input of shape {cases[i]['shape']} root {cases[i]['p']}/{cases[i]['q']} cfg {cases[i]['cfg']} is_diagonal={cases[i]['is_diag']} "
                        f"not rejected with ValueError (got {observations[i]['kind']} {observations[i].get('exc', '')})",
                  {"kind": "property-fails", "predicate": "shape_guard / nonpositive_root_rejected", "n_failing": len(guard_fail), **rep(i)})
    if chk_fail:
        known = [i for i in chk_fail if finding_signature(cases[i]["shape"], cases[i]["A"])]
        for i in known[:1]:
            ck.report(finding_signature(cases[i]["shape"], cases[i]["A"]),
                      f"1x1 input with a negative entry ({cases[i]['A'][0]:.3e}, eps {cases[i]['eps']:.3e}): the numel==1 fast path skips the -min(lambda_min,0) shift, "
                      f"result {observations[i]['X'].reshape(-1).tolist()} exceeds eps^e or is not finite",
                      {"kind": "property-fails", "predicate": "C11_checkb", "n_failing": len(known), **rep(i)})
        chk_fail = [i for i in chk_fail if i not in known]
    if chk_fail:
        i = min(chk_fail, key=lambda i: (case_n(cases[i]), i))
        ck.report(None, f"eigen path output violates C11 (C11_checkb false: finite / symmetric / positive Rayleigh quotients <= eps^e / commutes) on a "
                        f"{case_n(cases[i])}x{case_n(cases[i])} {cases[i]['tag']} input, root {cases[i]['p']}/{cases[i]['q']}, cfg {cases[i]['cfg']}",
                  {"kind": "property-fails", "predicate": "C11_checkb", "n_failing": len(chk_fail), "model_agrees": i not in bad, **rep(i)})
    elif bad and not guard_fail:
        i = min(bad, key=lambda i: (case_n(cases[i]), i))
        ck.report(None, f"model/implementation correspondence broken ({len(bad)} cases; first: shape {cases[i]['shape']} root {cases[i]['p']}/{cases[i]['q']} cfg {cases[i]['cfg']} "
                        f"is_diagonal={cases[i]['is_diag']}, impl {observations[i]['kind']} {observations[i].get('exc', '')}) but the implementation's outputs still pass C11_checkb",
                  {"kind": "correspondence", "broken": "MFAgree.agree / eigen_query (model matrix_inverse_root vs implementation)", "n_disagree": len(bad),
                   "agree": agree_s[i], "query": query_s[i], **rep(i),
                   "theorems_not_transferring": ["C11_eigen_root_sym", "C11_eigen_root_pd", "C11_eigen_root_eig_le", "C11_eigen_root_commutes",
                                                 "C11_eigen_root_equivariant", "C11_shape_guard", "C11_nonpositive_root_rejected"]}, no_failing_input=True)

    # ---- 2. measured clauses (float32 / float64, n <= 64) -------------------------------------------
    minputs = gen_measure_inputs(ck.rng, thorough)
    worst = {"sym_over_nu": 0.0, "pd_c": 0.0, "cap_c": 0.0, "comm_c": 0.0, "equiv_c": 0.0}
    nonfinite = 0
    pd_strict_total = pd_strict_fail = 0
    meas_viol = None
    sig_seen = {finding_signature(cases[i]["shape"], cases[i]["A"]) for i in chk_fail_all}
    for (A, p, q, eps, enh, seed, dtype, kind) in minputs:
        r = measure_one(A, p, q, eps, enh, seed, dtype)
        what = None
        if not r["finite"] or not r.get("equiv_finite", True):
            nonfinite += 1
            what = "non-finite inverse root" if "raised" not in r else "unexpected exception " + r["raised"]
        else:
            for k in worst:
                worst[k] = max(worst[k], r[k])
            if r["nuc_X"] <= 1e-2:
                pd_strict_total += 1
                if not r["pd"]:
                    pd_strict_fail += 1
                    what = f"inverse root not positive definite (lambda_min = {r['lambda_min_X']:.3e}) although n*u*cond(X) = {r['nuc_X']:.2e}"
            for k in ("pd_c", "cap_c", "comm_c", "equiv_c"):
                if r[k] > BUDGET and what is None:
                    what = f"measured {k} = {r[k]:.3g} exceeds the budget {BUDGET} (normalised by n*u*cond = {r['nuc']:.2e})"
            if r["sym_over_nu"] > BUDGET and what is None:
                what = f"asymmetry / (n*u) = {r['sym_over_nu']:.3g} exceeds the budget {BUDGET}"
        if what and meas_viol is None:
            sig = finding_signature(list(A.shape), A.reshape(-1).tolist())
            if sig:
                if sig in sig_seen:
                    continue
                sig_seen.add(sig)
                ck.report(sig, f"1x1 input with a negative entry: {what}", {"kind": "measured-clause", "dtype": dtype, "A": A.tolist(), "p": p, "q": q, "eps": eps,
                                                                            "enhance_stability": enh, "orth_seed": seed})
                continue
            meas_viol = (what, {"kind": "measured-clause", "dtype": dtype, "matrix_kind": kind, "A": A.tolist(), "p": p, "q": q, "eps": eps, "enhance_stability": enh,
                                "orth_seed": seed, "measured": {k: v for k, v in r.items()}})
    if meas_viol:
        ck.report(None, f"measured C11 clause fails on the real routine: {meas_viol[0]}", meas_viol[1])
    oracle = {"QtQ": 0.0, "QQt": 0.0, "recon": 0.0, "ascending": True}
    for c, o in zip(cases, observations):
        if o["eigh"]:
            Ain, L, Q = o["eigh"][-1]
            n = Ain.shape[0]
            I = torch.eye(n, dtype=Q.dtype)
            oracle["QtQ"] = max(oracle["QtQ"], float((Q.T @ Q - I).abs().max()))
            oracle["QQt"] = max(oracle["QQt"], float((Q @ Q.T - I).abs().max()))
            oracle["recon"] = max(oracle["recon"], float(((Q * L) @ Q.T - Ain).abs().max()) / max(float(Ain.abs().max()), 1e-300))
            oracle["ascending"] = oracle["ascending"] and bool((L[1:] >= L[:-1]).all())
    if oracle["QtQ"] > 1e-10 or oracle["QQt"] > 1e-10 or oracle["recon"] > 1e-10:
        ck.report(None, f"torch.linalg.eigh does not meet the contract assumed by the theorems on a generated input: {oracle}",
                  {"kind": "oracle-contract", "measured": oracle}, no_failing_input=True)
    retry_problems = retry_check()
    for pr in retry_problems:
        ck.report(None, "double-precision retry of matrix_eigenvalue_decomposition: " + pr, {"kind": "retry", "problem": pr})

    # ---- evidence -----------------------------------------------------------------------------------
    eig_cases = [c for c in cases if c["tag"] not in ("nonsquare", "root<=0", "numel1")]
    nontriv = {(tuple(c["shape"]), c["p"], c["q"], c["cfg"], c["tag"]) for c, o in zip(cases, observations) if case_n(c) >= 2 and o["kind"] == "ok"}
    mid = len(eig_cases) // 2
    ck.coverage.update({
        "evaluations": len(cases) + len(minputs) + 2,
        "distinct_nontrivial": len(nontriv),
        "rule": "tie: model (binary64) fed with the recorded eigh answer vs real matrix_inverse_root, normwise tol 1e-9, exceptions by class, eigh query compared; "
                "non-trivial = distinct (shape, root, config, matrix kind) with n >= 2 on which the implementation returned a matrix",
        "exhaustive": False,
        "samples": [case_brief(eig_cases[0]), case_brief(eig_cases[mid]), case_brief(cases[-1])],
        "distribution": {"n": hist(case_n(c) for c in eig_cases), "matrix_kind": hist(c["tag"] for c in cases), "root": hist(f"{c['p']}/{c['q']}" for c in cases),
                         "config": hist(c["cfg"][0] + (":stab" if c["cfg"][0] == "eigen" and c["cfg"][1] else "") for c in cases),
                         "impl_outcome": hist(o["kind"] + (":" + o["exc"] if o["kind"] == "raise" else "") for o in observations),
                         "shapes_rejected": hist(str(tuple(c["shape"])) for c in cases if c["tag"] == "nonsquare")},
        "disagreements": len(bad),
        "checker_evaluated_on": sum(1 for t in chk_terms if t is not None),
        "checker_failures": len(chk_fail),
        "MEASURED_not_proved": {
            "what": "behaviour of the real routine in float32 and float64 (finiteness, symmetry, positive definiteness, eigenvalue cap eps^e, commutation, "
                    "orthogonal equivariance), residuals normalised by n*u*cond(A + s + eps); budget " + str(BUDGET),
            "inputs": len(minputs), "sizes": "1..64", "dtypes": ["float32", "float64"],
            "kinds": hist(m[7] for m in minputs),
            "non_finite": nonfinite,
            "positive_definite_when_n_u_condX_le_1e-2": f"{pd_strict_total - pd_strict_fail}/{pd_strict_total}",
            "worst_constants": {k: float(f"{v:.4g}") for k, v in worst.items()},
            "eigh_contract_on_tie_inputs_float64": {k: (float(f"{v:.3g}") if not isinstance(v, bool) else v) for k, v in oracle.items()},
            "double_precision_retry": "ok" if not retry_problems else retry_problems,
        },
    })
    ck.assumptions += [
        "torch.linalg.eigh returns (L, Q) with A = Q diag(L) Q^T, Q^T Q = Q Q^T = I (Section hypothesis eigh_contract; residuals measured in this run, see MEASURED_not_proved)",
        "torch.pow on positive bases is the real power function (fpow of the real instance is Rpower)",
        "finiteness / float32-float64 residuals are measured, not proved",
    ]


def replay(obj) -> bool:
    import torch
    common.assert_repo_imports()
    if obj.get("kind") == "measured-clause":
        A = torch.tensor(obj["A"], dtype=torch.float64)
        r = measure_one(A, obj["p"], obj["q"], obj["eps"], obj["enhance_stability"], obj["orth_seed"], obj["dtype"])
        print("measured now:", r)
        print("recorded    :", obj.get("measured"))
        return True
    if "case" in obj:
        c = dict(obj["case"])
        c["cfg"] = tuple(c["cfg"])
        o = observe(c)
        print("implementation outcome:", o["kind"], o.get("exc", ""), o.get("msg", ""))
        if o["kind"] == "ok":
            print(o["X"])
        print("recorded outcome:", obj.get("impl_outcome"))
        return True
    print(obj)
    return True
