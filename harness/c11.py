"""C11 - inverse roots are symmetric positive definite and finite on degenerate input.

Also hosts the machinery shared with C10 (same Coq model MatrixFunctions.v): running the real
`matrix_inverse_root` with `matrix_eigenvalue_decomposition` wrapped so that the answer of
`torch.linalg.eigh` is RECORDED, writing case files in which coqc evaluates the model (binary64 instance)
on the same input and the recorded oracle answer and compares it with the implementation's result.
"""
from __future__ import annotations

import contextlib
import logging
import math
from fractions import Fraction
from unittest import mock

from harness import common
from harness.common import Check, coq_float, coq_bool

META = {
    "property_id": "C11",
    "design_ref": "DESIGN.md §4 C11",
    "technique": "Coq proof over the reals about the Gallina model of matrix_inverse_root (oracle-in-the-loop for eigh) + correspondence evaluated by vm_compute in binary64 + measured float32/float64 residuals",
    "level_text": "under construction",
    "level_note": "under construction",
    "ready": False,
}

U = {"float32": 2.0 ** -24, "float64": 2.0 ** -53}

HEADER = """From Coq Require Import ZArith List String Floats.
From Shampoo Require Import Show Scalar Matrix MatrixFunctions.
Import ListNotations MFAgree.
Open Scope float_scope.
Notation fo := float_ops.
"""

# ------------------------------------------------------------------------------------------------
# configurations: ("eigen", enh) | ("newton", max_iter, tol) | ("ho", rel_eps, max_iter, tol, order) | ("unknown",)


def make_config(cfg):
    from matrix_functions_types import CoupledHigherOrderConfig, CoupledNewtonConfig, EigenConfig, RootInvConfig
    k = cfg[0]
    if k == "eigen":
        return EigenConfig(enhance_stability=bool(cfg[1]))
    if k == "newton":
        return CoupledNewtonConfig(max_iterations=cfg[1], tolerance=cfg[2])
    if k == "ho":
        return CoupledHigherOrderConfig(rel_epsilon=cfg[1], max_iterations=cfg[2], tolerance=cfg[3], order=cfg[4])
    if k == "unknown":
        return _UnknownConfig()
    raise AssertionError(cfg)


class _UnknownConfigBase:
    pass


def _UnknownConfig():
    from matrix_functions_types import RootInvConfig
    import dataclasses

    @dataclasses.dataclass
    class VerifUnknownRootInvConfig(RootInvConfig):
        pass
    return VerifUnknownRootInvConfig()


def coq_config(cfg) -> str:
    k = cfg[0]
    if k == "eigen":
        return f"(EigenCfg {coq_bool(bool(cfg[1]))})"
    if k == "newton":
        return f"(NewtonCfg {cfg[1]}%nat {coq_float(cfg[2])})"
    if k == "ho":
        return f"(HigherOrderCfg {coq_float(cfg[1])} {cfg[2]}%nat {coq_float(cfg[3])} {cfg[4]}%nat)"
    return "UnknownCfg"


def coq_rows(rows) -> str:
    return "[" + "; ".join("[" + "; ".join(coq_float(float(x)) for x in r) + "]" for r in rows) + "]"


def coq_vec(v) -> str:
    return "[" + "; ".join(coq_float(float(x)) for x in v) + "]"


def coq_shape(shape) -> str:
    return "[" + "; ".join(f"{d}%nat" for d in shape) + "]"


def coq_Zlit(n: int) -> str:
    return f"({n})%Z"


@contextlib.contextmanager
def quiet():
    logging.disable(logging.CRITICAL)
    try:
        yield
    finally:
        logging.disable(logging.NOTSET)


EXN = {"ValueError": "ValueError", "NotImplementedError": "NotImplementedError", "ArithmeticError": "ArithmeticError",
       "ZeroDivisionError": "ZeroDivisionError"}


def observe(case: dict, dtype: str = "float64") -> dict:
    """Run the real matrix_inverse_root on `case`; record the eigh query/answer and the iterative solvers' status."""
    import torch
    import matrix_functions as mf

    tdt = getattr(torch, dtype)
    A = torch.tensor(case["A"], dtype=tdt).reshape(case["shape"])
    root = Fraction(case["p"], case["q"])
    rec: dict = {"eigh": [], "iter": []}
    real_eig = mf.matrix_eigenvalue_decomposition
    real_newton = mf._matrix_inverse_root_newton
    real_ho = mf._matrix_inverse_root_higher_order

    def eig_wrap(A_in, *a, **kw):
        L, Q = real_eig(A_in, *a, **kw)
        rec["eigh"].append((A_in.detach().clone(), L.detach().clone(), Q.detach().clone()))   # L is modified in place later
        return L, Q

    def mk_iter_wrap(real):
        def w(*a, **kw):
            out = real(*a, **kw)
            rec["iter"].append((out[2].name, int(out[3]), float(out[4])))
            return out
        return w

    obs: dict = {}
    with quiet(), mock.patch.object(mf, "matrix_eigenvalue_decomposition", eig_wrap), \
            mock.patch.object(mf, "_matrix_inverse_root_newton", mk_iter_wrap(real_newton)), \
            mock.patch.object(mf, "_matrix_inverse_root_higher_order", mk_iter_wrap(real_ho)):
        try:
            X = mf.matrix_inverse_root(A, root, make_config(case["cfg"]), epsilon=case["eps"], is_diagonal=case["is_diag"])
            obs["kind"] = "ok"
            obs["X"] = X
        except Exception as e:  # noqa
            obs["kind"] = "raise"
            obs["exc"] = type(e).__name__
            obs["msg"] = str(e)[:120]
    obs["eigh"] = rec["eigh"]
    obs["iter"] = rec["iter"]
    return obs


def obs_term(case: dict, obs: dict) -> str:
    if obs["kind"] == "raise":
        return f"(ObsRaise {EXN[obs['exc']]})" if obs["exc"] in EXN else "ObsOther"
    X = obs["X"]
    n = case["shape"][0] if len(case["shape"]) == 2 and math.prod(case["shape"]) > 1 else 1
    rows = X.reshape(n, n).tolist()
    if obs["iter"]:
        fl, it, err = obs["iter"][-1]
        return f"(ObsIter {coq_rows(rows)} {fl} {it}%nat {coq_float(err)})"
    return f"(ObsOk {coq_rows(rows)})"


def model_term(case: dict, obs: dict) -> str:
    """matrix_inverse_root float_ops shape A p q cfg eps is_diag L Q, with the recorded eigh answer."""
    shape = case["shape"]
    numel = math.prod(shape)
    if len(shape) == 2:
        rows = [case["A"][i * shape[1]:(i + 1) * shape[1]] for i in range(shape[0])]
    else:
        rows = [case["A"]] if numel else []
    if obs["eigh"]:
        _, L, Q = obs["eigh"][-1]
        Ls, Qs = coq_vec(L.tolist()), coq_rows(Q.tolist())
    else:
        Ls, Qs = "[]", "[]"
    return (f"(matrix_inverse_root fo {coq_shape(shape)} (rows {coq_rows(rows)}) {coq_Zlit(case['p'])} {case['q']}%positive "
            f"{coq_config(case['cfg'])} {coq_float(case['eps'])} {coq_bool(case['is_diag'])} (of_list fo {Ls}) (rows {Qs}))")


def case_n(case: dict) -> int:
    shape = case["shape"]
    return shape[0] if len(shape) == 2 and math.prod(shape) > 1 else 1


def query_term(case: dict, obs: dict) -> str:
    """The matrix the model passes to eigh equals the one the implementation passed (when it called eigh at all)."""
    if not obs["eigh"]:
        return "true"
    n = case_n(case)
    shape = case["shape"]
    rows = [case["A"][i * shape[1]:(i + 1) * shape[1]] for i in range(shape[0])]
    enh = coq_bool(case["cfg"][0] == "eigen" and bool(case["cfg"][1]))
    Ain = obs["eigh"][-1][0].tolist()
    return f"(mclose 0x1p-40 {n}%nat (eigen_query fo {n}%nat (rows {coq_rows(rows)}) {coq_float(case['eps'])} {enh}) (rows {coq_rows(Ain)}))"
