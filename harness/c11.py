"""C11 - inverse roots are symmetric positive definite and finite on degenerate input.

Also hosts the machinery shared with C10 (same Coq model MatrixFunctions.v): running the real
`matrix_inverse_root` with `matrix_eigenvalue_decomposition` wrapped so that the answer of
`torch.linalg.eigh` is RECORDED, writing case files in which coqc evaluates the model (binary64 instance)
on the same input and the recorded oracle answer and compares it with the implementation's result.
"""
from __future__ import annotations

import contextlib
import logging
import math
from fractions import Fraction
from unittest import mock

from harness import common
from harness.common import Check, coq_float, coq_bool

META = {
    "property_id": "C11",
    "design_ref": "DESIGN.md §4 C11",
    "technique": "Coq proof over the reals about the Gallina model of matrix_inverse_root (torch.linalg.eigh as an oracle whose recorded answer is an input of the model) "
                 "+ correspondence evaluated by vm_compute in binary64 inside coqc + certified checker on the implementation's output + measured float32/float64 residuals",
    "level_text": "Proved in Coq (14 theorems, props/C11.v; real-number instance of the model, stdlib real axioms only; shape/root guards closed and valid for every scalar instance): for ANY size n, "
                  "any symmetric A (no PSD assumption), eps > 0, any positive rational root and any answer (L, Q) of eigh satisfying its contract (query = Q diag(L) Q^T, Q^T Q = I; Q Q^T = I is derived, left_inv_right_inv), the matrix returned by "
                  "the eigendecomposition path of matrix_inverse_root - with and without enhance_stability - is symmetric, positive definite (x^T X x > 0), has all eigenvalues <= eps^e "
                  "(x^T X x <= eps^e x^T x; e = the negative binary32-rounded exponent actually used), commutes with A, does not depend on which valid decomposition eigh returns "
                  "(spectral_fun_unique, lambda_min included) and is orthogonally equivariant X(P A P^T) = P X(A) P^T; the numel==1 path has the same properties for every real entry, negative included; "
                  "inputs with numel > 1 that are not square 2-D are rejected with ValueError whatever the configuration, root and flag; root <= 0 is rejected on the eigen and diagonal paths. "
                  "Tie: the same Gallina term, run in binary64 on generated zero / rank-deficient / slightly indefinite / PSD / repeated-spectrum matrices (n = 1..12, scales 1e-6..1e6, 10 roots, both "
                  "stability settings), non-square / non-2-D shapes and roots <= 0, agrees with the real routine (normwise 1e-9, exception classes, the matrix handed to eigh); a certified checker "
                  "(C11_checkb, sound over the reals) evaluates symmetry, commutation, positive Rayleigh quotients <= eps^e on the implementation's own output. "
                  "MEASURED, not proved (labelled so in the evidence): finiteness and the size of the symmetry / PD / cap / commutation / equivariance residuals of the real routine in float32 and float64 "
                  "for n up to 64 relative to n*u*cond; the eigh contract residuals; the double-precision retry.",
    "level_note": "Trusted: Coq kernel + vm_compute; the hand-written model (checked against the code only on generated inputs); the oracle contract for torch.linalg.eigh (A = Q diag(L) Q^T, Q^T Q = I: "
                  "measured every run, never proved); torch.pow = real power on positive bases; nothing is claimed about rounding error of the binary64/binary32 executions beyond the measured constants. "
                  "Newton / higher-order solvers with a non-positive root are outside the model (the code returns NaNs or fails in math.log2 instead of rejecting).",
    "ready": True,
}

U = {"float32": 2.0 ** -24, "float64": 2.0 ** -53}

HEADER = """From Coq Require Import ZArith List String Floats.
From Shampoo Require Import Show Scalar Matrix MatrixFunctions.
Import ListNotations MFAgree.
Open Scope float_scope.
Notation fo := float_ops.
"""

# ------------------------------------------------------------------------------------------------
# configurations: ("eigen", enh) | ("newton", max_iter, tol) | ("ho", rel_eps, max_iter, tol, order) | ("unknown",)


def make_config(cfg):
    from matrix_functions_types import CoupledHigherOrderConfig, CoupledNewtonConfig, EigenConfig, RootInvConfig
    k = cfg[0]
    if k == "eigen":
        if len(cfg) > 2 and cfg[2]:
            return EigenConfig(enhance_stability=bool(cfg[1]), eigen_decomp_offload_device=cfg[2])
        return EigenConfig(enhance_stability=bool(cfg[1]))
    if k == "newton":
        return CoupledNewtonConfig(max_iterations=cfg[1], tolerance=cfg[2])
    if k == "ho":
        return CoupledHigherOrderConfig(rel_epsilon=cfg[1], max_iterations=cfg[2], tolerance=cfg[3], order=cfg[4])
    if k == "unknown":
        return _UnknownConfig()
    raise AssertionError(cfg)


class _UnknownConfigBase:
    pass


def _UnknownConfig():
    from matrix_functions_types import RootInvConfig
    import dataclasses

    @dataclasses.dataclass
    class VerifUnknownRootInvConfig(RootInvConfig):
        pass
    return VerifUnknownRootInvConfig()


def coq_config(cfg) -> str:
    k = cfg[0]
    if k == "eigen":        # the offload device (cfg[2]) is not part of the model: it must not change anything
        return f"(EigenCfg {coq_bool(bool(cfg[1]))})"
    if k == "newton":
        return f"(NewtonCfg {cfg[1]}%nat {coq_float(cfg[2])})"
    if k == "ho":
        return f"(HigherOrderCfg {coq_float(cfg[1])} {cfg[2]}%nat {coq_float(cfg[3])} {cfg[4]}%nat)"
    return "UnknownCfg"


def coq_rows(rows) -> str:
    return "[" + "; ".join("[" + "; ".join(coq_float(float(x)) for x in r) + "]" for r in rows) + "]"


def coq_vec(v) -> str:
    return "[" + "; ".join(coq_float(float(x)) for x in v) + "]"


def coq_shape(shape) -> str:
    return "[" + "; ".join(f"{d}%nat" for d in shape) + "]"


def coq_Zlit(n: int) -> str:
    return f"({n})%Z"


@contextlib.contextmanager
def quiet():
    logging.disable(logging.CRITICAL)
    try:
        yield
    finally:
        logging.disable(logging.NOTSET)


EXN = {"ValueError": "ValueError", "NotImplementedError": "NotImplementedError", "ArithmeticError": "ArithmeticError",
       "ZeroDivisionError": "ZeroDivisionError"}


def observe(case: dict, dtype: str = "float64") -> dict:
    """Run the real matrix_inverse_root on `case`; record the eigh query/answer and the iterative solvers' status."""
    import torch
    import matrix_functions as mf

    tdt = getattr(torch, dtype)
    A = torch.tensor(case["A"], dtype=tdt).reshape(case["shape"])
    layout = case.get("layout")
    if layout and A.dim() == 2 and A.numel() > 1:
        if layout == "strided":          # a view into a larger buffer with strides (2*2c, 2)
            big = torch.full((2 * A.shape[0], 2 * A.shape[1]), float("nan"), dtype=tdt)
            big[::2, ::2] = A
            A = big[::2, ::2]
        elif layout == "transposed":     # column-major storage of the same values
            A = A.t().contiguous().t()
    A_before = A.clone()
    root = Fraction(case["p"], case["q"])
    rec: dict = {"eigh": [], "iter": [], "iter_M": []}
    real_eig = mf.matrix_eigenvalue_decomposition
    real_newton = mf._matrix_inverse_root_newton
    real_ho = mf._matrix_inverse_root_higher_order

    def eig_wrap(A_in, *a, **kw):
        L, Q = real_eig(A_in, *a, **kw)
        rec["eigh"].append((A_in.detach().clone(), L.detach().clone(), Q.detach().clone()))   # L is modified in place later
        return L, Q

    def mk_iter_wrap(real):
        def w(*a, **kw):
            out = real(*a, **kw)
            rec["iter"].append((out[2].name, int(out[3]), float(out[4])))
            rec["iter_M"].append(out[1].detach().clone())
            return out
        return w

    obs: dict = {}
    with quiet(), mock.patch.object(mf, "matrix_eigenvalue_decomposition", eig_wrap), \
            mock.patch.object(mf, "_matrix_inverse_root_newton", mk_iter_wrap(real_newton)), \
            mock.patch.object(mf, "_matrix_inverse_root_higher_order", mk_iter_wrap(real_ho)):
        try:
            X = mf.matrix_inverse_root(A, root, make_config(case["cfg"]), epsilon=case["eps"], is_diagonal=case["is_diag"])
            obs["kind"] = "ok"
            obs["X"] = X
        except Exception as e:  # noqa
            obs["kind"] = "raise"
            obs["exc"] = type(e).__name__
            obs["msg"] = str(e)[:120]
        obs["input_mutated"] = not torch.equal(A, A_before)
        if case.get("twice") and obs["kind"] == "ok":       # a second call in the same process, same tensor object
            try:
                X2 = mf.matrix_inverse_root(A, root, make_config(case["cfg"]), epsilon=case["eps"], is_diagonal=case["is_diag"])
                obs["second_call_differs"] = not torch.equal(torch.nan_to_num(X2), torch.nan_to_num(obs["X"]))
            except Exception as e:  # noqa
                obs["second_call_differs"] = True
            rec["eigh"] = rec["eigh"][:1]
            rec["iter"] = rec["iter"][:1]
    obs["eigh"] = rec["eigh"]
    obs["iter"] = rec["iter"]
    obs["iter_M"] = rec["iter_M"][:len(rec["iter"])]
    return obs


def obs_term(case: dict, obs: dict) -> str:
    if obs["kind"] == "raise":
        return f"(ObsRaise {EXN[obs['exc']]})" if obs["exc"] in EXN else "ObsOther"
    X = obs["X"]
    n = case["shape"][0] if len(case["shape"]) == 2 and math.prod(case["shape"]) > 1 else 1
    if X.numel() != n * n:
        return "ObsOther"
    rows = X.reshape(n, n).tolist()
    if obs["iter"]:
        fl, it, err = obs["iter"][-1]
        return f"(ObsIter {coq_rows(rows)} {fl} {it}%nat {coq_float(err)})"
    return f"(ObsOk {coq_rows(rows)})"


def model_term(case: dict, obs: dict) -> str:
    """matrix_inverse_root float_ops shape A p q cfg eps is_diag L Q, with the recorded eigh answer."""
    shape = case["shape"]
    numel = math.prod(shape)
    if len(shape) == 2:
        rows = [case["A"][i * shape[1]:(i + 1) * shape[1]] for i in range(shape[0])]
    else:
        rows = [case["A"]] if numel else []
    if obs["eigh"]:
        _, L, Q = obs["eigh"][-1]
        Ls, Qs = coq_vec(L.tolist()), coq_rows(Q.tolist())
    else:
        Ls, Qs = "[]", "[]"
    return (f"(matrix_inverse_root fo {coq_shape(shape)} (rows {coq_rows(rows)}) {coq_Zlit(case['p'])} {case['q']}%positive "
            f"{coq_config(case['cfg'])} {coq_float(case['eps'])} {coq_bool(case['is_diag'])} (of_list fo {Ls}) (rows {Qs}))")


def case_n(case: dict) -> int:
    shape = case["shape"]
    return shape[0] if len(shape) == 2 and math.prod(shape) > 1 else 1


def query_term(case: dict, obs: dict) -> str:
    """The matrix the model passes to eigh equals the one the implementation passed (when it called eigh at all)."""
    if not obs["eigh"]:
        return "true"
    n = case_n(case)
    enh = coq_bool(case["cfg"][0] == "eigen" and bool(case["cfg"][1]))
    Ain = obs["eigh"][-1][0].tolist()
    return (f"(mclose 0x1p-40 {n}%nat (eigen_query fo {n}%nat (rows {coq_rows(case_rows(case))}) {coq_float(case['eps'])} {enh}) "
            f"(rows {coq_rows(Ain)}))")


def case_rows(case: dict):
    shape = case["shape"]
    return [case["A"][i * shape[1]:(i + 1) * shape[1]] for i in range(shape[0])]


TOL_EIGEN = 1e-9
TOL_ITER = 1e-6


def agree_term(case: dict, obs: dict) -> str:
    tol = TOL_EIGEN if (case["cfg"][0] in ("eigen", "unknown") or case["is_diag"] or case_n(case) == 1) else TOL_ITER
    return f"agree {coq_float(tol)} {case_n(case)}%nat {model_term(case, obs)} {obs_term(case, obs)}"


def eval_bool_lists(ck: Check, prefix: str, columns: list[list[str]], per_file: int) -> list[str]:
    """columns[k][i] = Coq boolean term number k of case i.  Returns, per column, the string of T/F."""
    ncase = len(columns[0]) if columns else 0
    sources = {}
    for fi, lo in enumerate(range(0, ncase, per_file)):
        parts = [HEADER]
        for k, col in enumerate(columns):
            parts.append(f"Definition r{k} : list bool := [\n" + ";\n".join(col[lo:lo + per_file]) + "].\nEval vm_compute in show_bools r" + str(k) + ".\n")
        sources[f"{prefix}_{fi:04d}"] = "\n".join(parts)
    out = ck.eval_coq(sources) if sources else {}
    res = []
    for k in range(len(columns)):
        res.append("".join(out[f"{prefix}_{fi:04d}"][k] for fi in range(len(sources))))
        assert len(res[-1]) == ncase, (prefix, k, len(res[-1]), ncase)
    return res


# ------------------------------------------------------------------------------------------------
# input generators (every random choice from ck.rng)


def rand_orth(n: int, seed: int):
    import torch
    g = torch.Generator().manual_seed(seed)
    Q, _ = torch.linalg.qr(torch.randn(n, n, dtype=torch.float64, generator=g))
    return Q


def spectrum(rng, n: int, kind: str, scale: float, cond: float) -> list[float]:
    """Eigenvalues for a test matrix.  kinds: psd | rankdef | zero | indef | repeated."""
    if kind == "zero":
        return [0.0] * n
    lc = math.log10(cond)
    lam = [scale * 10 ** (-rng.random() * lc) for _ in range(n)]
    lam[0] = scale
    if n > 1:
        lam[-1] = scale / cond
    if kind == "repeated":
        vals = lam[:max(1, min(3, n // 2))]
        lam = [rng.choice(vals) for _ in range(n)]
        lam[0] = scale
    if kind in ("rankdef", "indef") and n > 1:
        k = rng.randint(1, n - 1)
        for i in range(k, n):
            lam[i] = 0.0
    if kind == "indef":
        m = rng.randint(1, max(1, min(2, n - 1))) if n > 1 else 1
        for i in range(m):
            lam[n - 1 - i] = -scale * 10 ** rng.uniform(-9, -3)     # lambda_min in [-1e-3 * scale, 0)
    rng.shuffle(lam)
    return lam


def make_sym(lam: list[float], seed: int, diagonal: bool = False):
    import torch
    n = len(lam)
    if diagonal or n == 1:
        return torch.diag(torch.tensor(lam, dtype=torch.float64))
    Q = rand_orth(n, seed)
    A = (Q * torch.tensor(lam, dtype=torch.float64)) @ Q.T
    return (A + A.T) / 2


ROOTS = [(1, 1), (2, 1), (3, 1), (4, 1), (8, 1), (3, 2), (4, 3), (5, 2), (2, 3), (8, 3)]


ROOTS_EXTRA = [(16, 1), (10, 1), (100, 1), (1, 2), (7, 5), (6, 1)]
MULTIPLIERS = [1.82, 0.5, 1.5, 3.0, 0.9]
AWKWARD_MULTIPLIERS = [1.777, 1.4142, 1.2345678]      # root / multiplier is not a ratio with a small denominator


def awkward_roots(rng, count: int) -> list[tuple[int, int]]:
    """Roots exactly as the optimizer builds them, Fraction(r / exponent_multiplier), from multipliers with many significant digits, and
    roots Fraction(1 / e) whose exponent e IS a binary32 number (so that not even the binary32 rounding of the exponent blurs the reference)."""
    import struct
    out = []
    mults = AWKWARD_MULTIPLIERS + [rng.uniform(1.0, 2.0) for _ in range(3)]
    i = 0
    while len(out) < count:
        if i % 2 == 0:
            out.append(multiplier_root((2, 4, 6)[(i // 2) % 3], mults[(i // 2) % len(mults)]))
        else:
            e32 = struct.unpack("f", struct.pack("f", rng.uniform(0.2, 0.95)))[0]
            f = Fraction(1.0 / e32)
            out.append((f.numerator, f.denominator))
        i += 1
    return out


def multiplier_root(r: int, mult: float) -> tuple[int, int]:
    """The root the optimizer passes when EigenConfig.exponent_multiplier is set: Fraction(r / multiplier) - a float turned into a
    Fraction, i.e. a huge numerator over a power of two."""
    f = Fraction(r / mult)
    return f.numerator, f.denominator


STRUCTURED = ["constdiag-toeplitz", "rank1-pm", "equicorr", "deadcoord", "diag-nonascending", "identity-multiple", "blockcorr", "circulant"]


def structured(rng, n: int, kind: str, scale: float):
    """Structured symmetric PSD matrices (float64) of size n (n >= 2 where the structure needs it)."""
    import torch
    idx = torch.arange(n)
    d = (idx[:, None] - idx[None, :]).abs()
    if kind == "constdiag-toeplitz":
        A = torch.tensor(rng.choice([0.3, 0.5, 0.9]), dtype=torch.float64) ** d
    elif kind == "circulant":
        A = torch.tensor(rng.choice([0.2, 0.5]), dtype=torch.float64) ** torch.minimum(d, n - d)
    elif kind == "rank1-pm":
        g = torch.tensor([rng.choice([-1.0, 1.0]) for _ in range(n)], dtype=torch.float64)
        A = torch.outer(g, g)
    elif kind == "equicorr":
        A = torch.full((n, n), rng.choice([0.25, 0.5, 6.0 ** -0.5, 0.9]), dtype=torch.float64).fill_diagonal_(1.0)
    elif kind == "deadcoord":                # a coordinate that never received a gradient: zero row and column
        A = make_sym(spectrum(rng, n, "psd", 1.0, 10 ** rng.uniform(0, 4)), rng.randrange(1 << 40))
        k = rng.randrange(n)
        A[k, :] = 0.0
        A[:, k] = 0.0
    elif kind == "diag-nonascending":        # exactly diagonal, entries in descending / mixed order, one repeated
        vals = sorted([10 ** rng.uniform(-4, 0) for _ in range(n)], reverse=True)
        if n > 2:
            vals[1] = vals[0]
        A = torch.diag(torch.tensor(vals, dtype=torch.float64))
    elif kind == "identity-multiple":
        A = torch.eye(n, dtype=torch.float64)
    elif kind == "blockcorr":
        r = rng.choice([0.5, 0.75, 0.95])
        A = torch.eye(n, dtype=torch.float64)
        for i in range(0, n - 1, 2):
            A[i, i + 1] = A[i + 1, i] = r
    else:
        raise AssertionError(kind)
    A = (A + A.T) / 2 * scale
    return A


def new_case(A, p, q, cfg, eps, is_diag=False, tag="") -> dict:
    return {"shape": list(A.shape), "A": A.reshape(-1).tolist(), "p": p, "q": q, "cfg": tuple(cfg), "eps": float(eps),
            "is_diag": bool(is_diag), "tag": tag}


def case_brief(case: dict) -> dict:
    return {"shape": case["shape"], "root": f"{case['p']}/{case['q']}", "cfg": list(case["cfg"]), "eps": case["eps"],
            "is_diag": case["is_diag"], "kind": case.get("tag", "")}


def gen_eigen_cases(rng, count: int, nmax: int = 12) -> list[dict]:
    """Symmetric inputs for the eigen configuration: zero, rank-deficient, slightly indefinite, PSD, repeated spectra."""
    cases = []
    kinds = ["zero", "rankdef", "indef", "indef", "psd", "repeated"]
    for k in range(count):
        n = 1 + (k % nmax) if k < 2 * nmax else rng.randint(1, nmax)
        kind = kinds[k % len(kinds)]
        scale = 10 ** rng.uniform(-6, 6)
        cond = 10 ** rng.uniform(0, 8)
        lam = spectrum(rng, n, kind, scale, cond)
        diagonal = rng.random() < 0.1
        A = make_sym(lam, rng.randrange(1 << 40), diagonal=diagonal)
        eps = (scale if kind != "zero" else 1.0) * 10 ** rng.uniform(-10, -1)
        p, q = rng.choice(ROOTS)
        enh = rng.random() < 0.5
        cases.append(new_case(A, p, q, ("eigen", enh), eps, False, kind + ("-diag" if diagonal else "")))
    return cases


def gen_targeted_eigen_cases(rng) -> list[dict]:
    """Input classes named or plainly allowed by C11's quantifier that the random stream hits rarely or never (quantifier audit)."""
    import torch
    cases = []

    def add(A, p, q, enh, eps, tag, **extra):
        c = new_case(A, p, q, ("eigen", enh) + ((extra.pop("offload"),) if "offload" in extra else ()), eps, False, tag)
        c.update(extra)
        cases.append(c)

    k = 0
    # structured matrices, each with both stability settings
    for kind in STRUCTURED:
        for n in (2, 3, 4, 7):
            scale = 10 ** rng.uniform(-6, 6)
            A = structured(rng, n, kind, scale)
            p, q = (ROOTS + ROOTS_EXTRA)[k % (len(ROOTS) + len(ROOTS_EXTRA))]
            k += 1
            add(A, p, q, k % 2 == 0, scale * 10 ** rng.uniform(-8, -1), "struct:" + kind)
    for n in (1, 2, 5, 9):
        scale = 10 ** rng.uniform(-6, 6)
        # every eigenvalue in [-1e-3*scale, 0]: nothing positive at all
        lam = [-scale * 1e-3 * rng.random() for _ in range(n)]
        lam[0] = 0.0 if n > 1 else lam[0]
        for enh in (False, True):
            add(make_sym(lam, rng.randrange(1 << 40)), *rng.choice(ROOTS), enh, scale * 10 ** rng.uniform(-9, -2), "nonpositive")
        # lambda_min exactly at the boundary -1e-3*scale; eps below and above |lambda_min|
        lam = spectrum(rng, n, "psd", scale, 100.0)
        lam[-1] = -1e-3 * scale
        for eps_rel in (1e-5, 1e-3, 1e-1):
            add(make_sym(lam, rng.randrange(1 << 40)), *rng.choice(ROOTS), k % 2 == 0, scale * eps_rel, "indef-boundary")
            k += 1
    # eps regimes relative to |lambda_min| (both sides, close to equality) and eps >= scale
    for n in (2, 3, 6):
        scale = 10 ** rng.uniform(-6, 6)
        lmin = -scale * 10 ** rng.uniform(-8, -4)
        lam = spectrum(rng, n, "rankdef", scale, 1e3)
        lam[-1] = lmin
        A = make_sym(lam, rng.randrange(1 << 40))
        for f in (0.01, 0.5, 0.999, 1.001, 2.0, 100.0):
            for enh in (False, True):
                add(A, *rng.choice(ROOTS), enh, abs(lmin) * f, "eps~|lmin|")
        for f in (1.0, 30.0, 1e3):
            add(A, *rng.choice(ROOTS), k % 2 == 0, scale * f, "eps>=scale")
            k += 1
    # roots: large, below one, non-dyadic, and Fraction(r / exponent_multiplier) as the optimizer builds it
    for (p, q) in ROOTS_EXTRA + [multiplier_root(r, m) for r in (2, 4, 8) for m in MULTIPLIERS[:3]]:
        n = rng.randint(2, 8)
        scale = 10 ** rng.uniform(-3, 3)
        kind = rng.choice(["indef", "rankdef", "psd"])
        A = make_sym(spectrum(rng, n, kind, scale, 10 ** rng.uniform(0, 5)), rng.randrange(1 << 40))
        add(A, p, q, k % 2 == 0, scale * 10 ** rng.uniform(-5, -1), "root:" + ("multiplier" if q > 1000 else f"{p}/{q}") + ":" + kind)
        k += 1
    # memory layout, offload device option, second call on the same tensor
    for n in (2, 5, 8):
        for layout in ("strided", "transposed"):
            scale = 10 ** rng.uniform(-3, 3)
            A = make_sym(spectrum(rng, n, "indef", scale, 1e4), rng.randrange(1 << 40))
            add(A, *rng.choice(ROOTS), k % 2 == 0, scale * 1e-5, "layout:" + layout, layout=layout, twice=True)
            k += 1
        A = make_sym(spectrum(rng, n, "indef", 1.0, 1e4), rng.randrange(1 << 40))
        add(A, *rng.choice(ROOTS), k % 2 == 0, 1e-5, "offload:cpu", offload="cpu")
        add(A, *rng.choice(ROOTS), k % 2 == 1, 1e-5, "twice", twice=True)
        k += 1
    return cases


def gen_guard_cases(rng) -> list[dict]:
    """numel > 1 and not a square 2-D matrix: every configuration and flag must raise ValueError; root <= 0."""
    import torch
    cases = []
    cfgs = [("eigen", False), ("eigen", True), ("newton", 10, 1e-6), ("ho", 0.0, 10, 1e-8, 3), ("unknown",)]
    shapes = [(2,), (3,), (7,), (2, 3), (3, 2), (1, 2), (2, 1), (4, 1), (1, 5), (2, 2, 2), (1, 2, 2), (2, 1, 2), (1, 1, 2), (2, 3, 4), (3, 3, 1), (1, 3, 3), (2, 2, 1, 1),
              (64, 63), (63, 64), (1, 64), (128,), (3, 3, 3), (4, 4, 1), (1, 4, 4), (16, 1, 16)]
    for sh in shapes:
        for cfg in cfgs:
            A = torch.tensor([rng.uniform(0.5, 2.0) for _ in range(math.prod(sh))], dtype=torch.float64).reshape(sh)
            p, q = rng.choice(ROOTS + [(0, 1), (-2, 1)])
            cases.append(new_case(A, p, q, cfg, 0.1, rng.random() < 0.3, "nonsquare"))
    # root <= 0 on square inputs: diagonal flag and eigen configurations -> ValueError
    for p, q in [(0, 1), (-1, 1), (-2, 1), (-3, 2), (-1, 3)]:
        for n in (2, 3, 5):
            A = make_sym([1.0 + i for i in range(n)], rng.randrange(1 << 40))
            for cfg, isd in [(("eigen", False), False), (("eigen", True), False), (("eigen", False), True), (("newton", 5, 1e-6), True),
                             (("ho", 0.0, 5, 1e-8, 3), True), (("unknown",), True)]:
                cases.append(new_case(A, p, q, cfg, 0.1, isd, "root<=0"))
    # numel == 1: any shape, any configuration, no root validation (root 0 -> ZeroDivisionError)
    for sh in [(), (1,), (1, 1), (1, 1, 1)]:
        for cfg in cfgs:
            A = torch.tensor([rng.uniform(0.5, 2.0)], dtype=torch.float64).reshape(sh)
            p, q = rng.choice(ROOTS + [(0, 1), (-2, 1)])
            cases.append(new_case(A, p, q, cfg, 0.1, rng.random() < 0.3, "numel1"))
    return cases


# ------------------------------------------------------------------------------------------------
# C11 checker call on the implementation's output


def c11_check_term(case: dict, obs: dict) -> str | None:
    """C11_checkb on the implementation's X for eigen-configuration cases with eps > 0, root > 0, n > 1."""
    import torch
    if obs["kind"] != "ok" or case["cfg"][0] != "eigen" or case["is_diag"] or case["p"] <= 0 or case["eps"] <= 0:
        return None
    n = case_n(case)
    if obs["X"].numel() != n * n or len(case["A"]) != n * n:
        return None          # not a square input / output: handled by the shape-guard comparison
    X = obs["X"].reshape(n, n)
    A = torch.tensor(case["A"], dtype=torch.float64).reshape(n, n)
    if n == 1:           # numel == 1 fast path: no eigh call; the 1x1 decomposition is (a, [[1]])
        L, Q = A.reshape(1).clone(), torch.ones(1, 1, dtype=torch.float64)
        if case["cfg"][1]:
            L = L + case["eps"]
    elif not obs["eigh"]:
        return None
    else:
        _, L, Q = obs["eigh"][-1]
    lam_min, lam_max = float(L.min()), float(L.max())
    if case["cfg"][1]:   # enhance_stability: L are the eigenvalues of A + eps I
        lam_min, lam_max = lam_min - case["eps"], lam_max - case["eps"]
    s = -min(lam_min, 0.0)
    cond = (lam_max + s + case["eps"]) / case["eps"]
    u = U["float64"]
    slack = max(1e-9, 100 * n * u * cond)
    e = float(torch.as_tensor(-1.0 / Fraction(case["p"], case["q"])))
    cap = case["eps"] ** e
    xs = float(X.abs().max()) if bool(torch.isfinite(X).all()) else 1.0
    tol_s = 1e-9 * max(xs, 1e-300)
    tol_c = slack * n * xs * max(float(A.abs().max()), 1e-300)
    bound = cap * (1 + slack)
    return (f"(C11_checkb fo {n}%nat (rows {coq_rows(A.tolist())}) (rows {coq_rows(X.tolist())}) (rows {coq_rows(Q.tolist())}) "
            f"{coq_float(tol_s)} {coq_float(tol_c)} {coq_float(bound)})")


# ------------------------------------------------------------------------------------------------
# measured clauses (NOT theorems): float32 / float64 behaviour of the real routine, n up to 64

BUDGET = 64.0


def finding_signature(shape, A_flat) -> str | None:
    """Known-finding classifier, computed from the INPUT only."""
    if math.prod(shape) == 1 and A_flat[0] < 0:
        return "C11:numel1-fastpath-no-eigenvalue-shift"
    return None


def measure_one(A, p: int, q: int, eps: float, enh: bool, seed: int, dtype: str) -> dict:
    """Finiteness, symmetry, PD, eigenvalue cap, commutation, equivariance of the real eigen path on A (in `dtype`).
    Residuals are evaluated in float64 on the returned matrix and normalised by n*u*cond(A + s + eps)."""
    import torch
    import matrix_functions as mf
    from matrix_functions_types import EigenConfig

    tdt = getattr(torch, dtype)
    u = U[dtype]
    n = A.shape[0]
    Ad = A.to(tdt)
    Ad = (Ad + Ad.T) / 2
    root = Fraction(p, q)
    cfg = EigenConfig(enhance_stability=enh)
    try:
        with quiet():
            X = mf.matrix_inverse_root(Ad, root, cfg, epsilon=eps)
    except Exception as ex:  # noqa
        return {"finite": False, "raised": type(ex).__name__ + ": " + str(ex)[:100]}
    res: dict = {"finite": bool(torch.isfinite(X).all()), "dtype_ok": X.dtype == tdt}
    if not res["finite"]:
        return res
    X64, A64 = X.double(), Ad.double()
    lam = torch.linalg.eigvalsh(A64)
    s = -min(float(lam[0]), 0.0)
    cond = (float(lam[-1]) + s + eps) / eps
    nuc = n * u * cond
    e = float(torch.as_tensor(-1.0 / root))
    cap = eps ** e
    xn = float(X64.abs().max())
    res["cond"] = cond
    res["nuc"] = nuc
    res["nuc_X"] = n * u * max(cond, cond ** (q / p))      # cond(X) = cond^(1/r): decides whether PD can survive rounding
    res["sym_over_nu"] = float((X64 - X64.T).abs().max()) / xn / (n * u)
    ev = torch.linalg.eigvalsh((X64 + X64.T) / 2)
    res["lambda_min_X"] = float(ev[0])
    res["pd"] = float(ev[0]) > 0
    res["pd_c"] = max(0.0, -float(ev[0])) / (nuc * float(ev[-1]))
    res["cap_c"] = max(0.0, float(ev[-1]) / cap - 1.0) / nuc
    an = float(A64.norm())
    res["comm_c"] = (float((X64 @ A64 - A64 @ X64).norm()) / (float(X64.norm()) * an) / nuc) if an > 0 else 0.0
    P = rand_orth(n, seed)
    B64 = P @ A64 @ P.T
    B = ((B64 + B64.T) / 2).to(tdt)
    try:
        with quiet():
            XB = mf.matrix_inverse_root(B, root, cfg, epsilon=eps)
    except Exception as ex:  # noqa
        res["equiv_finite"] = False
        res["raised"] = type(ex).__name__ + ": " + str(ex)[:100]
        res["equiv_c"] = float("inf")
        return res
    res["equiv_finite"] = bool(torch.isfinite(XB).all())
    res["equiv_c"] = float((XB.double() - P @ X64 @ P.T).norm()) / float(X64.norm()) / nuc if res["equiv_finite"] else float("inf")
    return res


def measure_oracle(A) -> dict:
    """What torch.linalg.eigh actually delivers for A (float64): the contract assumed by the theorems."""
    import torch
    L, Q = torch.linalg.eigh(A)
    n = A.shape[0]
    I = torch.eye(n, dtype=A.dtype)
    an = max(float(A.abs().max()), 1e-300)
    return {"QtQ": float((Q.T @ Q - I).abs().max()), "QQt": float((Q @ Q.T - I).abs().max()),
            "recon": float(((Q * L) @ Q.T - A).abs().max()) / an, "ascending": bool((L[1:] >= L[:-1]).all())}


def retry_check() -> list[str]:
    """double-precision retry of matrix_eigenvalue_decomposition: with eigh failing on non-float64 input the routine must
    still return (retry in double), and must re-raise when retry_double_precision is False."""
    import torch
    import matrix_functions as mf
    from matrix_functions_types import EigenConfig

    problems = []
    real = torch.linalg.eigh
    calls = []

    def flaky(A, *a, **kw):
        calls.append(A.dtype)
        if A.dtype != torch.float64:
            raise RuntimeError("verif: injected eigh failure in low precision")
        return real(A, *a, **kw)

    A = make_sym([1.0, 0.5, 0.0, -1e-6], 7).to(torch.float32)
    A = (A + A.T) / 2
    with quiet(), mock.patch.object(mf.torch.linalg, "eigh", flaky):
        try:
            X = mf.matrix_inverse_root(A, Fraction(2), EigenConfig(), epsilon=1e-4)
            ref = mf.matrix_inverse_root(A.double(), Fraction(2), EigenConfig(), epsilon=1e-4)
            if not bool(torch.isfinite(X).all()) or float((X.double() - ref).abs().max()) > 1e-4 * float(ref.abs().max()):
                problems.append("retry in double precision returned a wrong or non-finite matrix")
            if calls[:2] != [torch.float32, torch.float64]:
                problems.append(f"eigh call sequence {calls[:2]} is not (float32, float64)")
        except Exception as ex:  # noqa
            problems.append(f"eigh failure in float32 not retried in double precision: {type(ex).__name__}")
        try:
            mf.matrix_inverse_root(A, Fraction(2), EigenConfig(retry_double_precision=False), epsilon=1e-4)
            problems.append("retry_double_precision=False did not propagate the eigh failure")
        except RuntimeError:
            pass
        except Exception as ex:  # noqa
            problems.append(f"retry_double_precision=False raised {type(ex).__name__} instead of the eigh error")
    return problems


def gen_measure_inputs(rng, thorough: bool):
    sizes = [1, 2, 3, 5, 8, 13, 21, 32, 48, 64]
    reps = 12 if thorough else 3
    kinds = ["zero", "rankdef", "indef", "psd", "indef", "repeated"]
    out = []
    k = 0
    for dtype in ("float32", "float64"):
        u = U[dtype]
        for n in sizes:
            for kind in kinds:
                for _ in range(reps):
                    scale = 10 ** rng.uniform(-6, 6)
                    cond = 10 ** rng.uniform(0, math.log10(0.1 / u) - 1)
                    lam = spectrum(rng, n, kind, scale, cond)
                    A = make_sym(lam, rng.randrange(1 << 40))
                    base = scale if kind != "zero" else 1.0
                    eps = base * 10 ** rng.uniform(math.log10(16 * u), -1)     # not below the dtype resolution of the scale
                    p, q = ROOTS[k % len(ROOTS)]
                    k += 1
                    out.append((A, p, q, eps, rng.random() < 0.5, rng.randrange(1 << 40), dtype, kind))
    # targeted classes (quantifier audit): structured matrices, nothing-positive spectra, the boundary lambda_min = -1e-3*scale,
    # eps on both sides of |lambda_min| and >= scale, large / small / multiplier roots, sizes 63 and 64
    allroots = ROOTS + ROOTS_EXTRA + [multiplier_root(r, m) for r in (2, 4) for m in MULTIPLIERS[:2]]
    for dtype in ("float32", "float64"):
        u = U[dtype]
        for kind in STRUCTURED:
            for n in ((2, 5, 16, 63) if not thorough else (2, 3, 5, 8, 16, 33, 63, 64)):
                scale = 10 ** rng.uniform(-6, 6)
                A = structured(rng, n, kind, scale)
                p, q = allroots[k % len(allroots)]
                k += 1
                out.append((A, p, q, scale * 10 ** rng.uniform(math.log10(64 * u), -1), k % 2 == 0, rng.randrange(1 << 40), dtype, "struct:" + kind))
        for n in (1, 2, 6, 20, 64):
            scale = 10 ** rng.uniform(-6, 6)
            lam = [-scale * 1e-3 * rng.random() for _ in range(n)]
            out.append((make_sym(lam, rng.randrange(1 << 40)), *ROOTS[k % len(ROOTS)], scale * 10 ** rng.uniform(math.log10(64 * u), -2), k % 2 == 0, rng.randrange(1 << 40), dtype, "nonpositive"))
            lam = spectrum(rng, n, "psd", scale, 100.0)
            lam[-1] = -1e-3 * scale
            A = make_sym(lam, rng.randrange(1 << 40))
            for eps_rel in (1e-4, 1e-3 * 0.999, 1e-3 * 1.001, 1.0, 50.0):
                out.append((A, *allroots[k % len(allroots)], scale * eps_rel, k % 2 == 0, rng.randrange(1 << 40), dtype, "indef-boundary" if eps_rel < 1 else "eps>=scale"))
                k += 1
    return out


def float32_guard_outcomes(rng) -> tuple[int, list]:
    """Shape guard in float32 (the tie runs in float64): outcome class only."""
    import torch
    bad = []
    cnt = 0
    for sh in [(2,), (2, 3), (3, 2), (2, 2, 2), (1, 2), (64, 63), (5, 1, 5)]:
        for cfg, isd in [(("eigen", False), False), (("eigen", True), True), (("newton", 5, 1e-6), False), (("ho", 0.0, 5, 1e-8, 3), True), (("unknown",), False)]:
            A = torch.ones(sh, dtype=torch.float64)
            c = new_case(A, 2, 1, cfg, 0.1, isd, "nonsquare-f32")
            o = observe(c, dtype="float32")
            cnt += 1
            if not (o["kind"] == "raise" and o.get("exc") == "ValueError"):
                bad.append((c, o))
    return cnt, bad


# ------------------------------------------------------------------------------------------------


def hist(xs) -> dict:
    h: dict = {}
    for x in xs:
        h[str(x)] = h.get(str(x), 0) + 1
    return dict(sorted(h.items()))


def run(ck: Check) -> None:
    import torch
    common.assert_repo_imports()
    torch.set_num_threads(1)
    ck.coq_props()
    thorough = ck.tier == "thorough"

    # ---- 1. the tie: model (binary64, recorded eigh answer) vs implementation ----------------------
    cases = gen_eigen_cases(ck.rng, 2800 if thorough else 400) + gen_targeted_eigen_cases(ck.rng) + gen_guard_cases(ck.rng)
    observations = [observe(c) for c in cases]
    agree_col = [agree_term(c, o) for c, o in zip(cases, observations)]
    query_col = [query_term(c, o) for c, o in zip(cases, observations)]
    chk_terms = [c11_check_term(c, o) for c, o in zip(cases, observations)]
    chk_col = [t if t is not None else "true" for t in chk_terms]
    agree_s, query_s, chk_s = eval_bool_lists(ck, "c11", [agree_col, query_col, chk_col], per_file=24)
    bad = [i for i in range(len(cases)) if agree_s[i] != "T" or query_s[i] != "T"]
    chk_fail = [i for i in range(len(cases)) if chk_terms[i] is not None and chk_s[i] != "T"]
    chk_fail_all = list(chk_fail)
    # shape guard / root validation are exact statements: the implementation's outcome class must be ValueError
    guard_fail = [i for i, (c, o) in enumerate(zip(cases, observations))
                  if c.get("tag") in ("nonsquare", "root<=0") and not (o["kind"] == "raise" and o.get("exc") == "ValueError")]

    def rep(i):
        c, o = cases[i], observations[i]
        d = {"case": {k: c[k] for k in ("shape", "A", "p", "q", "cfg", "eps", "is_diag", "tag")},
             "impl_outcome": o["kind"] + (":" + o["exc"] if o["kind"] == "raise" else ""),
             "impl_X": o["X"].tolist() if o["kind"] == "ok" else None}
        return d

    if guard_fail:
        i = min(guard_fail, key=lambda i: math.prod(cases[i]["shape"]))
        ck.report(None, f"input of shape {cases[i]['shape']} root {cases[i]['p']}/{cases[i]['q']} cfg {cases[i]['cfg']} is_diagonal={cases[i]['is_diag']} "
                        f"not rejected with ValueError (got {observations[i]['kind']} {observations[i].get('exc', '')})",
                  {"kind": "property-fails", "predicate": "shape_guard / nonpositive_root_rejected", "n_failing": len(guard_fail), **rep(i)})
    if chk_fail:
        known = [i for i in chk_fail if finding_signature(cases[i]["shape"], cases[i]["A"])]
        for i in known[:1]:
            ck.report(finding_signature(cases[i]["shape"], cases[i]["A"]),
                      f"1x1 input with a negative entry ({cases[i]['A'][0]:.3e}, eps {cases[i]['eps']:.3e}): the numel==1 fast path skips the -min(lambda_min,0) shift, "
                      f"result {observations[i]['X'].reshape(-1).tolist()} exceeds eps^e or is not finite",
                      {"kind": "property-fails", "predicate": "C11_checkb", "n_failing": len(known), **rep(i)})
        chk_fail = [i for i in chk_fail if i not in known]
    if chk_fail:
        i = min(chk_fail, key=lambda i: (case_n(cases[i]), i))
        ck.report(None, f"eigen path output violates C11 (C11_checkb false: finite / symmetric / positive Rayleigh quotients <= eps^e / commutes) on a "
                        f"{case_n(cases[i])}x{case_n(cases[i])} {cases[i]['tag']} input, root {cases[i]['p']}/{cases[i]['q']}, cfg {cases[i]['cfg']}",
                  {"kind": "property-fails", "predicate": "C11_checkb", "n_failing": len(chk_fail), "model_agrees": i not in bad, **rep(i)})
    elif bad and not guard_fail:
        i = min(bad, key=lambda i: (case_n(cases[i]), i))
        ck.report(None, f"model/implementation correspondence broken ({len(bad)} cases; first: shape {cases[i]['shape']} root {cases[i]['p']}/{cases[i]['q']} cfg {cases[i]['cfg']} "
                        f"is_diagonal={cases[i]['is_diag']}, impl {observations[i]['kind']} {observations[i].get('exc', '')}) but the implementation's outputs still pass C11_checkb",
                  {"kind": "correspondence", "broken": "MFAgree.agree / eigen_query (model matrix_inverse_root vs implementation)", "n_disagree": len(bad),
                   "agree": agree_s[i], "query": query_s[i], **rep(i),
                   "theorems_not_transferring": ["C11_eigen_root_sym", "C11_eigen_root_pd", "C11_eigen_root_eig_le", "C11_eigen_root_commutes",
                                                 "C11_eigen_root_equivariant", "C11_shape_guard", "C11_nonpositive_root_rejected"]}, no_failing_input=True)

    state_fail = [i for i, o in enumerate(observations) if o.get("input_mutated") or o.get("second_call_differs")]
    if state_fail:
        i = state_fail[0]
        ck.report(None, f"matrix_inverse_root {'modified its input tensor' if observations[i].get('input_mutated') else 'returned a different matrix on a second call with the same tensor'} "
                        f"(shape {cases[i]['shape']}, cfg {cases[i]['cfg']}, layout {cases[i].get('layout')})",
                  {"kind": "property-fails", "predicate": "repeatability / input left untouched", "n_failing": len(state_fail), **rep(i)})
    n_f32_guard, f32_guard_bad = float32_guard_outcomes(ck.rng)
    if f32_guard_bad:
        c, o = f32_guard_bad[0]
        ck.report(None, f"float32 input of shape {c['shape']} cfg {c['cfg']} is_diagonal={c['is_diag']} not rejected with ValueError (got {o['kind']} {o.get('exc', '')})",
                  {"kind": "property-fails", "predicate": "shape_guard (float32)", "case": {k: c[k] for k in ("shape", "A", "p", "q", "cfg", "eps", "is_diag", "tag")}})

    # ---- 2. measured clauses (float32 / float64, n <= 64) -------------------------------------------
    minputs = gen_measure_inputs(ck.rng, thorough)
    worst = {"sym_over_nu": 0.0, "pd_c": 0.0, "cap_c": 0.0, "comm_c": 0.0, "equiv_c": 0.0}
    nonfinite = 0
    pd_strict_total = pd_strict_fail = 0
    meas_viol = None
    sig_seen = {finding_signature(cases[i]["shape"], cases[i]["A"]) for i in chk_fail_all}
    for (A, p, q, eps, enh, seed, dtype, kind) in minputs:
        r = measure_one(A, p, q, eps, enh, seed, dtype)
        what = None
        if not r["finite"] or not r.get("equiv_finite", True):
            nonfinite += 1
            what = "non-finite inverse root" if "raised" not in r else "unexpected exception " + r["raised"]
        else:
            for k in worst:
                worst[k] = max(worst[k], r[k])
            if r["nuc_X"] <= 1e-2:
                pd_strict_total += 1
                if not r["pd"]:
                    pd_strict_fail += 1
                    what = f"inverse root not positive definite (lambda_min = {r['lambda_min_X']:.3e}) although n*u*cond(X) = {r['nuc_X']:.2e}"
            for k in ("pd_c", "cap_c", "comm_c", "equiv_c"):
                if r[k] > BUDGET and what is None:
                    what = f"measured {k} = {r[k]:.3g} exceeds the budget {BUDGET} (normalised by n*u*cond = {r['nuc']:.2e})"
            if r["sym_over_nu"] > BUDGET and what is None:
                what = f"asymmetry / (n*u) = {r['sym_over_nu']:.3g} exceeds the budget {BUDGET}"
        if what and meas_viol is None:
            sig = finding_signature(list(A.shape), A.reshape(-1).tolist())
            if sig:
                if sig in sig_seen:
                    continue
                sig_seen.add(sig)
                ck.report(sig, f"1x1 input with a negative entry: {what}", {"kind": "measured-clause", "dtype": dtype, "A": A.tolist(), "p": p, "q": q, "eps": eps,
                                                                            "enhance_stability": enh, "orth_seed": seed})
                continue
            meas_viol = (what, {"kind": "measured-clause", "dtype": dtype, "matrix_kind": kind, "A": A.tolist(), "p": p, "q": q, "eps": eps, "enhance_stability": enh,
                                "orth_seed": seed, "measured": {k: v for k, v in r.items()}})
    if meas_viol:
        ck.report(None, f"measured C11 clause fails on the real routine: {meas_viol[0]}", meas_viol[1])
    oracle = {"QtQ": 0.0, "QQt": 0.0, "recon": 0.0, "ascending": True}
    for c, o in zip(cases, observations):
        if o["eigh"]:
            Ain, L, Q = o["eigh"][-1]
            n = Ain.shape[0]
            I = torch.eye(n, dtype=Q.dtype)
            oracle["QtQ"] = max(oracle["QtQ"], float((Q.T @ Q - I).abs().max()))
            oracle["QQt"] = max(oracle["QQt"], float((Q @ Q.T - I).abs().max()))
            oracle["recon"] = max(oracle["recon"], float(((Q * L) @ Q.T - Ain).abs().max()) / max(float(Ain.abs().max()), 1e-300))
            oracle["ascending"] = oracle["ascending"] and bool((L[1:] >= L[:-1]).all())
    if oracle["QtQ"] > 1e-10 or oracle["QQt"] > 1e-10 or oracle["recon"] > 1e-10:
        ck.report(None, f"torch.linalg.eigh does not meet the contract assumed by the theorems on a generated input: {oracle}",
                  {"kind": "oracle-contract", "measured": oracle}, no_failing_input=True)
    retry_problems = retry_check()
    for pr in retry_problems:
        ck.report(None, "double-precision retry of matrix_eigenvalue_decomposition: " + pr, {"kind": "retry", "problem": pr})

    # ---- evidence -----------------------------------------------------------------------------------
    eig_cases = [c for c in cases if c["tag"] not in ("nonsquare", "root<=0", "numel1")]
    nontriv = {(tuple(c["shape"]), c["p"], c["q"], c["cfg"], c["tag"]) for c, o in zip(cases, observations) if case_n(c) >= 2 and o["kind"] == "ok"}
    mid = len(eig_cases) // 2
    ck.coverage.update({
        "evaluations": len(cases) + len(minputs) + 2,
        "distinct_nontrivial": len(nontriv),
        "rule": "tie: model (binary64) fed with the recorded eigh answer vs real matrix_inverse_root, normwise tol 1e-9, exceptions by class, eigh query compared; "
                "non-trivial = distinct (shape, root, config, matrix kind) with n >= 2 on which the implementation returned a matrix",
        "exhaustive": False,
        "samples": [case_brief(eig_cases[0]), case_brief(eig_cases[mid]), case_brief(cases[-1])],
        "distribution": {"n": hist(case_n(c) for c in eig_cases), "matrix_kind": hist(c["tag"] for c in cases), "root": hist(f"{c['p']}/{c['q']}" for c in cases),
                         "config": hist(c["cfg"][0] + (":stab" if c["cfg"][0] == "eigen" and c["cfg"][1] else "") for c in cases),
                         "impl_outcome": hist(o["kind"] + (":" + o["exc"] if o["kind"] == "raise" else "") for o in observations),
                         "shapes_rejected": hist(str(tuple(c["shape"])) for c in cases if c["tag"] == "nonsquare")},
        "disagreements": len(bad),
        "checker_evaluated_on": sum(1 for t in chk_terms if t is not None),
        "checker_failures": len(chk_fail),
        "MEASURED_not_proved": {
            "what": "behaviour of the real routine in float32 and float64 (finiteness, symmetry, positive definiteness, eigenvalue cap eps^e, commutation, "
                    "orthogonal equivariance), residuals normalised by n*u*cond(A + s + eps); budget " + str(BUDGET),
            "inputs": len(minputs), "sizes": "1..64", "dtypes": ["float32", "float64"],
            "kinds": hist(m[7] for m in minputs),
            "non_finite": nonfinite,
            "positive_definite_when_n_u_condX_le_1e-2": f"{pd_strict_total - pd_strict_fail}/{pd_strict_total}",
            "worst_constants": {k: float(f"{v:.4g}") for k, v in worst.items()},
            "eigh_contract_on_tie_inputs_float64": {k: (float(f"{v:.3g}") if not isinstance(v, bool) else v) for k, v in oracle.items()},
            "double_precision_retry": "ok" if not retry_problems else retry_problems,
        },
    })
    # ---- quantifier audit: measured counts of every input class the property names or plainly allows -------
    def lmin_of(i):
        o, c = observations[i], cases[i]
        if not o["eigh"]:
            return None
        lm = float(o["eigh"][-1][1].min())
        return lm - c["eps"] if (c["cfg"][0] == "eigen" and c["cfg"][1]) else lm
    eig_idx = [i for i, c in enumerate(cases) if c["cfg"][0] == "eigen" and not c["is_diag"] and c["tag"] not in ("nonsquare", "root<=0", "numel1") and observations[i]["kind"] == "ok"]
    lm = {i: lmin_of(i) for i in eig_idx}
    neg = [i for i in eig_idx if lm[i] is not None and lm[i] < 0]
    audit = {
        "tie/size_1": sum(1 for i in eig_idx if case_n(cases[i]) == 1),
        "tie/size_2..12": sum(1 for i in eig_idx if case_n(cases[i]) >= 2),
        "tie/zero_matrix": sum(1 for i in eig_idx if cases[i]["tag"].startswith("zero")),
        "tie/rank_deficient": sum(1 for i in eig_idx if cases[i]["tag"].startswith("rankdef")),
        "tie/lambda_min<0": len(neg),
        "tie/lambda_min<0_and_eps<|lambda_min|": sum(1 for i in neg if cases[i]["eps"] < -lm[i]),
        "tie/lambda_min<0_and_eps>|lambda_min|": sum(1 for i in neg if cases[i]["eps"] > -lm[i]),
        "tie/eps_within_1%_of_|lambda_min|": sum(1 for i in neg if abs(cases[i]["eps"] / -lm[i] - 1) < 0.011),
        "tie/lambda_min=-1e-3*scale_boundary": sum(1 for i in eig_idx if cases[i]["tag"] == "indef-boundary"),
        "tie/no_positive_eigenvalue": sum(1 for i in eig_idx if cases[i]["tag"] == "nonpositive"),
        "tie/eps>=scale": sum(1 for i in eig_idx if cases[i]["tag"] == "eps>=scale"),
        "tie/exactly_diagonal_input_without_flag": sum(1 for i in eig_idx if "diag" in cases[i]["tag"]),
        **{"tie/struct:" + k: sum(1 for i in eig_idx if cases[i]["tag"] == "struct:" + k) for k in STRUCTURED},
        "tie/enhance_stability_on": sum(1 for i in eig_idx if cases[i]["cfg"][1]),
        "tie/enhance_stability_off": sum(1 for i in eig_idx if not cases[i]["cfg"][1]),
        "tie/root<1": sum(1 for i in eig_idx if cases[i]["p"] < cases[i]["q"]),
        "tie/root>=10": sum(1 for i in eig_idx if cases[i]["p"] >= 10 * cases[i]["q"]),
        "tie/root_not_binary32_exact": sum(1 for i in eig_idx if (cases[i]["p"] / cases[i]["q"]) not in (1, 2, 4, 8, 16, 0.5)),
        "tie/root=Fraction(r/exponent_multiplier)": sum(1 for i in eig_idx if cases[i]["q"] > 1000),
        "tie/non_contiguous_input": sum(1 for c in cases if c.get("layout")),
        "tie/eigen_decomp_offload_device=cpu": sum(1 for c in cases if len(c["cfg"]) > 2 and c["cfg"][0] == "eigen"),
        "tie/second_call_same_tensor": sum(1 for c in cases if c.get("twice")),
        "tie/input_checked_unmodified": len(cases),
        "guard/non_square_2D": sum(1 for c in cases if c["tag"] == "nonsquare" and len(c["shape"]) == 2),
        "guard/1D": sum(1 for c in cases if c["tag"] == "nonsquare" and len(c["shape"]) == 1),
        "guard/3D_and_4D": sum(1 for c in cases if c["tag"] == "nonsquare" and len(c["shape"]) >= 3),
        "guard/with_is_diagonal=True": sum(1 for c in cases if c["tag"] == "nonsquare" and c["is_diag"]),
        "guard/each_of_5_configurations": min(sum(1 for c in cases if c["tag"] == "nonsquare" and c["cfg"][0] == k) for k in ("eigen", "newton", "ho", "unknown")),
        "guard/float32": n_f32_guard,
        "guard/root<=0": sum(1 for c in cases if c["tag"] == "root<=0"),
        "guard/numel_1_any_shape": sum(1 for c in cases if c["tag"] == "numel1"),
        **{f"measured/{dt}/n={n}": sum(1 for m in minputs if m[6] == dt and m[0].shape[0] == n) for dt in ("float32", "float64") for n in (1, 2, 63, 64)},
        **{f"measured/{dt}/n>=32": sum(1 for m in minputs if m[6] == dt and m[0].shape[0] >= 32) for dt in ("float32", "float64")},
        **{"measured/" + k: sum(1 for m in minputs if m[7] == k) for k in ("zero", "rankdef", "indef", "psd", "repeated", "nonpositive", "indef-boundary", "eps>=scale")},
        "measured/structured": sum(1 for m in minputs if m[7].startswith("struct:")),
        "measured/root<1": sum(1 for m in minputs if m[1] < m[2]),
        "measured/root=Fraction(r/exponent_multiplier)": sum(1 for m in minputs if m[2] > 1000),
        "measured/enhance_stability_on": sum(1 for m in minputs if m[4]),
        "retry_double_precision(True and False, injected float32 failure)": 2,
    }
    ck.coverage["quantifier_audit"] = audit
    ck.coverage["not_exercised"] = {
        "float16 / bfloat16 inputs": "outside the quantifier (float32/float64); torch.linalg.eigh has no CPU kernel for them",
        "numel = 0 shapes": "the property speaks about inputs with more than one element (and numel == 1); the model marks them OutOfScope",
        "inputs that are not symmetric": "outside the quantifier (finite symmetric matrices); equivariance inputs are symmetrised after forming P A P^T",
        "roots so small that eps^(-1/r) exceeds the dtype range (e.g. r = 1/4 with eps = 1e-12 in float32)": "overflow is then the correct answer of the formula; roots down to 1/2 are exercised",
        "eps below the dtype resolution of the scale": "excluded by the quantifier",
        "eigen_decomp_offload_device other than cpu, CUDA tensors": "no accelerator in the sandbox",
        "n > 12 in the model tie": "vm_compute cost; sizes up to 64 are covered by the measured stream and the certified checker only up to 12",
        "is_diagonal=True on the eigen configuration with a non-diagonal matrix": "the flag is computed by the caller with check_diagonal; a wrong flag is outside the contract",
    }
    ck.assumptions += [
        "torch.linalg.eigh returns (L, Q) with A = Q diag(L) Q^T, Q^T Q = Q Q^T = I (Section hypothesis eigh_contract; residuals measured in this run, see MEASURED_not_proved)",
        "torch.pow on positive bases is the real power function (fpow of the real instance is Rpower)",
        "finiteness / float32-float64 residuals are measured, not proved",
    ]


def replay(obj) -> bool:
    import torch
    common.assert_repo_imports()
    if obj.get("kind") == "measured-clause":
        A = torch.tensor(obj["A"], dtype=torch.float64)
        r = measure_one(A, obj["p"], obj["q"], obj["eps"], obj["enhance_stability"], obj["orth_seed"], obj["dtype"])
        print("measured now:", r)
        print("recorded    :", obj.get("measured"))
        return True
    if "case" in obj:
        c = dict(obj["case"])
        c["cfg"] = tuple(c["cfg"])
        o = observe(c)
        print("implementation outcome:", o["kind"], o.get("exc", ""), o.get("msg", ""))
        if o["kind"] == "ok":
            print(o["X"])
        print("recorded outcome:", obj.get("impl_outcome"))
        return True
    print(obj)
    return True
