"""Shared driver for the optimizer-level properties (C01, C02, C03, C09, C18).

  build_optimizer(case)        real DistributedShampoo from a declarative case description
  run_case(case)               run the history on the implementation, recording per step and per group:
                               state before / after (through optimizer.state and the distributor's public block lists),
                               gradients per block, matrix-oracle calls (arguments + results), float32 scalars
  coq_case(case, records)      Coq text: one `step_ok ...` term per (step, group)

A *case* is a plain dict (JSON-serialisable, so it doubles as the replay input):
  {"groups": [ {"cfg": {...}, "shapes": [[3,4],[5]], } ...],
   "init_seed": int, "steps": [ {"present": [[bool per param] per group], "gseed": int, "edits": [{"lr":..}|None per group]} ...],
   "pt2": None | {"backend": "eager", "dynamic": False}}
Values are small dyadic rationals (multiples of 1/8), so Gram matrices and most sums are exact in binary64.
"""
from __future__ import annotations

import logging
import math
from fractions import Fraction
from unittest import mock

from harness.common import coq_bool

BIG_START = 10 ** 15


def _torch():
    import torch
    return torch


# ------------------------------------------------------------------------------------------ construction

def amort_config(c):
    from matrix_functions_types import (CoupledHigherOrderConfig, CoupledNewtonConfig, EigenConfig,
                                        EighEigenvectorConfig, QRConfig)
    a = c.get("amort", "eigen")
    if a == "eigen":
        return EigenConfig(exponent_multiplier=c.get("expmult", 1.0))
    if a == "eigen_stab":
        return EigenConfig(exponent_multiplier=c.get("expmult", 1.0), enhance_stability=True)
    if a == "newton":
        return CoupledNewtonConfig(max_iterations=200, tolerance=1e-12)
    if a == "higher":
        return CoupledHigherOrderConfig(max_iterations=200, tolerance=1e-12, rel_epsilon=0.0)
    if a == "eigh":
        return EighEigenvectorConfig()
    if a == "qr":
        return QRConfig(max_iterations=c.get("qr_iters", 1), tolerance=c.get("qr_tol", 1e-5))
    raise ValueError(a)


def graft_config(c):
    from distributed_shampoo.shampoo_types import (AdaGradGraftingConfig, AdamGraftingConfig, RMSpropGraftingConfig,
                                                   SGDGraftingConfig)
    g = c.get("graft")
    if g is None:
        return None
    if g == "sgd":
        return SGDGraftingConfig()
    if g == "adagrad":
        return AdaGradGraftingConfig(epsilon=c.get("geps", 1e-3))
    if g == "rmsprop":
        return RMSpropGraftingConfig(beta2=c.get("gbeta2", 0.75), epsilon=c.get("geps", 1e-3))
    if g == "adam":
        return AdamGraftingConfig(beta2=c.get("gbeta2", 0.75), epsilon=c.get("geps", 1e-3))
    raise ValueError(g)


def precond_config(c):
    from distributed_shampoo.shampoo_types import (EigenvalueCorrectedShampooPreconditionerConfig,
                                                   ShampooPreconditionerConfig)
    cls = EigenvalueCorrectedShampooPreconditionerConfig if c.get("kind", "shampoo") == "soap" else ShampooPreconditionerConfig
    return cls(amortized_computation_config=amort_config(c), ignored_dims=list(c.get("ignored", [])),
               num_tolerated_failed_amortized_computations=c.get("tolerated", 3))


GROUP_KEYS = {"lr": "lr", "betas": "betas", "beta3": "beta3", "eps": "epsilon", "momentum": "momentum",
              "dampening": "dampening", "wd": "weight_decay", "max_dim": "max_preconditioner_dim",
              "freq": "precondition_frequency", "start": "start_preconditioning_step", "override": "inv_root_override",
              "nesterov": "use_nesterov", "biascorr": "use_bias_correction", "decoupled": "use_decoupled_weight_decay",
              "merge": "use_merge_dims"}

DEFAULTS = {"lr": 0.125, "betas": (0.0, 1.0), "beta3": -1.0, "eps": 1e-6, "momentum": 0.0, "dampening": 0.0, "wd": 0.0,
            "max_dim": 1024, "freq": 1, "start": -1, "override": 0, "nesterov": False, "biascorr": True, "decoupled": True,
            "merge": True}


def dyadic(gen, shape, lo=-16, hi=16, den=8.0, dtype=None):
    torch = _torch()
    n = int(math.prod(shape))
    t = torch.randint(lo, hi + 1, (n,), generator=gen).to(dtype or torch.float64) / den
    return t.reshape(tuple(shape))


def build_params(case, dtype=None):
    torch = _torch()
    gen = torch.Generator().manual_seed(case["init_seed"])
    return [[torch.nn.Parameter(dyadic(gen, sh, dtype=dtype)) for sh in g["shapes"]] for g in case["groups"]]


def build_optimizer(case, params, dtype=None, distributed_config=None):
    """The first group's cfg provides the optimizer-level arguments; later groups pass their overrides as param-group
    options (a group may omit keys: it then inherits the optimizer-level resolved defaults)."""
    torch = _torch()
    from distributed_shampoo.distributed_shampoo import DistributedShampoo
    from distributed_shampoo.shampoo_types import ShampooPT2CompileConfig
    g0 = {**DEFAULTS, **case["groups"][0]["cfg"]}
    kw = {GROUP_KEYS[k]: (tuple(v) if k == "betas" else v) for k, v in g0.items() if k in GROUP_KEYS}
    if isinstance(kw["inv_root_override"], list):
        kw["inv_root_override"] = list(kw["inv_root_override"])
    kw["grafting_config"] = graft_config(g0)
    kw["preconditioner_config"] = precond_config(g0)
    kw["preconditioner_dtype"] = dtype or torch.float64
    if case.get("pt2"):
        kw["shampoo_pt2_compile_config"] = ShampooPT2CompileConfig(pytorch_compile_backend=case["pt2"]["backend"],
                                                                   enable_shampoo_pt2_dynamic_shape=case["pt2"]["dynamic"])
    if distributed_config is not None:
        kw["distributed_config"] = distributed_config
    pgs = []
    for gi, g in enumerate(case["groups"]):
        d = {"params": params[gi]}
        if gi > 0:
            for k, v in g.get("overrides", {}).items():
                if k == "graft" or k == "geps" or k == "gbeta2":
                    continue
                if k in GROUP_KEYS:
                    d[GROUP_KEYS[k]] = tuple(v) if k == "betas" else v
            ov = g.get("overrides", {})
            if "graft" in ov:
                d["grafting_config"] = graft_config(ov)
        pgs.append(d)
    return DistributedShampoo(pgs, **kw)


def effective_cfg(case, gi, opt=None):
    """The configuration group gi effectively runs with (what the model is given)."""
    g0 = {**DEFAULTS, **case["groups"][0]["cfg"]}
    c = dict(g0)
    if gi > 0:
        c.update(case["groups"][gi].get("overrides", {}))
    c["betas"] = tuple(c["betas"])
    # resolved defaults (optimizer-level resolution happens once, in __init__, from the first group's arguments)
    beta3 = g0["beta3"] if g0["beta3"] != -1.0 else g0["betas"][0]
    start = g0["start"] if g0["start"] != -1 else g0["freq"]
    ov = case["groups"][gi].get("overrides", {}) if gi > 0 else {}
    c["beta3"] = ov["beta3"] if "beta3" in ov else beta3
    c["start"] = ov["start"] if "start" in ov else start
    return c


# ------------------------------------------------------------------------------------------ observation

def _tl(t):
    return t.detach().to(_torch().float64).reshape(-1).tolist()


def _ml(t):
    return [r.tolist() for r in t.detach().to(_torch().float64)]


def group_handles(opt, gi):
    from distributed_shampoo.shampoo_types import DISTRIBUTOR
    sl = opt._per_group_state_lists[gi]
    dist = sl[DISTRIBUTOR]
    return dist.local_blocked_params, dist.local_block_info_list


def snapshot_group(opt, gi):
    from distributed_shampoo.shampoo_types import FILTERED_GRAD, MOMENTUM, STEP
    from distributed_shampoo.utils.shampoo_preconditioner_list import ADAGRAD, SHAMPOO
    blocks, infos = group_handles(opt, gi)
    first = opt.param_groups[gi]["params"][0]
    out = {"t": int(opt.state[first][STEP].item()), "blocks": []}
    for blk, info in zip(blocks, infos):
        bs = opt.state[info.param][info.composable_block_ids[1]]
        kf = bs[SHAMPOO]
        d = {"dims": list(blk.shape), "w": _tl(blk),
             "factors": [_ml(info.get_tensor(m)) for m in kf.factor_matrices],
             "isdiag": [bool(x.item()) for x in kf.is_factor_matrices_diagonal],
             "graft": _tl(info.get_tensor(bs[ADAGRAD])) if ADAGRAD in bs else [],
             "filt": _tl(info.get_tensor(bs[FILTERED_GRAD])) if FILTERED_GRAD in bs else [],
             "mom": _tl(info.get_tensor(bs[MOMENTUM])) if MOMENTUM in bs else []}
        if hasattr(kf, "inv_factor_matrices"):
            d["inv"] = [_ml(info.get_tensor(m)) for m in kf.inv_factor_matrices]
            d["coreig"] = []
        else:
            d["inv"] = [_ml(info.get_tensor(m)) for m in kf.factor_matrices_eigenvectors]
            d["coreig"] = _tl(info.get_tensor(kf.corrected_eigenvalues))
        out["blocks"].append(d)
    return out


def block_grads(opt, gi):
    """Per block: the gradient restricted to the block's index set (same offsets/strides as the parameter block), or None."""
    torch = _torch()
    blocks, infos = group_handles(opt, gi)
    res = []
    for blk, info in zip(blocks, infos):
        p = info.param
        if p.grad is None:
            res.append(None)
            continue
        g = p.grad.detach().contiguous()
        res.append(_tl(torch.as_strided(g, tuple(blk.shape), blk.stride(), blk.storage_offset() - p.storage_offset())))
    return res


class OracleRecorder:
    """Wraps matrix_inverse_root / matrix_eigenvectors as imported by the preconditioner-list module and tags each call
    with the group whose _amortized_computation is running."""

    def __init__(self, opt):
        import distributed_shampoo.utils.shampoo_preconditioner_list as pl
        from distributed_shampoo.shampoo_types import SHAMPOO_PRECONDITIONER_LIST
        self.pl, self.calls, self.cur = pl, [], None
        self._patches = []
        orig_root, orig_vec = pl.matrix_inverse_root, pl.matrix_eigenvectors

        def root(A, root, root_inv_config=None, epsilon=0.0, is_diagonal=False, **kw):
            rec = {"g": self.cur, "A": _ml(A), "root": float(root), "eps": float(epsilon), "isdiag": bool(is_diagonal), "est": [], "ans": None}
            self.calls.append(rec)          # a call that raises keeps ans = None (the optimizer falls back to the stored matrix)
            r = orig_root(A=A, root=root, root_inv_config=root_inv_config, epsilon=epsilon, is_diagonal=is_diagonal, **kw)
            rec["ans"] = _ml(r)
            return r

        def vec(A, eigenvectors_estimate=None, eigenvector_computation_config=None, is_diagonal=False, **kw):
            rec = {"g": self.cur, "A": _ml(A), "root": 0.0, "eps": 0.0, "isdiag": bool(is_diagonal),
                   "est": _ml(eigenvectors_estimate) if eigenvectors_estimate is not None else [], "ans": None}
            self.calls.append(rec)
            r = orig_vec(A=A, eigenvectors_estimate=eigenvectors_estimate,
                         eigenvector_computation_config=eigenvector_computation_config, is_diagonal=is_diagonal, **kw)
            rec["ans"] = _ml(r)
            return r

        self._patches.append(mock.patch.object(pl, "matrix_inverse_root", root))
        self._patches.append(mock.patch.object(pl, "matrix_eigenvectors", vec))
        for gi, sl in enumerate(opt._per_group_state_lists):
            lst = sl[SHAMPOO_PRECONDITIONER_LIST]
            orig = lst._amortized_computation

            def wrapped(orig=orig, gi=gi):
                self.cur = gi
                try:
                    return orig()
                finally:
                    self.cur = None
            lst._amortized_computation = wrapped

    def __enter__(self):
        for p in self._patches:
            p.start()
        return self

    def __exit__(self, *a):
        for p in self._patches:
            p.stop()

    def take(self):
        c, self.calls = self.calls, []
        return c


def f32_hints(cfg, t):
    """The float32 scalars of one step, computed with the very expressions the implementation uses."""
    torch = _torch()
    step = torch.tensor(t, dtype=torch.int64)
    b1, b2 = cfg["betas"]
    bc1 = float(1.0 - cfg["beta3"] * b1 ** (step - 1)) if b1 != 0.0 else 1.0
    bc2 = float(torch.tensor(1.0) - b2 ** step) if (cfg["biascorr"] and b2 < 1.0) else 1.0
    bc2g = 1.0
    if cfg.get("graft") == "adam":
        gb2 = cfg.get("gbeta2", 0.75)
        if gb2 < 1.0:
            bc2g = float(torch.tensor(1.0) - gb2 ** step)
    return {"bc1": bc1, "bc2": bc2, "bc2g": bc2g}


def set_grads(case, params, step):
    torch = _torch()
    gen = torch.Generator().manual_seed(step["gseed"])
    for gi, ps in enumerate(params):
        for pi, p in enumerate(ps):
            g = dyadic(gen, p.shape, dtype=p.dtype)        # always drawn, so presence does not shift later values
            if case.get("gscale", 1.0) != 1.0:              # power-of-two gradient scale (exact): tiny / large gradient regimes
                g = g * case["gscale"]
            if [gi, pi] in (step.get("zero") or []):          # a PRESENT gradient that is exactly zero
                g = g * 0.0
            p.grad = g if step["present"][gi][pi] else None


def apply_edits(opt, cfgs, step):
    for gi, ed in enumerate(step.get("edits") or []):
        if not ed:
            continue
        for k, v in ed.items():
            opt.param_groups[gi][GROUP_KEYS[k]] = v
            cfgs[gi][k] = v


def run_case(case, opt=None, params=None, start_step=0, on_step=None):
    """Run the case's history; returns records[step][group] = dict(cfg, hints, before, grads, calls, after)."""
    logging.disable(logging.CRITICAL)
    if params is None:
        params = build_params(case)
    if opt is None:
        opt = build_optimizer(case, params)
    cfgs = [effective_cfg(case, gi) for gi in range(len(case["groups"]))]
    for st in case["steps"][:start_step]:          # replay edits of the steps already done (resume)
        apply_edits(opt, cfgs, {"edits": st.get("edits")}) if False else None
    records = []
    with OracleRecorder(opt) as rec:
        for si, step in enumerate(case["steps"][start_step:], start=start_step):
            apply_edits(opt, cfgs, step)
            set_grads(case, params, step)
            before = [snapshot_group(opt, gi) for gi in range(len(params))]
            grads = [block_grads(opt, gi) for gi in range(len(params))]
            err = None
            try:
                opt.step()
            except Exception as e:  # noqa
                err = f"{type(e).__name__}: {e}"[:300]
            calls = rec.take()
            after = [snapshot_group(opt, gi) for gi in range(len(params))]
            row = []
            for gi in range(len(params)):
                t_new = before[gi]["t"] + (1 if any(g is not None for g in grads[gi]) else 0)
                row.append({"cfg": dict(cfgs[gi]), "hints": f32_hints(cfgs[gi], t_new), "before": before[gi], "grads": grads[gi],
                            "calls": [c for c in calls if c["g"] == gi], "untagged": [c for c in calls if c["g"] is None],
                            "after": after[gi], "error": err})
            records.append(row)
            if on_step is not None:
                on_step(si, opt, params)
    return records, opt, params


# ------------------------------------------------------------------------------------------ Coq text

def fl(x: float) -> str:
    if math.isnan(x):
        return "nan"
    if math.isinf(x):
        return "infinity" if x > 0 else "neg_infinity"
    if x == 0.0:
        return "(-0)" if math.copysign(1.0, x) < 0 else "0"
    h = float(x).hex()
    return f"({h})" if x < 0 else h


def cvec(v) -> str:
    return "[" + ";".join(fl(x) for x in v) + "]"


def cmat(m) -> str:
    return "[" + ";".join(cvec(r) for r in m) + "]"


def cmats(ms) -> str:
    return "[" + ";".join(cmat(m) for m in ms) + "]"


def cnat_list(l) -> str:
    return "[" + ";".join(f"{int(x)}%nat" for x in l) + "]"


def cZ(z) -> str:
    z = int(z)
    return f"({z})%Z"


def ccfg(c) -> str:
    g = c.get("graft")
    if g is None:
        gk = "GNone"
    elif g == "sgd":
        gk = "GSGD"
    else:
        gb2 = 1.0 if g == "adagrad" else c.get("gbeta2", 0.75)
        gk = f"(GAda {fl(gb2)} {fl(c.get('geps', 1e-3))} {coq_bool(g == 'adam')})"
    kind = "KSoap" if c.get("kind", "shampoo") == "soap" else "KShampoo"
    ov = c["override"]
    ovs = ("(OvList [" + ";".join(cZ(z) for z in ov) + "])") if isinstance(ov, (list, tuple)) else f"(OvInt {cZ(ov)})"
    start = c["start"]
    start = BIG_START if (isinstance(start, float) and math.isinf(start)) else int(start)
    expm = c.get("expmult", 1.0) if c.get("amort", "eigen") in ("eigen", "eigen_stab") else 1.0
    return (f"(mkCfg {fl(c['lr'])} {fl(c['betas'][0])} {fl(c['betas'][1])} {fl(c['beta3'])} {fl(c['eps'])} {fl(c['momentum'])} "
            f"{fl(c['dampening'])} {fl(c['wd'])} {cZ(c['freq'])} {cZ(start)} {coq_bool(c['nesterov'])} {coq_bool(c['biascorr'])} "
            f"{coq_bool(c['decoupled'])} {gk} {kind} {cnat_list(c.get('ignored', []))} {ovs} {fl(expm)})")


def cblock(b) -> str:
    dg = "[" + ";".join(coq_bool(x) for x in b["isdiag"]) + "]"
    return (f"(mkB {cnat_list(b['dims'])} {cvec(b['w'])} (mkS {cmats(b['factors'])} {cmats(b['inv'])} {dg} {cvec(b['coreig'])} "
            f"{cvec(b['graft'])} {cvec(b['filt'])} {cvec(b['mom'])}))")


def split_calls(rec):
    """Distribute the recorded oracle calls of one (step, group) over its blocks: present blocks in order, one call per
    factor matrix of the block."""
    calls = list(rec["calls"])
    per_block = []
    for b, g in zip(rec["before"]["blocks"], rec["grads"]):
        if g is None or not calls:
            per_block.append([])
            continue
        n = len(b["factors"])
        per_block.append(calls[:n])
        calls = calls[n:]
    return per_block, calls     # leftover calls = more calls than blocks x factors


def cstep(rec) -> str:
    """One `step_ok` term for a (step, group) record."""
    per_block, leftover = split_calls(rec)
    ins = []
    for g, cs, b in zip(rec["grads"], per_block, rec["before"]["blocks"]):
        gs = "None" if g is None else f"(Some {cvec(g)})"
        # a failed oracle call (ans None) makes the optimizer keep the stored matrix: that is the answer the model is given
        answers = [c["ans"] if c["ans"] is not None else b["inv"][k] for k, c in enumerate(cs)]
        ins.append(f"(mkI {gs} {cmats(answers)})")
    qs = []
    for cs in per_block:
        qs.append("[" + ";".join(f"(mkQ {cmat(c['A'])} {fl(c['root'])} {fl(c['eps'])} {coq_bool(c['isdiag'])} {cmat(c['est'])})" for c in cs) + "]")
    if leftover:
        qs.append("[]")      # makes the lengths differ: the model never asks more than it asks
    h = rec["hints"]
    return (f"(step_ok {ccfg(rec['cfg'])} (mkH {fl(h['bc1'])} {fl(h['bc2'])} {fl(h['bc2g'])}) {cZ(rec['before']['t'])} "
            f"[{';'.join(cblock(b) for b in rec['before']['blocks'])}] [{';'.join(ins)}] {cZ(rec['after']['t'])} "
            f"[{';'.join(cblock(b) for b in rec['after']['blocks'])}] [{';'.join(qs)}])")


COMPONENTS = ["step_counter", "param_values", "factor_matrices", "inv_roots_or_eigenvectors", "is_diagonal_flags", "corrected_eigenvalues",
              "grafting_accumulator", "filtered_grad", "momentum", "oracle_queries", "block_count"]

HEADER = """From Coq Require Import ZArith List Bool String PrimFloat.
From Shampoo Require Import Scalar Show Optimizer.
From ShampooExec Require Import RunOpt.
Import ListNotations.
Open Scope float_scope.
"""


def coq_file(step_terms) -> str:
    """A case file printing one string of T/F (len = 11) per step term."""
    body = [HEADER]
    for i, t in enumerate(step_terms):
        body.append(f"Definition r{i} := {t}.\nEval vm_compute in show_step r{i}.\n")
    return "\n".join(body)
