"""What tools/py2coq.py translates for which property (see coq/gen/README.md).

SPECS[pid] = (generated module name, committed equivalence file under coq/gen/, extra `Require` header, [Target, ...]).
`generate(pid)` reads the Python SOURCE under common.REPO and returns (Gallina text, metadata); it raises
py2coq.Untranslatable when the source left the translated subset.  `run(ck)` is the one call a harness makes.
"""
from __future__ import annotations

import sys

from harness import common

sys.path.insert(0, str(common.ROOT / "tools"))
import py2coq  # noqa: E402
from py2coq import Target  # noqa: E402

DS = "distributed_shampoo/distributed_shampoo.py"
UTILS = "distributed_shampoo/utils/shampoo_utils.py"
TYPES = "distributed_shampoo/shampoo_types.py"
PLIST = "distributed_shampoo/utils/shampoo_preconditioner_list.py"
CKPT = "distributed_shampoo/utils/shampoo_checkpoint_utils.py"
HYPER = "From Shampoo Require Import Hyper.\n"
TREES = "From Shampoo Require Import StateDict.\nFrom ShampooGen Require Import PyTree.\n"   # the TYPES key / lf / tree + references into dicts
JSON = {"json.dumps": ("dumps", ["list key"], "fkey", None), "json.loads": ("loads", ["fkey"], "list key", "ValueError")}
OPTIM = "From Shampoo Require Import Optimizer.\n"        # for the sum type root_override (OvInt | OvList)

G_EPS, G_B2 = ("self.epsilon", "epsilon", "pynum"), ("self.beta2", "beta2", "pynum")
PC_ATOMS = [("self.num_tolerated_failed_amortized_computations", "num_tolerated", "pynum"), ("self.ignored_dims", "ignored_dims", "list Z")]
ROOTS = dict(types={"inv_root_override": "root_override"}, calls={"BaseShampooPreconditionerList._get_inverse_roots_from_override_with_high_order_default": "get_inverse_roots_with_default"})
DISTRIBUTE = dict(qualname="{cls}._distribute_buffer_sizes", coq_name="distribute_buffer_sizes")

SPLIT = dict(qualname="{cls}._split_tensor_block_recovery", coq_name="split_tensor_block_recovery", fuel="S (S (length original_shape))")

SPECS = {
    "C01": ("GenC01", "EquivC01.v", OPTIM, [
        Target(DS, "DistributedShampoo.step", mode="exprs", names=["perform_amortized_computation", "use_grafting_method"],
               atoms=[("step.item()", "step", "Z"), ("group[PRECONDITION_FREQUENCY]", "precondition_frequency", "Z"),
                      ("group[START_PRECONDITIONING_STEP]", "start_preconditioning_step", "Z"), ("grafting_config_not_none", "grafting_config_not_none", "bool")]),
        Target(PLIST, "BaseShampooPreconditionerList._get_inverse_roots_from_override_with_high_order_default",
               coq_name="get_inverse_roots_with_default", types={"inv_root_override": "root_override"}),
        # which in-place tensor statements of the step run, as a function of the hyperparameter tests (the statements are named by their
        # exact source text, so a change of an operand is a change of the statement)
        Target(DS, "DistributedShampoo._add_l2_regularization", mode="decision", coq_name="add_l2_regularization_path",
               atoms=[("weight_decay != 0.0", "weight_decay_nonzero", "bool"), ("weight_decay == 0.0", "weight_decay_zero", "bool"),
                      ("use_decoupled_weight_decay", "use_decoupled_weight_decay", "bool")],
               actions={"torch._foreach_add_(state_lists[MASKED_BLOCKED_GRADS], state_lists[MASKED_BLOCKED_PARAMS], alpha=weight_decay)": 0}),
        Target(DS, "DistributedShampoo._apply_decoupled_weight_decay", mode="decision", coq_name="apply_decoupled_weight_decay_path",
               atoms=[("weight_decay != 0.0", "weight_decay_nonzero", "bool"), ("weight_decay == 0.0", "weight_decay_zero", "bool"),
                      ("use_decoupled_weight_decay", "use_decoupled_weight_decay", "bool")],
               actions={"torch._foreach_add_(masked_blocked_search_directions, state_lists[MASKED_BLOCKED_PARAMS], alpha=weight_decay)": 0}),
        Target(DS, "DistributedShampoo._update_momentum", mode="decision", coq_name="update_momentum_path",
               atoms=[("momentum_param != 0.0", "momentum_nonzero", "bool"), ("momentum_param == 0.0", "momentum_zero", "bool"), ("use_nesterov", "use_nesterov", "bool")],
               actions={"torch._foreach_mul_(state_lists[MASKED_MOMENTUM_LIST], momentum_param)": 0,
                        "torch._foreach_add_(state_lists[MASKED_MOMENTUM_LIST], masked_blocked_search_directions, alpha=1 - dampening)": 1,
                        "torch._foreach_mul_(masked_blocked_search_directions, 1 - dampening)": 2,
                        "torch._foreach_add_(masked_blocked_search_directions, state_lists[MASKED_MOMENTUM_LIST], alpha=momentum_param)": 3,
                        "torch._foreach_copy_(masked_blocked_search_directions, state_lists[MASKED_MOMENTUM_LIST])": 4}),
        Target(DS, "DistributedShampoo._compute_filtered_grad_list", mode="decision", coq_name="compute_filtered_grad_list_path",
               atoms=[("beta1 != 0.0", "beta1_nonzero", "bool"), ("beta1 == 0.0", "beta1_zero", "bool"), ("beta3 != beta1", "beta3_ne_beta1", "bool"), ("beta3 == beta1", "beta3_eq_beta1", "bool"),
                      ("use_bias_correction", "use_bias_correction", "bool")],
               actions={"masked_filtered_grad_list = torch._foreach_lerp(state_lists[MASKED_FILTERED_GRAD_LIST], state_lists[MASKED_BLOCKED_GRADS], weight=1 - beta3)": 0,
                        "masked_filtered_grad_list = state_lists[MASKED_FILTERED_GRAD_LIST]": 1,
                        "torch._foreach_lerp_(state_lists[MASKED_FILTERED_GRAD_LIST], state_lists[MASKED_BLOCKED_GRADS], weight=1 - beta1)": 2,
                        "bias_correction1 = 1.0 - beta3 * beta1 ** (step - 1)": 3,
                        "masked_filtered_grad_list = torch._foreach_div(masked_filtered_grad_list, bias_correction1)": 4,
                        "masked_filtered_grad_list = tuple((filtered_grad.clone() for filtered_grad in masked_filtered_grad_list))": 5,
                        "masked_filtered_grad_list = state_lists[MASKED_BLOCKED_GRADS]": 6}),
        Target(DS, "DistributedShampoo._precondition_and_grafting", mode="decision", coq_name="precondition_and_grafting_path",
               atoms=[("use_grafting_method", "use_grafting_method", "bool"), ("grafting_config_not_none", "grafting_config_not_none", "bool")],
               actions={"masked_blocked_search_directions = state_lists[GRAFTING_PRECONDITIONER_LIST].precondition(masked_grad_list=masked_filtered_grad_list)": 0,
                        "masked_blocked_search_directions = state_lists[SHAMPOO_PRECONDITIONER_LIST].precondition(masked_grad_list=masked_filtered_grad_list)": 1,
                        "grafting_norm_list = torch._foreach_norm(state_lists[GRAFTING_PRECONDITIONER_LIST].precondition(masked_grad_list=masked_filtered_grad_list))": 2,
                        "shampoo_norm_list = torch._foreach_norm(masked_blocked_search_directions)": 3,
                        "norm_dtype_info = torch.finfo(shampoo_norm_list[0].dtype)": 4,
                        "torch._foreach_add_(shampoo_norm_list, max(1e-16, norm_dtype_info.tiny * norm_dtype_info.eps))": 5,
                        "torch._foreach_div_(grafting_norm_list, shampoo_norm_list)": 6,
                        "torch._foreach_mul_(masked_blocked_search_directions, grafting_norm_list)": 7}),
        Target(PLIST, "ShampooPreconditionerList._get_inverse_roots_from_override", coq_name="shampoo_get_inverse_roots", **ROOTS),
        Target(PLIST, "EigenvalueCorrectedShampooPreconditionerList._get_inverse_roots_from_override", coq_name="eigcorr_get_inverse_roots", **ROOTS),
    ]),
    "C10": ("GenC10", "EquivC10.v", "", [
        # matrix_inverse_root: which path is taken / which exception is raised, as a function of the shape, the flags and the config class
        Target("matrix_functions.py", "matrix_inverse_root", mode="decision", coq_name="matrix_inverse_root_path", params=["is_diagonal"],
               ignore_calls=("logging.warning",),
               atoms=[("torch.numel(A)", "numel", "Z"), ("A.numel()", "numel", "Z"), ("A.shape", "shape", "list Z"), ("A.dim()", "(py_len shape)", "Z"),
                      ("is_diagonal", "is_diagonal", "bool"), ("type(root_inv_config) is EigenConfig", "is_eigen", "bool"), ("type(root_inv_config) is CoupledNewtonConfig", "is_newton", "bool"),
                      ("type(root_inv_config) is CoupledHigherOrderConfig", "is_higher_order", "bool"), ("root.denominator", "denominator", "Z")],
               opaque=[r"\w+ = A - torch\.minimum\(A, torch\.zeros_like\(A\)\)"],     # the shifted 1x1 entry, bound to a local first
               actions={r"re:return \(((?!A\b)\w+|A - torch\.minimum\(A, torch\.zeros_like\(A\)\)) \+ epsilon\) \*\* torch\.as_tensor\(-1\.0 / root\)": 0, "_matrix_inverse_root_diagonal": 1, "_matrix_inverse_root_eigen": 2,   # 0: the 1x1 formula, however its operand is named
                        "_matrix_inverse_root_newton": 3, "_matrix_inverse_root_higher_order": 4}),
    ]),
    "C12": ("GenC12", "EquivC12.v", "", [
        # matrix_eigenvectors: which path is taken / which exception is raised
        Target("matrix_functions.py", "matrix_eigenvectors", mode="decision", coq_name="matrix_eigenvectors_path",
               atoms=[("torch.numel(A)", "numel", "Z"), ("A.numel()", "numel", "Z"), ("A.shape", "shape", "list Z"), ("A.dim()", "(py_len shape)", "Z"),
                      ("is_diagonal", "is_diagonal", "bool"), ("type(eigenvector_computation_config) is EighEigenvectorConfig", "is_eigh", "bool"),
                      ("type(eigenvector_computation_config) is QRConfig", "is_qr", "bool"), ("eigenvectors_estimate", "eigenvectors_estimate", "option Z")],
               actions={"return torch.ones_like(A)": 0, "torch.eye": 1, "matrix_eigenvalue_decomposition": 2, "_compute_orthogonal_iterations": 3}),
    ]),
    "C13": ("GenC13", "EquivC13.v", "", [
        Target(PLIST, "BaseShampooPreconditionerList._raise_exception_if_failure_tolerance_exceeded", coq_name="raise_exception_if_failure_tolerance_exceeded",
               atoms=[("self._masked_failed_amortized_computation_counter_index_list", "masked_index_list", "list Z"),
                      ("self._preconditioner_config.num_tolerated_failed_amortized_computations", "num_tolerated", "Z")],
               state=[("self._local_failed_amortized_computation_counter_list", "local_counter_list", "list Z")]),
    ]),
    "C14": ("GenC14", "EquivC14.v", "", [
        Target("distributed_shampoo/utils/shampoo_ddp_distributor.py", **{**DISTRIBUTE, "qualname": "DDPDistributor._distribute_buffer_sizes"}, prefix="ddp_",
               atoms=[("self._group_size", "group_size", "Z")]),
        Target("distributed_shampoo/utils/shampoo_hsdp_distributor.py", **{**DISTRIBUTE, "qualname": "HSDPDistributor._distribute_buffer_sizes"}, prefix="hsdp_",
               atoms=[("self._dist_group_size", "group_size", "Z")]),
        Target("distributed_shampoo/utils/shampoo_hybrid_shard_distributor.py", **{**DISTRIBUTE, "qualname": "HybridShardDistributor._distribute_buffer_sizes"}, prefix="hybrid_",
               atoms=[("self._dist_group_size", "group_size", "Z")]),
    ]),
    "C05": ("GenC05", "EquivC05.v", "", [
        Target(UTILS, "merge_small_dims"),
        Target(UTILS, "multi_dim_split", types={"tensor": "view", "tuple[Tensor, ...]": "list view"}),
    ]),
    "C04": ("GenC04", "EquivC04.v", "", [
        Target(UTILS, "compress_list", types={"Sequence[CompressListType]": "list Z", "tuple[CompressListType, ...]": "list Z"}),
        Target(UTILS, "generate_pairwise_indices"),
        # the global gradient selector built by _merge_and_block_gradients (a slice of the function: the statements that split the
        # gradient and collect its local blocks are left out; they do not feed the selector)
        Target("distributed_shampoo/utils/shampoo_distributor.py", "DistributorInterface._merge_and_block_gradients", mode="prefix",
               coq_name="global_grad_selector_of", stop_before="self._global_grad_selector = tuple(", returns=["global_grad_selector"], params=[],
               atoms=[("self._get_params_or_grads(get_grad=True)", "grads", "list (option Z)"), ("self._global_merged_dims_list", "merged_dims_list", "list (list Z)"),
                      ("self._global_num_blocks_per_param", "num_blocks_per_param", "list Z"), ("self._distributor_selector", "distributor_selector", "list bool")],
               calls={"generate_pairwise_indices": "generate_pairwise_indices"},
               drop=["blocks_within_grad = multi_dim_split(", "local_masked_blocked_grads.extend("]),
    ]),
    "C15": ("GenC15", "EquivC15.v", "", [
        Target("distributed_shampoo/utils/shampoo_fsdp_distributor.py", **{**SPLIT, "qualname": "FSDPDistributor._split_tensor_block_recovery"}, prefix="fsdp_"),
        Target("distributed_shampoo/utils/shampoo_hsdp_distributor.py", **{**SPLIT, "qualname": "HSDPDistributor._split_tensor_block_recovery"}, prefix="hsdp_"),
    ]),
    "C06": ("GenC06", "EquivC06.v", "", [
        # the four definitions of peers_have_gradients (base class: no communication; DDP / HSDP / HybridShard: any block of the group)
        Target("distributed_shampoo/utils/shampoo_distributor.py", "DistributorInterface.peers_have_gradients", coq_name="base_peers_have_gradients"),
        *(Target(f"distributed_shampoo/utils/shampoo_{f}_distributor.py", f"{c}.peers_have_gradients", coq_name=f"{f}_peers_have_gradients",
                 atoms=[("self._global_grad_selector", "global_grad_selector", "list bool")])
          for f, c in (("ddp", "DDPDistributor"), ("hsdp", "HSDPDistributor"), ("hybrid_shard", "HybridShardDistributor"))),
        # step(): what happens to a group whose LOCAL masked gradient list is empty
        Target(DS, "DistributedShampoo.step", mode="decision", coq_name="step_skip_decision", stop_before="if not state_lists[MASKED_BLOCKED_GRADS]:",
               atoms=[("state_lists[MASKED_BLOCKED_GRADS]", "masked_blocked_grads", "list Z"),
                      ("state_lists[DISTRIBUTOR].peers_have_gradients()", "peers_have_gradients", "bool")],
               actions={"state_lists[STEP].add_(1)": 0, "state_lists[DISTRIBUTOR].update_params(masked_blocked_search_directions=())": 1}),
    ]),
    "C09": ("GenC09", "EquivC09.v", "From Coq Require Import String.\n", [
        Target(DS, "DistributedShampoo._construct_param_group_key", coq_name="construct_param_group_key", params=["param_to_key"],
               types={"param_to_key": "dict (nat * string)"}, atoms=[("group[PARAMS]", "params", "list nat")]),
    ]),
    "C16": ("GenC16", "EquivC16.v", TREES, [
        Target(CKPT, "flatten", foreign=JSON, fuel="tree_depth (Node input_dict)",
               types={"input_dict": "dict (key * tree)", "parent_keys": "list key", "key": "key", "value": "tree",
                      "flatten.return": "dict (fkey * lf)", "flatten_with_parent_keys.return": "dict (fkey * lf)", "parse_key_value.return": "dict (fkey * lf)"}),
        Target(CKPT, "unflatten", foreign=JSON,
               types={"flattened_dict": "dict (fkey * lf)", "unflatten.return": "dict (key * tree)", "dict[str, Any]": "dict (key * tree)"}),
    ]),
    "C17": ("GenC17", "EquivC17.v", HYPER, [
        Target(DS, "DistributedShampoo.__init__", mode="prefix", coq_name="init_guards", stop_before="super().__init__(",
               params=["lr", "betas", "beta3", "epsilon", "momentum", "dampening", "weight_decay", "max_preconditioner_dim",
                       "precondition_frequency", "start_preconditioning_step", "inv_root_override", "use_nesterov"],
               types={"max_preconditioner_dim": "pynum", "precondition_frequency": "pynum", "start_preconditioning_step": "pynum", "inv_root_override": "iro_t"},
               atoms=[("preconditioner_config.ignored_dims", "ignored_dims", "list Z")],
               returns=["beta3", "start_preconditioning_step"]),
        # the __post_init__ guards of the config dataclasses; sites 15.. so that every raise of the module has its own number
        Target(TYPES, "AdaGradGraftingConfig.__post_init__", coq_name="adagrad_post_init", atoms=[G_EPS], site_base=15),
        Target(TYPES, "RMSpropGraftingConfig.__post_init__", coq_name="rmsprop_post_init", atoms=[G_EPS, G_B2], site_base=16,
               calls={"super().__post_init__": "adagrad_post_init"}),
        Target(TYPES, "PreconditionerConfig.__post_init__", coq_name="preconditioner_post_init", atoms=PC_ATOMS, site_base=17),
        # which __post_init__ runs for the other config classes (resolved through the class hierarchy of the source)
        Target(TYPES, "SGDGraftingConfig.__post_init__", mode="alias", coq_name="sgd_post_init", names=["AbstractDataclass"]),
        Target(TYPES, "AdamGraftingConfig.__post_init__", mode="alias", coq_name="adam_post_init", names=["AbstractDataclass"]),
        Target(TYPES, "ShampooPreconditionerConfig.__post_init__", mode="alias", coq_name="shampoo_pc_post_init", names=["AbstractDataclass"]),
        Target(TYPES, "EigenvalueCorrectedShampooPreconditionerConfig.__post_init__", mode="alias", coq_name="eigcorr_pc_post_init", names=["AbstractDataclass"]),
    ]),
}


# per property: extra prelude files (beside PyPrelude*.v) the generated module needs, text around the generated definitions
EXTRA = {
    "C16": dict(libs=("PyTree.v",),
                preamble="Section Json.\nVariable fkey : Type.\nVariable fkey_eqb : fkey -> fkey -> bool.\n"
                         "Variable dumps : list key -> fkey.          (* json.dumps on a list of str|int *)\n"
                         "Variable loads : fkey -> option (list key).  (* json.loads; None = JSONDecodeError / not a list of str|int *)\n\n",
                footer="End Json.\n"),
}


def generate(pid: str, repo=None):
    name, equiv, header, targets = SPECS[pid]
    ex = EXTRA.get(pid, {})
    text, meta = py2coq.generate(repo or common.REPO, targets, header, ex.get("preamble", ""), ex.get("footer", ""))
    return text, meta


def libs(pid: str) -> tuple:
    return EXTRA.get(pid, {}).get("libs", ())


def run(ck) -> dict:
    """Translate the property's targets from the current source and check the committed equivalence theorems against the result."""
    name, equiv, _, _ = SPECS[ck.pid]
    return ck.gen_equiv(name, lambda: generate(ck.pid), equiv, extra_libs=libs(ck.pid))
