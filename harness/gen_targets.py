"""What tools/py2coq.py translates for which property (see coq/gen/README.md).

SPECS[pid] = (generated module name, committed equivalence file under coq/gen/, extra `Require` header, [Target, ...]).
`generate(pid)` reads the Python SOURCE under common.REPO and returns (Gallina text, metadata); it raises
py2coq.Untranslatable when the source left the translated subset.  `run(ck)` is the one call a harness makes.
"""
from __future__ import annotations

import sys

from harness import common

sys.path.insert(0, str(common.ROOT / "tools"))
import py2coq  # noqa: E402
from py2coq import Target  # noqa: E402

DS = "distributed_shampoo/distributed_shampoo.py"
UTILS = "distributed_shampoo/utils/shampoo_utils.py"
HYPER = "From Shampoo Require Import Hyper.\n"

SPLIT = dict(qualname="{cls}._split_tensor_block_recovery", coq_name="split_tensor_block_recovery", fuel="S (S (length original_shape))")

SPECS = {
    "C01": ("GenC01", "EquivC01.v", "", [
        Target(DS, "DistributedShampoo.step", mode="exprs", names=["perform_amortized_computation", "use_grafting_method"],
               atoms=[("step.item()", "step", "Z"), ("group[PRECONDITION_FREQUENCY]", "precondition_frequency", "Z"),
                      ("group[START_PRECONDITIONING_STEP]", "start_preconditioning_step", "Z"), ("grafting_config_not_none", "grafting_config_not_none", "bool")]),
    ]),
    "C05": ("GenC05", "EquivC05.v", "", [Target(UTILS, "merge_small_dims")]),
    "C04": ("GenC04", "EquivC04.v", "", [
        Target(UTILS, "compress_list", types={"Sequence[CompressListType]": "list Z", "tuple[CompressListType, ...]": "list Z"}),
        Target(UTILS, "generate_pairwise_indices"),
    ]),
    "C15": ("GenC15", "EquivC15.v", "", [
        Target("distributed_shampoo/utils/shampoo_fsdp_distributor.py", **{**SPLIT, "qualname": "FSDPDistributor._split_tensor_block_recovery"}, prefix="fsdp_"),
        Target("distributed_shampoo/utils/shampoo_hsdp_distributor.py", **{**SPLIT, "qualname": "HSDPDistributor._split_tensor_block_recovery"}, prefix="hsdp_"),
    ]),
    "C17": ("GenC17", "EquivC17.v", HYPER, [
        Target(DS, "DistributedShampoo.__init__", mode="prefix", coq_name="init_guards", stop_before="super().__init__(",
               params=["lr", "betas", "beta3", "epsilon", "momentum", "dampening", "weight_decay", "max_preconditioner_dim",
                       "precondition_frequency", "start_preconditioning_step", "inv_root_override", "use_nesterov"],
               types={"max_preconditioner_dim": "pynum", "precondition_frequency": "pynum", "start_preconditioning_step": "pynum", "inv_root_override": "iro_t"},
               atoms=[("preconditioner_config.ignored_dims", "ignored_dims", "list Z")],
               returns=["beta3", "start_preconditioning_step"]),
    ]),
}


def generate(pid: str, repo=None):
    name, equiv, header, targets = SPECS[pid]
    text, meta = py2coq.generate(repo or common.REPO, targets, header)
    return text, meta


def run(ck) -> dict:
    """Translate the property's targets from the current source and check the committed equivalence theorems against the result."""
    name, equiv, _, _ = SPECS[ck.pid]
    return ck.gen_equiv(name, lambda: generate(ck.pid), equiv)
