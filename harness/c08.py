"""C08 - fully_shard / hybrid-shard Shampoo equals serial Shampoo on local shards.

Duck-typed DTensors.  On every simulated rank a parameter is a `FakeDT`: a torch.Tensor subclass holding the GLOBAL
tensor, whose `to_local()` returns this rank's dim-0 chunk (torch.chunk itself decides the chunks, as DTensor's Shard(0)
does) as a VIEW of the global storage; `p.grad` is a FakeDT of the global gradient with the same chunking.  So
  * code that forgets `.to_local()` sees the global tensor (wrong shape / foreign rows get written),
  * rows that belong to other ranks must stay bit-identical,
  * a rank that receives no row of a parameter has an empty local tensor for it.

Two kinds of scenarios, each run on the implementation (harness/sim.py cluster) and compared INSIDE coqc:
  fs   FullyShardShampooConfig on n shard ranks.  Per rank: C08_fs_agree (FullyShard.v model: local shapes, skipped
       parameters, _global_num_blocks_per_param via the C05 blocking model, block infos (position of .param in PARAMS,
       FILTERED index in composable_block_ids, rank in the block name), per step the global gradient selector, the step
       counter, only shards of parameters with a gradient change, constructor assertion iff every local shard is empty) and C08_checkb
       (certified checker: local shards after every step bit-identical to the single-process optimizer run on the
       non-empty local tensors as ordinary parameters; foreign rows untouched; no block info / state for empty shards).
  hy   HybridShardShampooConfig on an R x S mesh (ctx.cluster.make_mesh), num_trainers_per_group | R, communication
       dtype FP32/BF16/FP16, communicate_params on/off.  Per column (shard coordinate): C08_hy_agree (the C06 cluster
       model of the column - exact float32/bf16/fp16 arithmetic on bit patterns, recorded search directions as oracle,
       block-level gradient presence computed by the FullyShard model - predicts per-replica block values after every
       step, all-gather logs, process-group creations and the hung ranks exactly); per rank C08_fs_agree (structure);
       C08_hybrid_checkb (every replica = the FullyShard-only run of its shard coordinate after every step, equal
       collective sequences per comms group, identical creations on all ranks, nobody left waiting).
Gradient histories: absent gradients (several patterns), and PRESENT gradients that are exactly ZERO on the rows of one
rank's local shard, on the whole tensor, or for every parameter of a step - after dense steps and before a dense one, with
configurations in which a zero gradient matters (beta1 > 0, momentum, weight decay, beta2 < 1): present is `grad is not None`.
Starving histories (a rank of a comms group with owned blocks but none with a gradient while a peer has one; DESIGN section 6,
F6 - repaired in /repo) are ordinary scenarios that must pass; the signature is still computed from the INPUT for the evidence.
Python only generates inputs, runs the implementation and reads T/F.
"""
from __future__ import annotations

import json
import math
import multiprocessing as mp
import os
import re
import time

from harness import common
from harness.common import Check, coq_bool
from harness.c06 import (FMT, OPT_CONFIGS, _comm_dtype, _torch_dtype, bits_of, block_presence, cl, coq_event, coq_nats,
                         coq_snapshot, coq_zs, divisors, greedy_owners, itemsize_of, model_log, starving_steps)

META = {
    "property_id": "C08",
    "design_ref": "DESIGN.md §4 C08 (+ C06, §3.5 ranks, §6 F6, Appendix A, B.2)",
    "technique": "Coq proof (arithmetic of torch.chunk sharding; induction over the parameter list for the three filtered traversals and the block-info zip; induction over histories via the C04 masked-step model and the C06 cluster model; column decomposition of the mesh) + correspondence on an in-process rank simulator with duck-typed DTensors (structure and selectors exact, values bit-exact, evaluated by vm_compute) + certified checkers on the observed local shards / logs",
    "level_text": "Theorems (FullyShard*.v, closed under the global context) for all shapes, shard counts (incl. more ranks than rows), ranks, blocking functions, per-block computations and histories: chunk_partition (torch.chunk shards partition the rows in order), empty_shards_skipped (the filtered parameter / gradient / block-info lists stay aligned, every zip(strict=True) succeeds, block infos carry the position of a NON-EMPTY parameter and its index in the filtered list, a parameter with an empty local shard appears nowhere), fs_run_is_serial_run + fully_shard_eq_serial_on_local (the FullyShard run of a rank is the single-process run on the non-empty local tensors as ordinary parameters, never fails, = block-wise specification), absent_dtensor_grad_is_absent (selector = `p.grad is not None` per block; absent -> value and state kept; all absent -> no step), hybrid_columns_independent, hybrid_eq_fully_plus_ddp (R x S mesh, gs | R, any assignment, any communication rounding, EVERY history - the skip rule as repaired in /repo, hybrid_every_history_synchronised -: the mesh run exists and every rank (i,s) = FullyShard-only run of shard coordinate s with the communicated quantity rounded), hybrid_replicas_agree (replicas identical, equal all-gather sequences per comms group), hybrid_interleaving_irrelevant (columns share nothing; inside a column every maximal schedule of C06's small-step semantics ends in the lock-step state, none deadlocks). Rank starvation (F6, repaired in /repo) is no longer excluded: starving histories are part of the tie and must pass. Quantifier audit (evidence quantifier_audit, measured per run): shard counts 1..8 and 8-rank meshes also in the quick tier, float32/float64/bfloat16/float16 parameters x float32/float64 preconditioners x every communication dtype (non-float32 HybridShard columns: model ties logs/creations/hangs, values decided by the certified checker against the rounded FullyShard-only run), present-but-zero / tiny (1e-6, 1e-30) / huge gradient rows, gradients in a non-default memory layout, alternating equal-shaped parameters, no gradient at the first step, rank-dependent presence and twin parameter groups (FullyShard), numel-0 parameters, injected interleaving delays. Tie: simulated ranks with FakeDT parameters, shard counts 1..8, rows fewer than ranks, 1-D/2-D/3-D parameters, 5 optimizer configurations, use_merge_dims on/off, 4-6 steps with absent gradients; HybridShard meshes up to 8 ranks, all divisors, FP32/BF16/FP16, communicate_params on/off, starving histories.",
    "level_note": "Trusted: Coq kernel+vm_compute; the hand-written model (FullyShardDistributor = inherited default Distributor over the filtered traversals - the inherited part is C04's Masks.v model; HybridShard's replicate-group part is C06's Dist.v model); harness/sim.py and the FakeDT stand-in for DTensor (to_local, .grad; the real fully_shard / DTensor runtime needs accelerators and is not exercised; the chunking is torch.chunk's, as in DTensor Shard(0)); per-block optimizer mathematics is not recomputed: FullyShard values are compared with the single-process implementation run, HybridShard replays the recorded search directions. A rank on which EVERY local shard is empty cannot construct the optimizer (AssertionError `local_blocked_params`; torch.optim equally rejects an empty parameter list): outside the property's domain, modelled as fs_has_work and checked.",
    "ready": True,
}

SIG_STARVATION = "C08:rank-starvation"
GLOBAL_SKIP = True      # step() skips only when NO block of the group has a gradient (F6 repaired in /repo)
# for testing a candidate repair in a scratch copy only (like VERIF_REPO; registered commands never set these)
if os.environ.get("VERIF_REPO", "/repo") != "/repo":
    GLOBAL_SKIP = os.environ.get("C08_GLOBAL_SKIP", os.environ.get("C06_GLOBAL_SKIP", "1" if GLOBAL_SKIP else "0")) == "1"
THEOREMS = ["C08_chunk_partition", "C08_empty_shards_skipped", "C08_fully_shard_eq_serial_on_local", "C08_absent_dtensor_grad_is_absent",
            "C08_hybrid_eq_fully_plus_ddp", "C08_hybrid_replicas_agree", "C08_hybrid_interleaving_irrelevant"]

# global shapes: dim 0 is sharded; several have fewer rows than the larger shard counts
SHAPE_POOL = [(5, 3), (4,), (2, 6), (3, 3), (7,), (2, 2, 3), (6, 2), (1,), (3, 5), (9,), (4, 4), (1, 4), (2,), (8, 2), (3,), (5,), (1, 2, 2)]


# --------------------------------------------------------------------------------------
# duck-typed DTensor


_FAKE = {}


def fake_dt_class():
    if "cls" in _FAKE:
        return _FAKE["cls"]
    import torch

    class FakeDT(torch.Tensor):
        """The global tensor; to_local() = this rank's dim-0 chunk, a view of the same storage."""

        @staticmethod
        def make(base, n, r, requires_grad=False):
            chunks = torch.chunk(base, n, dim=0)                       # exactly what DTensor's Shard(0) uses
            lo = sum(c.shape[0] for c in chunks[:r])
            rows = chunks[r].shape[0] if r < len(chunks) else 0        # trailing ranks: empty shard
            t = torch.Tensor._make_subclass(FakeDT, base, requires_grad)
            t._lo, t._hi = lo, lo + rows
            t._local = base.narrow(0, lo, rows)
            return t

        def to_local(self):
            return self._local

        @classmethod
        def __torch_function__(cls, func, types, args=(), kwargs=None):
            return torch._C._disabled_torch_function_impl(func, types, args, kwargs or {})

    _FAKE["cls"] = FakeDT
    return FakeDT


def bits_of(t):      # shadows c06.bits_of (float32 only): exact bit patterns of float32 / float64 / bfloat16 / float16 tensors
    import torch
    t = t.detach().contiguous().reshape(-1)
    if t.dtype == torch.float32:
        return [int(x) & 0xFFFFFFFF for x in t.view(torch.int32).tolist()]
    if t.dtype == torch.float64:
        return [int(x) & 0xFFFFFFFFFFFFFFFF for x in t.view(torch.int64).tolist()]
    return [int(x) & 0xFFFF for x in t.view(torch.int16).tolist()]


PDTYPES = {"f32": "float32", "f64": "float64", "bf16": "bfloat16", "f16": "float16"}


def _pdtype(spec):
    import torch
    return getattr(torch, PDTYPES[spec.get("pdtype", "f32")])


def chunk_rows(rows, n, r):
    """(lo, hi) of rank r - the harness's own arithmetic, used for the references; validated against torch.chunk."""
    cs = (rows + n - 1) // n
    return min(rows, r * cs), min(rows, (r + 1) * cs)


# --------------------------------------------------------------------------------------
# building optimizers


def make_opt(spec, dcfg):
    from distributed_shampoo.distributed_shampoo import DistributedShampoo
    from distributed_shampoo.shampoo_types import (AdaGradGraftingConfig, AdamGraftingConfig, DefaultShampooConfig, DefaultSOAPConfig,
                                                   RMSpropGraftingConfig)
    c = OPT_CONFIGS[spec["opt"]]
    g = c.get("graft")
    if g is None:
        graft = None
    elif g[0] == "adagrad":
        graft = AdaGradGraftingConfig(epsilon=g[1])
    elif g[0] == "rmsprop":
        graft = RMSpropGraftingConfig(beta2=g[1], epsilon=g[2])
    else:
        graft = AdamGraftingConfig(beta2=g[1], epsilon=g[2])

    def make(params):
        import torch
        return DistributedShampoo(
            params, preconditioner_dtype=torch.float64 if spec.get("precdtype") == "f64" else torch.float32, lr=c["lr"], betas=c["betas"], epsilon=c["epsilon"], momentum=c.get("momentum", 0.0),
            weight_decay=c.get("weight_decay", 0.0), max_preconditioner_dim=spec["maxdim"], precondition_frequency=c["freq"],
            start_preconditioning_step=c["start"], use_nesterov=c.get("nesterov", False),
            use_bias_correction=c.get("bias_correction", True), use_decoupled_weight_decay=c.get("decoupled", True),
            use_merge_dims=spec["merge"], grafting_config=graft, distributed_config=dcfg,
            preconditioner_config=DefaultSOAPConfig if c.get("soap") else DefaultShampooConfig)
    return make


def make_tensors(spec):
    import torch
    g = torch.Generator().manual_seed(int(spec["seed"]))
    init = [torch.randn(tuple(sh), generator=g) for sh in spec["shapes"]]
    grads = []
    for step in spec["presence"]:
        row = []
        for sh, p in zip(spec["shapes"], step):
            t = torch.randn(tuple(sh), generator=g)     # drawn even when absent
            row.append(t if p else None)
        grads.append(row)
    # present gradients that are exactly ZERO on a range of rows (a whole local shard, or the whole tensor): still present
    for t, j, lo, hi in spec.get("zeros", []):
        if grads[t][j] is not None:
            grads[t][j][lo:hi] = 0.0
    # rows of present gradients scaled to tiny (1e-6, 1e-30) or huge (1e3) magnitudes
    for t, j, lo, hi, f in spec.get("scales", []):
        if grads[t][j] is not None:
            grads[t][j][lo:hi] *= f
    dt = _pdtype(spec)
    init = [t.to(dt) for t in init]
    grads = [[None if g is None else g.to(dt) for g in row] for row in grads]
    return init, grads


def _layout(g, noncontig):
    """The same values; for tensors of order >= 2 optionally in a non-default memory layout (last two dims swapped in storage)."""
    h = g.detach().clone()       # always a private copy: the optimizer may modify gradients in place (coupled weight decay)
    if noncontig and h.ndim >= 2:
        h = h.transpose(-1, -2).contiguous().transpose(-1, -2)
    return h


def _dist(opt):
    from distributed_shampoo.shampoo_types import DISTRIBUTOR
    return opt._per_group_state_lists[0][DISTRIBUTOR]


def _stepc(opt):
    from distributed_shampoo.shampoo_types import STEP
    return int(opt._per_group_state_lists[0][STEP].item())


def _binfos(d, params):
    ids = [id(p) for p in params]
    out = []
    for bi in d.local_block_info_list:
        pidx, name = bi.composable_block_ids
        m = re.fullmatch(r"rank_(-?\d+)-block_(\d+)", name)
        out.append((ids.index(id(bi.param)), int(pidx), int(m.group(2)) if m else -1, int(m.group(1)) if m else -1))
    return out


def _outside(p):
    import torch
    base = p.detach().as_subclass(torch.Tensor)
    return bits_of(torch.cat([base[:p._lo], base[p._hi:]]))


def _set_grads(params, grow, n, r, noncontig=()):
    FakeDT = fake_dt_class()
    for j, (p, g) in enumerate(zip(params, grow)):
        p.grad = None if g is None else FakeDT.make(_layout(g, j in noncontig), n, r)


def rounded_update_params_factory(cd, cp):
    """What DDP-style communication does to the quantity handed to update_params, on a single process (C06's reference)."""
    import torch

    @torch.no_grad()
    def rounded_update_params(self, masked_blocked_search_directions):
        ps = self._local_masked_blocked_params
        bufs = tuple(torch.zeros(p.shape, dtype=cd) for p in ps)
        if cp:
            torch._foreach_add_(ps, masked_blocked_search_directions)
            torch._foreach_copy_(bufs, ps)
            torch._foreach_copy_(ps, bufs)
        else:
            torch._foreach_copy_(bufs, masked_blocked_search_directions)
            torch._foreach_add_(ps, bufs)
    return rounded_update_params


# --------------------------------------------------------------------------------------
# FullyShard on n simulated ranks


def _groups(spec):
    return spec.get("groups") or [list(range(len(spec["shapes"])))]


def _rank_presence(spec, r):
    rp = spec.get("rank_presence")
    return rp[r] if rp else spec["presence"]


def fs_rank_fn(spec, init, grads, n, record_blocks=False, per_rank_presence=True):
    """rank function of a FullyShard cluster; everything observed goes to ctx.partial (survives an exception).
    Per parameter group g of the optimizer (twin groups: identical hyperparameters) rec["grp"][g] holds what that group's
    distributor shows; per-parameter observations are over all parameters, in PARAMS order of the spec."""
    from distributed_shampoo.shampoo_types import DISTRIBUTOR, FullyShardShampooConfig, STEP
    FakeDT = fake_dt_class()
    groups = _groups(spec)
    noncontig = set(spec.get("noncontig", []))

    def rank_fn(ctx):
        r = ctx.rank
        pres = _rank_presence(spec, r) if per_rank_presence else spec["presence"]
        rec = {"lshapes": [], "ctor_failed": False, "local": [], "outside0": [], "outside": [], "changed": [], "nstate": [], "blocks": [],
               "init_blocks": [], "grp": []}
        ctx.partial = rec
        params = [FakeDT.make(t.detach().clone(), n, r, True) for t in init]
        rec["lshapes"] = [list(p.to_local().shape) for p in params]
        rec["outside0"] = [_outside(p) for p in params]
        arg = params if len(groups) == 1 else [{"params": [params[j] for j in g]} for g in groups]
        try:
            opt = make_opt(spec, FullyShardShampooConfig())(arg)
        except AssertionError as e:
            if "no parameters to work on" not in str(e):
                raise
            rec["ctor_failed"] = True
            return rec
        ds = [opt._per_group_state_lists[gi][DISTRIBUTOR] for gi in range(len(groups))]
        rec["grp"] = [{"nbs": [int(x) for x in d._global_num_blocks_per_param], "binfo": _binfos(d, [params[j] for j in g]), "sel": [], "stepc": []}
                      for d, g in zip(ds, groups)]
        rec["init_blocks"] = [bits_of(b) for d in ds for b in d._global_blocked_params]
        prev = [bits_of(p.to_local()) for p in params]
        for step in range(len(grads)):
            _set_grads(params, [g if pres[step][j] else None for j, g in enumerate(grads[step])], n, r, noncontig)
            opt.step()
            cur = [bits_of(p.to_local()) for p in params]
            rec["local"].append(cur)
            rec["outside"].append([_outside(p) for p in params])
            for gi, d in enumerate(ds):
                rec["grp"][gi]["sel"].append([bool(x) for x in d._global_grad_selector])
                rec["grp"][gi]["stepc"].append(int(opt._per_group_state_lists[gi][STEP].item()))
            rec["changed"].append([a != b for a, b in zip(prev, cur)])
            if record_blocks:
                rec["blocks"].append([bits_of(b) for d in ds for b in d._global_blocked_params])
            prev = cur
        rec["nstate"] = [len([k for k in opt.state[p] if k != STEP]) if p in opt.state else 0 for p in params]
        return rec
    return rank_fn


def serial_on_locals(spec, init, grads, n, r):
    """The single-process optimizer on the non-empty local tensors of rank r as ordinary parameters (same parameter groups,
    same gradient layout); returns per group: step -> parameter of that group -> bits."""
    import torch
    groups = _groups(spec)
    pres = _rank_presence(spec, r)
    noncontig = set(spec.get("noncontig", []))
    loc = {i: chunk_rows(t.shape[0], n, r) for i, t in enumerate(init)}
    ne = [[i for i in g if (loc[i][1] - loc[i][0]) * math.prod(init[i].shape[1:]) > 0] for g in groups]
    if not all(ne):
        return [[] for _ in groups]
    params = {i: torch.nn.Parameter(init[i][loc[i][0]:loc[i][1]].detach().clone()) for g in ne for i in g}
    arg = [params[i] for i in ne[0]] if len(groups) == 1 else [{"params": [params[i] for i in g]} for g in ne]
    opt = make_opt(spec, None)(arg)
    out = [[] for _ in groups]
    for step in range(len(grads)):
        for i, p in params.items():
            g = grads[step][i] if pres[step][i] else None
            p.grad = None if g is None else _layout(g, i in noncontig)[loc[i][0]:loc[i][1]]
        opt.step()
        for gi, g in enumerate(ne):
            out[gi].append([bits_of(params[i]) for i in g])
    return out


def run_fs(spec):
    import torch
    from harness import sim
    init, grads = make_tensors(spec)
    n = spec["n"]
    # the harness's chunk arithmetic (used for the references) against torch.chunk, for every (rows, n) of this scenario
    for t in init:
        sizes = [c.shape[0] for c in torch.chunk(t, n, dim=0)]
        sizes += [0] * (n - len(sizes))
        assert sizes == [hi - lo for lo, hi in (chunk_rows(t.shape[0], n, r) for r in range(n))], (t.shape, n, sizes)
    full = [[g if g is not None else None for g in row] for row in grads]
    res = sim.run_cluster(n, fs_rank_fn(spec, init, full, n), seed=spec["seed"], patch_to_local=True)
    ranks = []
    for r in range(n):
        rec = res.results[r] if res.results[r] is not None else (res.partial[r] or {})
        err = res.errors[r]
        ranks.append({"rec": rec, "error": None if err is None else f"{type(err).__name__}: {err}",
                      "traceback": res.tracebacks[r], "ref": serial_on_locals(spec, init, full, n, r) if err is None and not rec.get("ctor_failed") else []})
    return {"ranks": ranks, "wall": res.wall_s}


# --------------------------------------------------------------------------------------
# HybridShard on an R x S mesh


def run_hy(spec, timeout=5.0):
    import torch
    from unittest import mock
    from harness import sim
    from distributed_shampoo.shampoo_types import FullyShardShampooConfig, HybridShardShampooConfig, STEP
    from distributed_shampoo.utils.shampoo_distributor import Distributor
    FakeDT = fake_dt_class()
    init, grads = make_tensors(spec)
    R, S, gs = spec["R"], spec["S"], spec["gs"]
    world = R * S
    tables = [[] for _ in range(world)]

    def rank_fn(ctx):
        g = ctx.rank
        mesh = ctx.cluster.make_mesh("cpu", torch.arange(world).view(R, S), ("replicate", "shard"))
        i, s = divmod(g, S)
        assert mesh.get_local_rank(1) == s and mesh.get_local_rank(0) == i
        rec = {"lshapes": [], "ctor_failed": False, "nbs": [], "binfo": [], "sel": [], "stepc": [], "changed": [], "blocks": [], "init_blocks": [],
               "owned": [], "nbytes": 0, "local": [], "outside0": [], "outside": []}
        ctx.partial = rec
        params = [FakeDT.make(t.detach().clone(), S, s, True) for t in init]
        rec["lshapes"] = [list(p.to_local().shape) for p in params]
        rec["outside0"] = [_outside(p) for p in params]
        dcfg = HybridShardShampooConfig(device_mesh=mesh, communication_dtype=_comm_dtype(spec["cdtype"]),
                                        num_trainers_per_group=(-1 if spec.get("gs_default") else gs), communicate_params=spec["cp"])
        opt = make_opt(spec, dcfg)(params)
        d = _dist(opt)
        rec["nbs"] = [int(x) for x in d._global_num_blocks_per_param]
        rec["binfo"] = _binfos(d, params)
        rec["owned"] = [bool(x) for x in d._distributor_selector]
        rec["nbytes"] = int(d._local_dist_buffer.numel() * d._local_dist_buffer.element_size())
        rec["init_blocks"] = [bits_of(b) for b in d._global_blocked_params]
        real = d.update_params
        state_lists = opt._per_group_state_lists[0]

        def update_params(masked_blocked_search_directions):
            k = int(state_lists[STEP].item())
            idx = [b for b, (o, sl) in enumerate(zip(d._distributor_selector, d._global_grad_selector)) if o and sl]
            assert len(idx) == len(masked_blocked_search_directions), (idx, len(masked_blocked_search_directions))
            for b, u in zip(idx, masked_blocked_search_directions):
                tables[g].append((b, k, bits_of(u)))
            return real(masked_blocked_search_directions=masked_blocked_search_directions)

        d.update_params = update_params
        for step in range(len(grads)):
            if spec.get("delays"):      # injected interleaving: ranks reach their collectives in a random order
                time.sleep(float(torch.rand(1, generator=ctx.generator)) * 0.004)
            _set_grads(params, grads[step], S, s, set(spec.get("noncontig", [])))
            opt.step()
            rec["blocks"].append([bits_of(b) for b in d._global_blocked_params])
            rec["local"].append([bits_of(p.to_local()) for p in params])
            rec["outside"].append([_outside(p) for p in params])
            rec["sel"].append([bool(x) for x in d._global_grad_selector])
            rec["stepc"].append(_stepc(opt))
        rec["nstate"] = [len([k for k in opt.state[p] if k != STEP]) if p in opt.state else 0 for p in params]
        return rec

    res = sim.run_cluster(world, rank_fn, timeout=timeout, seed=spec["seed"], patch_to_local=True)
    ranks = []
    for g in range(world):
        rec = res.results[g] if res.results[g] is not None else (res.partial[g] or {})
        err = res.errors[g]
        ranks.append({"rec": rec, "hung": g in res.hung_ranks(),
                      "error": None if (err is None or isinstance(err, sim.SimHang)) else f"{type(err).__name__}: {err}",
                      "traceback": res.tracebacks[g], "log": res.logs[g], "table": tables[g]})
    # the FullyShard-only reference of every shard coordinate (communicated quantity rounded like the distributor does)
    cd = _torch_dtype(spec["cdtype"])
    fs_fn = fs_rank_fn(spec, init, grads, S, record_blocks=True)
    if spec["cdtype"] in ("BF16", "FP16") or spec.get("pdtype", "f32") != "f32":      # communication dtype != storage dtype
        with mock.patch.object(Distributor, "update_params", rounded_update_params_factory(cd, spec["cp"])):
            ref = sim.run_cluster(S, fs_fn, seed=spec["seed"], patch_to_local=True)
    else:
        ref = sim.run_cluster(S, fs_fn, seed=spec["seed"], patch_to_local=True)
    refs = []
    for s in range(S):
        rr = ref.results[s]
        ne = [math.prod(sh) > 0 for sh in rr["lshapes"]] if rr else []
        refs.append({"blocks": rr["blocks"] if rr else [], "error": None if ref.errors[s] is None else repr(ref.errors[s]),
                     "local": [[b for b, keep in zip(step, ne) if keep] for step in rr["local"]] if rr else []})
    return {"ranks": ranks, "refs": refs, "hangs": res.hangs, "outcome": res.outcome, "wall": res.wall_s + ref.wall_s}


# --------------------------------------------------------------------------------------
# input-side structure (no run needed): local shapes, blocks, owners, the starvation signature


def local_shapes(shapes, n, r):
    out = []
    for sh in shapes:
        lo, hi = chunk_rows(sh[0], n, r)
        out.append([hi - lo] + list(sh[1:]))
    return out


def blocks_of_locals(lshapes, maxdim, merge):
    """numel of every block and number of blocks per NON-EMPTY local shape (merge_small_dims + multi_dim_split)."""
    import torch
    from distributed_shampoo.utils.shampoo_utils import merge_small_dims, multi_dim_split
    numels, nblocks = [], []
    for sh in lshapes:
        if math.prod(sh) == 0:
            continue
        merged = tuple(merge_small_dims(torch.Size(sh), maxdim)) if merge else tuple(sh)
        bl = multi_dim_split(torch.empty(sh).view(merged), maxdim)
        numels += [b.numel() for b in bl]
        nblocks.append(len(bl))
    return numels, nblocks


def hy_input_signature(spec):
    """Per column: owners by the documented greedy rule, block presence, starving steps - from the INPUT only."""
    cols = []
    for s in range(spec["S"]):
        ls = local_shapes(spec["shapes"], spec["S"], s)
        numels, nblocks = blocks_of_locals(ls, spec["maxdim"], spec["merge"])
        owners = greedy_owners(numels, itemsize_of(spec["cdtype"]), spec["gs"])
        ne = [math.prod(sh) > 0 for sh in ls]
        pres = [[p for p, keep in zip(step, ne) if keep] for step in spec["presence"]]
        bp = block_presence(pres, nblocks)
        cols.append({"owners": owners, "nblocks": nblocks, "starving_steps": starving_steps(bp, owners, spec["gs"]), "nonempty": ne})
    return {"columns": cols, "starves": any(c["starving_steps"] for c in cols)}


# --------------------------------------------------------------------------------------
# Coq text


def coq_Zs(xs):
    return "[" + "; ".join(str(int(x)) for x in xs) + "]%Z"


def coq_shapes(shapes):
    return cl(coq_Zs(sh) for sh in shapes)


def coq_bools(bs):
    return cl(coq_bool(bool(b)) for b in bs)


def coq_bitss(xs):
    return cl(coq_zs(x) for x in xs)


def _bis(binfo):
    return cl(f"mkBI {a} {b} {max(c, 0)}" for a, b, c, _ in binfo)


def coq_struct_of(lshapes, ctor_failed, nbs, binfo, sel, stepc, changed):
    ranks = coq_nats(max(x[3], 0) + (10 ** 6 if x[3] < 0 or x[2] < 0 else 0) for x in binfo)
    return (f"mkFsStruct {coq_shapes(lshapes)} {coq_bool(ctor_failed)} {coq_nats(nbs)} {_bis(binfo)} {ranks} "
            f"{cl(coq_bools(x) for x in sel)} {'[' + '; '.join(str(x) for x in stepc) + ']%Z'} {cl(coq_bools(x) for x in changed)}")


def coq_struct(rec, full):      # HybridShard ranks (one parameter group)
    return coq_struct_of(rec.get("lshapes", []), rec.get("ctor_failed", False), rec.get("nbs", []), rec.get("binfo", []), rec.get("sel", []),
                         rec.get("stepc", []), rec.get("changed", []) if full else [])


def coq_fs_case(i, spec, out):
    """Per rank and per parameter group: the FullyShard model of that group's distributor + the certified checker."""
    lines, names = [], []
    n = spec["n"]
    groups = _groups(spec)
    for gi, g in enumerate(groups):
        lines.append(f"Definition gsh_{i}_{gi} := {coq_shapes([spec['shapes'][j] for j in g])}.")
    for r, rk in enumerate(out["ranks"]):
        rec = rk["rec"]
        pres = _rank_presence(spec, r)
        for gi, g in enumerate(groups):
            tag = f"{i}_{r}_{gi}"
            lines.append(f"Definition pres_{tag} : list (list bool) := {cl(coq_bools([row[j] for j in g]) for row in pres)}.")
            grec = rec["grp"][gi] if rec.get("grp") else {"nbs": [], "binfo": [], "sel": [], "stepc": []}
            sub = lambda row: [row[j] for j in g]      # noqa: E731
            lines.append(f"Definition fx_{tag} : fs_struct := " + coq_struct_of(sub(rec.get("lshapes", [[]] * len(spec["shapes"]))), rec.get("ctor_failed", False),
                                                                              grec["nbs"], grec["binfo"], grec["sel"], grec["stepc"], [sub(x) for x in rec.get("changed", [])]) + ".")
            agree = f"C08_fs_agree gsh_{i}_{gi} {n} {r} {spec['maxdim']}%Z {coq_bool(spec['merge'])} pres_{tag} None true fx_{tag}"
            if rec.get("ctor_failed") or rk["error"]:
                chk = "true"
            else:
                lines.append(f"Definition fo_{tag} : fs_obs := mkFsObs {cl(coq_bitss(sub(x)) for x in rec['local'])} {cl(coq_bitss(x) for x in rk['ref'][gi])} "
                             f"{coq_bitss(sub(rec['outside0']))} {cl(coq_bitss(sub(x)) for x in rec['outside'])} {_bis(grec['binfo'])} {coq_nats(sub(rec['nstate']))}.")
                chk = f"C08_checkb gsh_{i}_{gi} {n} {r} fo_{tag}"
            names.append(f"[{agree}; {chk}]")
    lines.append(f"Definition res_{i} : list bool := {' ++ '.join(names)}.")
    return "\n".join(lines), 2 * len(names)


def column_of(spec, out, s):
    R, S, gs = spec["R"], spec["S"], spec["gs"]
    rks = [out["ranks"][i * S + s] for i in range(R)]
    sels = [rk["rec"].get("owned") for rk in rks]
    nb = len(sels[0]) if sels[0] is not None else 0
    owners = []
    for b in range(nb):
        ks = [i % gs for i in range(min(gs, R)) if sels[i] is not None and len(sels[i]) == nb and sels[i][b]]
        owners.append(ks[0] if len(ks) == 1 else -1)
    return rks, owners, nb


def coq_hy_case(i, spec, out, sig):
    R, S, gs = spec["R"], spec["S"], spec["gs"]
    lines, names, checks, refs, cols = [], [], [], [], []
    pres = cl(coq_bools(p) for p in spec["presence"])
    lines.append(f"Definition gsh_{i} := {coq_shapes(spec['shapes'])}.")
    lines.append(f"Definition pres_{i} : list (list bool) := {pres}.")
    for s in range(S):
        rks, owners, nb = column_of(spec, out, s)
        table = [e for rk in rks[:gs] for e in rk["table"]]
        rec0 = rks[0]["rec"]
        lines.append(f"Definition tbl_{i}_{s} : table := {cl(f'({b}%nat, {k}, {coq_zs(u)})' for b, k, u in table)}.")
        lines.append(f"Definition P_{i}_{s} := exec_params {R}%nat {gs}%nat {nb}%nat {coq_nats([max(o, 0) for o in owners])} {rec0.get('nbytes', 0)}%nat "
                     f"{coq_bool(spec['cp'])} {FMT[spec['cdtype']]} tbl_{i}_{s} {coq_bool(GLOBAL_SKIP)} true.")
        v0 = rec0.get("init_blocks", [])
        lines.append(f"Definition v0_{i}_{s} : snapshot := {coq_snapshot(v0)}.")
        lines.append(f"Definition b0_{i}_{s} : snapshot := {coq_snapshot([[0] * len(b) for b in v0])}.")
        snaps = cl(cl(coq_snapshot(sn) for sn in rk["rec"].get("blocks", [])) for rk in rks)
        logs = cl(cl(coq_event(e) for e in model_log(rk["log"])) for rk in rks)
        lines.append(f"Definition obs_{i}_{s} : observed := mkObs {snaps} {logs} {cl(coq_bool(rk['hung']) for rk in rks)}.")
        lines.append(f"Definition ref_{i}_{s} : list snapshot := {cl(coq_snapshot(sn) for sn in out['refs'][s]['blocks'])}.")
        refs.append(f"ref_{i}_{s}")
        cols.append(f"obs_{i}_{s}")
        starves = bool(sig["columns"][s]["starving_steps"])
        if spec.get("pdtype", "f32") == "f32":
            names.append(f"C08_hy_agree {R} {S} {gs} {s} P_{i}_{s} gsh_{i} {spec['maxdim']}%Z {coq_bool(spec['merge'])} pres_{i} v0_{i}_{s} b0_{i}_{s} {coq_bool(starves)} obs_{i}_{s}")
        else:       # other storage dtypes: logs / creations / hung ranks from the model, values by the certified checker only
            names.append(f"C08_hy_agree_struct {R} {S} {gs} {s} P_{i}_{s} gsh_{i} {spec['maxdim']}%Z {coq_bool(spec['merge'])} pres_{i} {coq_bool(starves)} obs_{i}_{s}")
        for k, rk in enumerate(rks):
            rec = rk["rec"]
            lines.append(f"Definition fx_{i}_{s}_{k} : fs_struct := {coq_struct(rec, False)}.")
            names.append(f"C08_fs_agree gsh_{i} {S} {s} {spec['maxdim']}%Z {coq_bool(spec['merge'])} pres_{i} (Some {coq_bools(rec.get('owned', []))}) false fx_{i}_{s}_{k}")
            # the rank's local shards against the FullyShard-only run of its shard coordinate; foreign rows; empty shards
            bis = cl(f"mkBI {a} {b} {max(c, 0)}" for a, b, c, _ in rec.get("binfo", []))
            lines.append(f"Definition fo_{i}_{s}_{k} : fs_obs := mkFsObs {cl(coq_bitss(x) for x in rec.get('local', []))} {cl(coq_bitss(x) for x in out['refs'][s]['local'])} "
                         f"{coq_bitss(rec.get('outside0', []))} {cl(coq_bitss(x) for x in rec.get('outside', []))} {bis} {coq_nats(rec.get('nstate', []))}.")
            checks.append(f"C08_checkb gsh_{i} {S} {s} fo_{i}_{s}_{k}")
    checks.append(f"C08_hybrid_checkb {gs} {cl(refs)} {cl(cols)}")
    lines.append(f"Definition res_{i} : list bool := {cl(names + checks)}.")
    return "\n".join(lines), len(names), len(checks)


HEADER = """From Coq Require Import ZArith List Bool String.
From Shampoo Require Import Show Masks Dist DistChecker DistExec FullyShard FullyShardChecker FullyShardExec.
Import ListNotations. Open Scope Z_scope.
"""


# --------------------------------------------------------------------------------------
# scenario generation


def gen_presence(rng, kind, nparams, T):
    pres = [[True] * nparams for _ in range(T)]
    if kind == "full":
        return pres
    if kind == "random":
        return [[rng.random() < 0.65 for _ in range(nparams)] for _ in range(T)]
    if kind == "late":
        a, b = rng.randrange(nparams), rng.randrange(nparams)
        for t in range(T):
            pres[t][a] = t >= T // 2
            if b != a:
                pres[t][b] = t < T - 2
        return pres
    if kind == "none_step":
        t0 = rng.randrange(T)
        pres[t0] = [False] * nparams
        t1 = rng.randrange(T)
        if t1 != t0:
            pres[t1] = [rng.random() < 0.6 for _ in range(nparams)]
        return pres
    if kind == "one_absent":      # one parameter never has a gradient (dead layer), another one loses it for a step
        a = rng.randrange(nparams)
        for t in range(T):
            pres[t][a] = False
        b, t0 = rng.randrange(nparams), rng.randrange(T)
        pres[t0][b] = False
        return pres
    if kind == "first_none":      # nobody has a gradient at the first step(s); one parameter joins even later
        pres[0] = [False] * nparams
        a = rng.randrange(nparams)
        pres[1][a] = False
        return pres
    if kind == "alternate":       # parameters 0 and 1 (equal shapes, see audit_specs) alternate: same count, different pattern
        for t in range(T):
            pres[t][0] = t % 2 == 0
            pres[t][1] = t % 2 == 1
        return pres
    raise ValueError(kind)


ZERO_OPTS = ["shampoo_adam", "soap", "shampoo_momentum", "shampoo_rmsprop"]   # beta1 > 0 / momentum > 0 / weight decay > 0 / beta2 < 1


def gen_zeros(rng, zkind, shapes, n, presence):
    """Rows of PRESENT gradients set to exactly zero (list of [step, param, lo, hi]); `presence` is edited so that the
    parameter has a dense non-zero gradient before the zero step(s) and again after them.
      shard : the rows of one rank's (non-empty) local shard of one parameter, for one or two consecutive steps
      whole : the whole gradient of one parameter at one step
      step  : every parameter's gradient is present and entirely zero at one step (a serial step still counts)"""
    T = len(presence)
    t = rng.randrange(1, T - 1)
    zeros = []
    if zkind == "step":
        presence[t] = [True] * len(shapes)
        presence[t - 1] = [True] * len(shapes)
        presence[t + 1] = [True] * len(shapes)
        return [[t, j, 0, shapes[j][0]] for j in range(len(shapes))], t
    j = rng.randrange(len(shapes))
    rows = shapes[j][0]
    if zkind == "shard":
        cands = [r for r in range(n) if chunk_rows(rows, n, r)[1] > chunk_rows(rows, n, r)[0]]
        lo, hi = chunk_rows(rows, n, rng.choice(cands))
    else:
        lo, hi = 0, rows
    steps = [t] + ([t + 1] if (zkind == "shard" and t + 2 < T and rng.random() < 0.4) else [])
    for tt in [t - 1] + steps + [steps[-1] + 1]:
        presence[tt][j] = True
    return [[tt, j, lo, hi] for tt in steps], t


def zero_shard_events(spec):
    """(rank/shard coordinate, step, parameter) triples where a present gradient is exactly zero on a non-empty local shard
    that had a non-zero gradient at an earlier step - measured from the input, for the evidence."""
    n = spec["n"] if spec["kind"] == "fs" else spec["S"]
    ev = set()
    for t, j, lo, hi in spec.get("zeros", []):
        if not spec["presence"][t][j]:
            continue
        for r in range(n):
            a, b = chunk_rows(spec["shapes"][j][0], n, r)
            if b > a and lo <= a and b <= hi and any(spec["presence"][u][j] and not any(z[0] == u and z[1] == j for z in spec["zeros"]) for u in range(t)):
                ev.add((r, t, j))
    return sorted(ev)


def choose_shapes(rng, n, every_rank_works, min_blocks=1):
    """3..6 parameters; at least one has fewer rows than n when n > 1 (empty local shards); when `every_rank_works` every
    rank gets at least `min_blocks` blocks (HybridShard: one per group rank)."""
    for _ in range(400):
        k = rng.randint(3, 6)
        shapes = [rng.choice(SHAPE_POOL) for _ in range(k)]
        maxdim = rng.choice((2, 3, 4, 4, 5))
        merge = rng.random() < 0.75
        if n > 1 and not any(sh[0] < n for sh in shapes):
            continue
        if sum(math.prod(s) for s in shapes) > 120:
            continue
        ok = True
        total_blocks = 0
        for r in range(n):
            numels, nblocks = blocks_of_locals(local_shapes(shapes, n, r), maxdim, merge)
            total_blocks = max(total_blocks, len(numels))
            if every_rank_works and len(numels) < min_blocks:
                ok = False
        if ok and total_blocks <= 14:
            return shapes, maxdim, merge
    shapes = [(max(n, 2) * 2, 2), (n,), (1,)] + [(2 * n,)] * max(0, min_blocks - 2)
    return shapes, 4, True


def gen_scenarios(ck: Check):
    rng = ck.rng
    thorough = ck.tier == "thorough"
    opts = list(OPT_CONFIGS)
    kinds = ["random", "late", "full", "none_step", "one_absent", "random"]
    zkinds = ["shard", "whole", "shard", "step"]
    specs = []
    k = zc = 0
    # ---- FullyShard
    for n in (range(1, 9) if thorough else range(1, 5)):
        for v in range(24 if thorough else 9):
            # roughly one scenario in six has a rank with only empty shards (constructor assertion, modelled)
            every = not (n > 1 and v % 8 == 5)
            shapes, maxdim, merge = choose_shapes(rng, n, every)
            if not every:
                shapes = [sh for sh in shapes if sh[0] < n] or [(1,), (max(1, n - 1), 2)]
            T = rng.randint(4, 6)
            kind = kinds[(k + rng.randrange(2)) % len(kinds)]
            spec = {"kind": "fs", "n": n, "shapes": [list(s) for s in shapes], "maxdim": maxdim, "merge": merge, "opt": opts[k % len(opts)],
                    "presence": gen_presence(rng, kind, len(shapes), T), "pkind": kind, "seed": rng.randrange(1 << 30), "zeros": [], "zkind": "none"}
            if v % 5 in (1, 3):
                spec["zkind"] = zkinds[zc % len(zkinds)]
                zc += 1
                spec["zeros"], _ = gen_zeros(rng, spec["zkind"], spec["shapes"], n, spec["presence"])
                spec["opt"] = ZERO_OPTS[k % len(ZERO_OPTS)]
            specs.append(spec)
            k += 1
    # ---- HybridShard
    meshes = [(1, 2), (2, 1), (2, 2), (3, 1), (2, 3), (4, 1)]
    if thorough:
        meshes += [(3, 2), (4, 2), (2, 4), (6, 1), (1, 4), (8, 1)]
    combos = [(cp, dt) for cp in (False, True) for dt in ("FP32", "BF16", "FP16")]
    for (R, S) in meshes:
        for gs in divisors(R):
            for v in range(10 if thorough else 4):
                cp, dt = combos[(k + v) % len(combos)] if not thorough else combos[v % len(combos)]
                shapes, maxdim, merge = choose_shapes(rng, S, True, min_blocks=gs)
                T = rng.randint(4, 6)
                kind = kinds[(k + rng.randrange(2)) % len(kinds)]
                spec = {"kind": "hy", "R": R, "S": S, "gs": gs, "gs_default": bool(gs == R and rng.random() < 0.5), "cp": cp,
                        "cdtype": "DEFAULT" if (dt == "FP32" and rng.random() < 0.3) else dt,
                        "shapes": [list(s) for s in shapes], "maxdim": maxdim, "merge": merge, "opt": opts[k % len(opts)],
                        "presence": gen_presence(rng, kind, len(shapes), T), "pkind": kind, "seed": rng.randrange(1 << 30), "zeros": [], "zkind": "none"}
                if v % 5 in (1, 3):
                    spec["zkind"] = zkinds[zc % len(zkinds)]
                    zc += 1
                    spec["zeros"], _ = gen_zeros(rng, spec["zkind"], spec["shapes"], S, spec["presence"])
                    spec["opt"] = ZERO_OPTS[k % len(ZERO_OPTS)]
                specs.append(spec)
                k += 1
    specs.append(ZERO_SHARD_MINIMAL)
    specs.append(F6_MINIMAL)
    specs += audit_specs(rng, thorough)
    return specs


def audit_specs(rng, thorough):
    """Targeted scenarios for the input classes the quantifier of C08 names or plainly allows and the random generator above
    does not reach in the quick tier (quantifier audit; the measured class counts go to evidence quantifier_audit)."""
    opts = list(OPT_CONFIGS)
    out = []
    cnt = [0]

    def fs(n, **kw):
        every = kw.pop("every", True)
        shapes = kw.pop("shapes", None)
        maxdim, merge = kw.pop("maxdim", None), kw.pop("merge", None)
        if shapes is None:
            shapes, md, mg = choose_shapes(rng, n, every)
            maxdim = md if maxdim is None else maxdim
            merge = mg if merge is None else merge
        T = kw.pop("T", rng.randint(4, 6))
        pk = kw.pop("pkind", "random")
        spec = {"kind": "fs", "n": n, "shapes": [list(x) for x in shapes], "maxdim": 4 if maxdim is None else maxdim, "merge": True if merge is None else merge,
                "opt": kw.pop("opt", opts[cnt[0] % len(opts)]), "presence": gen_presence(rng, pk, len(shapes), T), "pkind": pk,
                "seed": rng.randrange(1 << 30), "zeros": [], "zkind": "none"}
        spec.update(kw)
        cnt[0] += 1
        out.append(spec)
        return spec

    def hy(R, S, gs, cp, dt, **kw):
        shapes = kw.pop("shapes", None)
        maxdim, merge = kw.pop("maxdim", None), kw.pop("merge", None)
        if shapes is None:
            shapes, md, mg = choose_shapes(rng, S, True, min_blocks=gs)
            maxdim = md if maxdim is None else maxdim
            merge = mg if merge is None else merge
        T = kw.pop("T", rng.randint(4, 6))
        pk = kw.pop("pkind", "random")
        spec = {"kind": "hy", "R": R, "S": S, "gs": gs, "gs_default": kw.pop("gs_default", False), "cp": cp, "cdtype": dt,
                "shapes": [list(x) for x in shapes], "maxdim": 4 if maxdim is None else maxdim, "merge": True if merge is None else merge,
                "opt": kw.pop("opt", opts[cnt[0] % len(opts)]), "presence": gen_presence(rng, pk, len(shapes), T), "pkind": pk,
                "seed": rng.randrange(1 << 30), "zeros": [], "zkind": "none"}
        spec.update(kw)
        cnt[0] += 1
        out.append(spec)
        return spec

    def scale_rows(spec, n, f, whole=False):
        """rows of one rank's non-empty shard (or the whole gradient) of a parameter scaled by f at a middle step, present around it"""
        T = len(spec["presence"])
        t = rng.randrange(1, T - 1)
        j = rng.randrange(len(spec["shapes"]))
        rows = spec["shapes"][j][0]
        cands = [r for r in range(n) if chunk_rows(rows, n, r)[1] > chunk_rows(rows, n, r)[0]]
        lo, hi = (0, rows) if whole else chunk_rows(rows, n, rng.choice(cands))
        for tt in (t - 1, t, t + 1):
            spec["presence"][tt][j] = True
        spec.setdefault("scales", []).append([t, j, lo, hi, f])

    reps = 3 if thorough else 1
    for _ in range(reps):
        # -- shard counts 5..8 and 8-rank meshes also in the quick tier
        if not thorough:
            for n in (5, 6, 7, 8):
                fs(n, pkind="random")
                fs(n, pkind="late", every=(n != 7))
            hy(4, 2, 2, True, "FP32", pkind="full")
            hy(2, 4, 2, False, "BF16", pkind="late")
            hy(8, 1, 4, True, "FP16", pkind="full")
            hy(1, 4, 1, False, "FP32", pkind="random")
        # -- storage dtype of the parameters x preconditioner dtype x communication dtype
        for n, pd, op in ((2, "f64", "shampoo_adam"), (3, "bf16", "shampoo_momentum"), (2, "f16", "shampoo_adagrad"), (4, "f64", "soap"), (3, "bf16", "shampoo_rmsprop")):
            fs(n, pdtype=pd, opt=op)
        fs(3, precdtype="f64", opt="shampoo_adam")
        fs(2, precdtype="f64", pdtype="f64", opt="soap")
        for (R, S, gs, cp, dt, pd) in ((2, 2, 2, False, "FP32", "f64"), (2, 1, 2, True, "BF16", "f64"), (2, 2, 2, True, "FP32", "bf16"), (2, 2, 1, False, "BF16", "bf16"),
                                       (3, 1, 3, False, "FP16", "f16"), (2, 2, 2, True, "FP32", "f16")):
            hy(R, S, gs, cp, dt, pdtype=pd, opt=("shampoo_adam", "shampoo_momentum", "shampoo_rmsprop")[cnt[0] % 3], pkind=("full", "late", "random")[cnt[0] % 3])
        hy(2, 2, 2, False, "FP32", precdtype="f64", opt="shampoo_adam")
        # -- gradient magnitudes: tiny (1e-6: tolerance tests vs exact-zero tests; 1e-30: squares underflow) and huge, on a shard / whole
        for n, f, whole in ((2, 1e-6, False), (3, 1e-30, True), (4, 1e-6, True), (2, 1e3, False)):
            sp = fs(n, opt=ZERO_OPTS[cnt[0] % 4], pkind="full")
            scale_rows(sp, n, f, whole)
        for (R, S, gs, cp, dt, f) in ((2, 2, 2, False, "FP32", 1e-6), (2, 1, 2, True, "BF16", 1e-30), (2, 2, 1, False, "FP16", 1e-6), (3, 1, 3, False, "FP32", 1e3)):
            sp = hy(R, S, gs, cp, dt, opt=ZERO_OPTS[cnt[0] % 4], pkind="full")
            scale_rows(sp, S, f, cnt[0] % 2 == 0)
        # -- gradients in a non-default memory layout (every parameter of order >= 2)
        for n in (2, 4):
            sp = fs(n, pkind="random")
            sp["noncontig"] = [j for j, sh in enumerate(sp["shapes"]) if len(sh) >= 2]
        sp = hy(2, 2, 2, False, "FP32", pkind="late")
        sp["noncontig"] = [j for j, sh in enumerate(sp["shapes"]) if len(sh) >= 2]
        # -- two equal-shaped parameters whose gradients alternate; nobody has a gradient at the first step
        fs(2, shapes=[(4, 3), (4, 3), (5,), (2, 6)], maxdim=3, pkind="alternate", opt="shampoo_adam", T=6)
        fs(3, shapes=[(6,), (6,), (3, 3), (1, 4)], maxdim=4, pkind="alternate", opt="shampoo_rmsprop", T=5)
        hy(2, 2, 2, True, "FP32", shapes=[(4, 3), (4, 3), (5,), (2, 6)], maxdim=3, pkind="alternate", opt="shampoo_momentum", T=6)
        hy(2, 1, 2, False, "BF16", shapes=[(4,), (4,), (4,), (4,)], maxdim=4, pkind="alternate", opt="shampoo_adagrad", T=5)
        fs(3, pkind="first_none")
        hy(2, 2, 2, False, "FP32", pkind="first_none")
        hy(3, 1, 3, True, "FP16", pkind="first_none")
        # -- FullyShard: gradient presence differs between the ranks (p.grad is None on some ranks only)
        for n in (3, 4):
            sp = fs(n, pkind="full")
            T, k = len(sp["presence"]), len(sp["shapes"])
            sp["rank_presence"] = [[[rng.random() < 0.6 for _ in range(k)] for _ in range(T)] for _ in range(n)]
            sp["rank_presence"][0][1] = [False] * k           # one rank has no gradient at all at step 1
            sp["pkind"] = "rank_dependent"
        # -- twin parameter groups with identical hyperparameters (every group has a non-empty shard on every rank)
        for n, shapes, groups in ((2, [(4, 3), (1, 4), (5,), (4, 3), (1, 4), (6, 2)], [[0, 1, 2], [3, 4, 5]]),
                                  (3, [(3, 3), (2,), (7,), (3, 3), (2,), (9,)], [[0, 1, 2], [3, 4, 5]]),
                                  (4, [(8, 2), (1,), (4, 4), (3,)], [[0, 1], [2, 3]])):
            fs(n, shapes=shapes, maxdim=3, groups=groups, pkind=("random", "late", "none_step")[cnt[0] % 3], opt=ZERO_OPTS[cnt[0] % 4])
        # -- a parameter without any element (a dimension of size 0): skipped on every rank
        fs(2, shapes=[(3, 4), (2, 0), (5,)], maxdim=4, pkind="random")
        fs(3, shapes=[(0, 3), (6, 2), (1,)], maxdim=4, pkind="late")
        # -- injected interleaving: random delays before every step of every rank
        hy(2, 2, 2, False, "FP32", delays=True, pkind="random")
        hy(4, 1, 2, True, "BF16", delays=True, pkind="late")
        hy(3, 1, 3, False, "FP16", delays=True, pkind="one_absent")
    return out


NOT_EXERCISED = {
    "real fully_shard / DTensor runtime, NCCL, accelerators": "needs GPUs and torchrun; DTensor is stood in for by FakeDT (to_local = torch.chunk view), torch.distributed by harness/sim.py",
    "0-dimensional (scalar) parameters": "cannot be sharded on dim 0; fully_shard rejects them",
    "Shard placements other than dim 0, _StridedShard, replicated parameters inside fully_shard": "the property is about dim-0 sharded DTensors",
    "HybridShard with several parameter groups": "the column model (Dist.v) and the recorded-direction oracle are per distributor; twin groups are exercised with FullyShard (whose code path HybridShard shares for the filtered traversals) and with DDP in C06",
    "HybridShard with gradient presence differing between shard coordinates / between replicas": "replicas of a shard coordinate hold the all-reduced gradient; presence differing between ranks is exercised with FullyShard only",
    "communicated values overflowing the communication dtype (FP16 inf) / NaN, inf gradients": "the exact binary32 arithmetic of DistExec returns a poison value on non-finite inputs; overflow of the communication rounding is exercised by C06",
    "float16/bfloat16 preconditioner_dtype": "no eigh/qr CPU kernels for 16-bit dtypes (platform limit)",
    "PT2-compiled step with FakeDT parameters": "Dynamo cannot trace the tensor-subclass stand-in; compiled steps are the subject of C18",
    "more than 8 ranks, tensors of order > 3, blocks larger than ~120 elements": "run-time budget of the rank simulator; the theorems quantify over all sizes",
    "schedules of ranks between collectives beyond random delays": "every schedule is covered by C08_hybrid_interleaving_irrelevant on the model; the simulator's thread interleaving + injected delays sample a few",
}


def classes_of(spec):
    """Input classes of one scenario, from the INPUT only (quantifier audit)."""
    c = set()
    fsk = spec["kind"] == "fs"
    n = spec["n"] if fsk else spec["S"]
    world = n if fsk else spec["R"] * spec["S"]
    c.add(f"{'FullyShard shard count' if fsk else 'HybridShard shard dim'} {n}")
    c.add("8 simulated ranks" if world == 8 else ("5-7 simulated ranks" if world >= 5 else "1-4 simulated ranks"))
    if n == 1:
        c.add("single shard rank (local = global)")
    shapes = spec["shapes"]
    for sh in shapes:
        c.add(f"parameter of order {len(sh)}")
        if math.prod(sh) == 0:
            c.add("parameter with numel 0 (skipped on every rank)")
            continue
        if sh[0] < n:
            c.add("rows < shard count (some rank gets no row)")
        elif sh[0] % n:
            c.add("rows not a multiple of the shard count (uneven shards)")
            if chunk_rows(sh[0], n, n - 1)[1] == chunk_rows(sh[0], n, n - 1)[0]:
                c.add("rows >= shard count but the last rank still gets nothing (torch.chunk)")
        else:
            c.add("rows a multiple of the shard count")
        if sh[0] == 1:
            c.add("one-row parameter")
        if any(d == 1 for d in sh[1:]) or (len(sh) > 1 and sh[0] == 1):
            c.add("dimension of size 1")
    for r in range(n):
        ls = local_shapes(shapes, n, r)
        if all(math.prod(x) == 0 for x in ls):
            c.add("rank with only empty shards (constructor assertion)")
        numels, nblocks = blocks_of_locals(ls, spec["maxdim"], spec["merge"])
        if any(k > 1 for k in nblocks):
            c.add("local shard split into several blocks")
    c.add("use_merge_dims=" + str(spec["merge"]))
    c.add("optimizer " + spec["opt"])
    c.add("parameter dtype " + spec.get("pdtype", "f32"))
    c.add("preconditioner dtype " + spec.get("precdtype", "f32"))
    pres = spec["presence"]
    if spec.get("rank_presence"):
        c.add("FullyShard: gradient presence differs between ranks")
        pres = [row for rp in spec["rank_presence"] for row in rp]
    if any(not all(row) for row in pres):
        c.add("absent gradients")
    if any(not any(row) for row in pres):
        c.add("step where no parameter has a gradient")
    if not any(spec["presence"][0]) or (spec.get("rank_presence") and any(not any(rp[0]) for rp in spec["rank_presence"])):
        c.add("no gradient at the FIRST step")
    if any(not any(row[j] for row in spec["presence"]) for j in range(len(shapes))):
        c.add("parameter that never has a gradient (dead layer)")
    if any(t > 0 and any(spec["presence"][t][j] and not any(spec["presence"][u][j] for u in range(t)) for j in range(len(shapes))) for t in range(len(spec["presence"]))):
        c.add("parameter whose first gradient arrives late")
    if spec["pkind"] == "alternate":
        c.add("two equal-shaped parameters with alternating gradients")
    if spec.get("zkind", "none") != "none":
        c.add({"shard": "present gradient exactly zero on one rank's shard", "whole": "present gradient entirely zero",
               "step": "every gradient of a step present and zero"}[spec["zkind"]])
    for _, _, _, _, f in spec.get("scales", []):
        c.add("tiny gradient rows (1e-6 / 1e-30)" if f < 1 else "huge gradient rows (1e3)")
    if spec.get("noncontig"):
        c.add("gradient in a non-default memory layout")
    if len(_groups(spec)) > 1:
        c.add("twin parameter groups (identical hyperparameters)")
    if not fsk:
        c.add(f"2-D mesh {spec['R']}x{spec['S']}")
        gs, R = spec["gs"], spec["R"]
        c.add("num_trainers_per_group = 1" if gs == 1 else ("num_trainers_per_group = replicate size" if gs == R else "1 < num_trainers_per_group < replicate size"))
        if spec.get("gs_default"):
            c.add("num_trainers_per_group = -1 (default)")
        c.add("communication dtype " + spec["cdtype"])
        c.add("communicate_params=" + str(spec["cp"]))
        if spec.get("pdtype", "f32") != "f32" or spec["cdtype"] in ("BF16", "FP16"):
            c.add("communication dtype differs from the parameter dtype (rounded reference)")
        if spec.get("delays"):
            c.add("injected interleaving delays")
        if spec["S"] == 1:
            c.add("mesh with one shard coordinate (pure replicate group)")
        if spec["R"] == 1:
            c.add("mesh with one replica (pure FullyShard through the HybridShard code)")
    else:
        c.add("1-D mesh (FullyShardShampooConfig)")
    return c


# minimal reproducer of the known finding through HybridShard: 2 replicas of one shard rank, three one-block parameters
# (owners 0,1,0), a step where parameter 1 (the only block of group rank 1) has no gradient
F6_MINIMAL = {"kind": "hy", "R": 2, "S": 1, "gs": 2, "gs_default": True, "cp": False, "cdtype": "FP32", "shapes": [[4], [4], [4]], "maxdim": 4,
              "merge": True, "opt": "shampoo_adagrad", "presence": [[True, True, True], [True, False, True], [True, True, True]], "pkind": "starve", "seed": 7}


# a present gradient whose rows 4..7 (rank 1's shard of parameter 0) are exactly zero at step 2, after two dense steps and
# before a dense one; rank 1 has no row of the last parameter; beta1 > 0, weight decay > 0
ZERO_SHARD_MINIMAL = {"kind": "fs", "n": 2, "shapes": [[8, 4], [6, 4], [1, 4]], "maxdim": 4, "merge": True, "opt": "shampoo_adam",
                      "presence": [[True, True, True], [True, False, True], [True, True, True], [True, True, False]], "pkind": "random", "seed": 11,
                      "zeros": [[2, 0, 4, 8]], "zkind": "shard"}


_IN_PROCESS = [0]      # scenarios already run by this worker process (module-level / cached state survives between them)


def work_item(args):
    i, spec = args
    import torch
    torch.set_num_threads(1)
    from harness import sim
    sim.silence_library_logging()
    t0 = time.time()
    out = {"i": i, "spec": spec, "nth_in_process": _IN_PROCESS[0]}
    _IN_PROCESS[0] += 1
    try:
        if spec["kind"] == "fs":
            o = run_fs(spec)
            out["coq"], out["nres"] = coq_fs_case(i, spec, o)
            out["errors"] = [f"rank {r}: {rk['error']}" for r, rk in enumerate(o["ranks"]) if rk["error"]]
            out["tracebacks"] = [rk["traceback"] for rk in o["ranks"] if rk["traceback"]][:1]
            out["ctor_failed"] = [bool(rk["rec"].get("ctor_failed")) for rk in o["ranks"]]
            out["empty_shards"] = sum(1 for rk in o["ranks"] for sh in rk["rec"].get("lshapes", []) if math.prod(sh) == 0)
            out["nranks"] = len(o["ranks"])
        else:
            sig = hy_input_signature(spec)
            o = run_hy(spec)
            out["sig"] = sig
            out["coq"], nagree, nchk = coq_hy_case(i, spec, o, sig)
            out["nres"], out["nagree"] = nagree + nchk, nagree
            out["errors"] = [f"rank {g}: {rk['error']}" for g, rk in enumerate(o["ranks"]) if rk["error"]] + \
                            [f"FullyShard-only reference, shard rank {s}: {rf['error']}" for s, rf in enumerate(o["refs"]) if rf["error"]]
            out["tracebacks"] = [rk["traceback"] for rk in o["ranks"] if rk["traceback"]][:1]
            out["hung"] = [rk["hung"] for rk in o["ranks"]]
            out["hangs"] = o["hangs"]
            out["steps_done"] = [len(rk["rec"].get("blocks", [])) for rk in o["ranks"]]
            out["owners_match"] = all(column_of(spec, o, s)[1] == sig["columns"][s]["owners"] for s in range(spec["S"]))
            out["empty_shards"] = sum(1 for c in sig["columns"] for ne in c["nonempty"] if not ne)
            out["nranks"] = len(o["ranks"])
            S = spec["S"]
            out["replicas_equal_py"] = all(o["ranks"][g]["rec"].get("local") == o["ranks"][g % S]["rec"].get("local") for g in range(len(o["ranks"])))
    except Exception:  # noqa
        import traceback
        out["crash"] = traceback.format_exc()
    out["wall"] = time.time() - t0
    return out


# --------------------------------------------------------------------------------------


def small_key(spec):
    return (spec.get("n", 0) + spec.get("R", 0) * spec.get("S", 0), len(spec["presence"]), len(spec["shapes"]), sum(math.prod(s) for s in spec["shapes"]))


def describe(spec):
    if spec["kind"] == "fs":
        head = f"FullyShard n={spec['n']}"
    else:
        head = (f"HybridShard mesh {spec['R']}x{spec['S']} num_trainers_per_group={spec['gs']} communicate_params={spec['cp']} {spec['cdtype']}")
    return f"{head} shapes={spec['shapes']} max_preconditioner_dim={spec['maxdim']} use_merge_dims={spec['merge']} {spec['opt']} presence={spec['presence']} zero_rows[step,param,lo,hi]={spec.get('zeros', [])}"


def run(ck: Check) -> None:
    common.assert_repo_imports()
    ck.coq_props(extra_targets=["theories/FullyShardExec.vo"])
    specs = gen_scenarios(ck)
    with mp.get_context("fork").Pool(16) as pool:
        results = pool.map(work_item, list(enumerate(specs)), chunksize=1)

    crashed = [r for r in results if "crash" in r]
    for r in crashed[:3]:
        ck.report(None, f"scenario {r['i']} crashed the harness/implementation: {r['crash'][-400:]}",
                  {"kind": "crash", "spec": r["spec"], "traceback": r["crash"][-3000:]}, no_failing_input=True)
    evaluated = [r for r in results if "coq" in r]

    sources, groups, cur, cur_size = {}, [], [], 0
    for r in evaluated:
        if cur and cur_size + len(r["coq"]) > 500_000:
            groups.append(cur)
            cur, cur_size = [], 0
        cur.append(r)
        cur_size += len(r["coq"])
    if cur:
        groups.append(cur)
    for fi, grp in enumerate(groups):
        body = "\n".join(r["coq"] for r in grp)
        allb = " ++ ".join(f"res_{r['i']}" for r in grp)
        sources[f"c08_{fi:04d}"] = HEADER + body + f"\nEval vm_compute in show_bools ({allb}).\n"
    out = ck.eval_coq(sources) if sources else {}
    for fi, grp in enumerate(groups):
        flat = out[f"c08_{fi:04d}"][0]
        assert len(flat) == sum(r["nres"] for r in grp), (len(flat), [r["nres"] for r in grp])
        pos = 0
        for r in grp:
            b = [c == "T" for c in flat[pos:pos + r["nres"]]]
            pos += r["nres"]
            if r["spec"]["kind"] == "fs":
                r["agree"] = all(b[0::2])
                r["check"] = all(b[1::2])
                r["per_rank"] = [(b[2 * k], b[2 * k + 1]) for k in range(r["nres"] // 2)]
            else:
                r["agree"] = all(b[:r["nagree"]])
                r["check"] = all(b[r["nagree"]:])
                r["bools"] = b

    # ---- verdicts -----------------------------------------------------------------------
    starv, other, corr = [], [], []
    for r in evaluated:
        spec = r["spec"]
        starves = spec["kind"] == "hy" and r["sig"]["starves"]     # input side of the (repaired) defect F6
        if r["errors"]:      # starvation makes ranks wait or diverge, it never makes one raise
            other.append((r, "a rank raised: " + r["errors"][0][:300]))
        if spec["kind"] == "hy" and not r["owners_match"]:
            other.append((r, "block -> rank assignment differs from the documented greedy rule (harness input model out of date?)"))
        if not r["check"]:
            if spec["kind"] == "fs":
                why = "a local shard differs from the single-process run on that local tensor, a foreign row was written, or an empty shard was touched"
            else:
                why = "replicas differ / differ from the FullyShard-only run, collective sequences differ inside a comms group, creations differ, or a rank is left waiting"
            # attributed to the known starvation defect only when the model (which has the defect) predicts exactly this run
            (starv if (starves and r["agree"] and not GLOBAL_SKIP) else other).append((r, why))    # F6 repaired: nothing is attributed to it any more
        if not r["agree"] and r["check"] and not r["errors"]:
            corr.append(r)        # the code behaves differently from the model but the property still holds on this observation

    def rep(sig_key, hits, title, predicate):
        if not hits:
            return
        hits.sort(key=lambda x: small_key(x[0]["spec"]))
        r, why = hits[0]
        ck.report(sig_key, f"{title}: {why} [{len(hits)} scenarios; smallest: {describe(r['spec'])}]",
                  {"kind": "property-fails", "spec": r["spec"], "input_signature": r.get("sig"), "checker": r.get("check"), "agree": r.get("agree"),
                   "hung": r.get("hung"), "hangs": r.get("hangs"), "steps_completed_per_rank": r.get("steps_done"), "errors": r.get("errors"),
                   "tracebacks": r.get("tracebacks"), "n_scenarios": len(hits), "predicate": predicate})

    rep(SIG_STARVATION, starv, "rank starvation in the replicate group (a rank whose owned blocks all lack a gradient skips the group step and the all-gather)",
        "C08_hybrid_checkb")
    rep(None, other, "C08 violated", "C08_checkb / C08_hybrid_checkb")
    if corr:
        corr.sort(key=lambda x: small_key(x["spec"]))
        r = corr[0]
        ck.report(None, f"model/implementation correspondence broken in {len(corr)} scenarios (smallest: {describe(r['spec'])}); the certified checkers pass on these "
                  f"observations and no scenario of this run fails them" if not other else
                  f"model/implementation correspondence broken in {len(corr)} further scenarios on which the certified checkers pass (smallest: {describe(r['spec'])})",
                  {"kind": "correspondence", "broken": "FullyShardExec.C08_fs_agree / C08_hy_agree (FullyShard.v + Dist.v models vs observed structure, selectors, values, logs, hangs)",
                   "spec": r["spec"], "bools": r.get("bools") or r.get("per_rank"), "checker": r.get("check"), "hung": r.get("hung"),
                   "theorems_not_transferring": THEOREMS, "n_scenarios": len(corr)}, no_failing_input=True)

    # ---- evidence ------------------------------------------------------------------------
    def hist(key, rs=evaluated):
        h = {}
        for r in rs:
            k = str(key(r))
            h[k] = h.get(k, 0) + 1
        return dict(sorted(h.items()))

    fs = [r for r in evaluated if r["spec"]["kind"] == "fs"]
    hy = [r for r in evaluated if r["spec"]["kind"] == "hy"]
    nontriv = {json.dumps(r["spec"], sort_keys=True) for r in evaluated if r.get("empty_shards", 0) > 0 or (r["spec"]["kind"] == "hy" and r["spec"]["gs"] >= 2)}
    samples = []
    for r in (fs[len(fs) // 2:len(fs) // 2 + 1] + hy[len(hy) // 3:len(hy) // 3 + 1] + hy[-1:]):
        s = r["spec"]
        samples.append({k: s[k] for k in s if k != "seed"} | {"agree": r["agree"], "checker": r["check"], "empty_local_shards": r.get("empty_shards"),
                                                             "hung": r.get("hung"), "starving_columns": [c["starving_steps"] for c in r["sig"]["columns"]] if "sig" in r else None})
    qa = {}
    for r in evaluated:
        for c in classes_of(r["spec"]):
            qa[c] = qa.get(c, 0) + 1
    qa["present gradient exactly zero on a non-empty local shard after a non-zero one (rank,step,param triples)"] = sum(len(zero_shard_events(r["spec"])) for r in evaluated)
    qa["scenario that is not the first one run by its process (cached / module-level state of an earlier optimizer alive)"] = sum(1 for r in evaluated if r.get("nth_in_process", 0) > 0)
    qa["starving history (a rank of a comms group without local gradients while a peer has one)"] = sum(1 for r in hy if r["sig"]["starves"])
    qa["empty local shards (rank x parameter)"] = sum(r.get("empty_shards", 0) for r in evaluated)
    ck.coverage["quantifier_audit"] = dict(sorted(qa.items()))
    ck.coverage["not_exercised"] = NOT_EXERCISED
    ck.coverage.update({
        "evaluations": len(evaluated),
        "distinct_nontrivial": len(nontriv),
        "rule": "one evaluation = one cluster scenario (all ranks, all steps): FullyShard - every rank's structure/selectors/counter compared with the Coq model and its local shards pushed through C08_checkb against the single-process run on the local tensors; HybridShard - every column compared with the C06 cluster model, every rank's structure with the FullyShard model, the whole mesh pushed through C08_hybrid_checkb against the FullyShard-only run; non-trivial = distinct scenarios in which some rank has an empty local shard or blocks are distributed over a replicate group of >= 2 ranks",
        "exhaustive": False,
        "samples": samples,
        "distribution": {
            "kind": hist(lambda r: r["spec"]["kind"]),
            "fullyshard_shard_counts": hist(lambda r: r["spec"]["n"], fs),
            "hybrid_mesh_RxS": hist(lambda r: f"{r['spec']['R']}x{r['spec']['S']}", hy),
            "hybrid_group_size": hist(lambda r: r["spec"]["gs"], hy),
            "communicate_params": hist(lambda r: r["spec"]["cp"], hy), "communication_dtype": hist(lambda r: r["spec"]["cdtype"], hy),
            "optimizer": hist(lambda r: r["spec"]["opt"]), "presence_kind": hist(lambda r: r["spec"]["pkind"]),
            "zero_gradient_kind": hist(lambda r: f"{r['spec']['kind']}:{r['spec'].get('zkind', 'none')}"),
            "present_gradient_exactly_zero_on_a_local_shard_after_a_nonzero_one (rank,step,param triples)": sum(len(zero_shard_events(r["spec"])) for r in evaluated),
            "scenarios_with_such_a_zero_shard": sum(1 for r in evaluated if zero_shard_events(r["spec"])),
            "use_merge_dims": hist(lambda r: r["spec"]["merge"]), "max_preconditioner_dim": hist(lambda r: r["spec"]["maxdim"]),
            "steps": hist(lambda r: len(r["spec"]["presence"])), "params": hist(lambda r: len(r["spec"]["shapes"])),
            "tensor_orders": hist(lambda r: sorted({len(s) for s in r["spec"]["shapes"]})),
            "simulated_ranks_total": sum(r.get("nranks", 0) for r in evaluated),
            "empty_local_shards_total": sum(r.get("empty_shards", 0) for r in evaluated),
            "scenarios_with_empty_local_shard": sum(1 for r in evaluated if r.get("empty_shards", 0) > 0),
            "ranks_with_only_empty_shards (constructor assertion, modelled)": sum(sum(r.get("ctor_failed", [])) for r in fs),
            "starving_histories": sum(1 for r in hy if r["sig"]["starves"]),
            "scenarios_with_hung_rank": sum(1 for r in hy if any(r.get("hung", []))),
        },
        "disagreements_model_vs_implementation": len(corr),
        "checker_failures": {"rank_starvation": len(starv), "other": len(other)},
    })
    ck.assumptions += [
        "harness/sim.py stands in for torch.distributed / DeviceMesh inside the distributor modules; FakeDT (harness/c08.py) stands in for DTensor: to_local() is the torch.chunk dim-0 chunk as a view of the global tensor, .grad likewise - the real fully_shard runtime is not exercised",
        "HybridShard: the per-block search directions are replayed from the implementation run (oracle); only the distributor's own arithmetic (float32 add, bf16/fp16 rounding) is recomputed in Coq; replicas of a shard coordinate receive the same gradients",
        "FullyShard values are tied to the single-process IMPLEMENTATION run on the local tensors (bit-exact), not recomputed in Coq",
        "every rank has at least one non-empty local shard, except in the scenarios that exercise the constructor assertion",
    ]
    ck.notes.append("F6 (rank starvation) is repaired in /repo (1e81303): starving histories are ordinary scenarios now and must pass; "
                    "gradient histories include PRESENT gradients that are exactly zero on a rank's local shard / on the whole tensor / for a whole step "
                    "(the model's selector is `p.grad is not None`, and the serial run does not ignore a zero gradient)")


def replay(obj) -> bool:
    common.assert_repo_imports()
    import torch
    torch.set_num_threads(1)
    from harness import sim
    sim.silence_library_logging()
    spec = obj["spec"]
    print(describe(spec))
    if spec["kind"] == "fs":
        o = run_fs(spec)
        for r, rk in enumerate(o["ranks"]):
            rec = rk["rec"]
            ne = [math.prod(sh) > 0 for sh in rec.get("lshapes", [])]
            loc = [[[b for j, (b, keep) in enumerate(zip(step, ne)) if keep and j in g] for step in rec.get("local", [])] for g in _groups(spec)]
            print(f"rank {r}: local shapes {rec.get('lshapes')} ctor_failed={rec.get('ctor_failed')} error={rk['error']} block infos per group {[g['binfo'] for g in rec.get('grp', [])]}")
            print(f"   local shards == serial on local tensors after every step: {loc == rk['ref']};  foreign rows untouched: {all(x == rec.get('outside0') for x in rec.get('outside', []))}")
    else:
        sig = hy_input_signature(spec)
        print("input signature:", sig)
        o = run_hy(spec)
        S = spec["S"]
        print("hung ranks:", [g for g, rk in enumerate(o["ranks"]) if rk["hung"]], "hangs:", o["hangs"])
        print("steps completed per rank:", [len(rk["rec"].get("blocks", [])) for rk in o["ranks"]])
        for g, rk in enumerate(o["ranks"]):
            print(f"rank {g} (replica {g // S}, shard {g % S}): error={rk['error']} equals FullyShard-only run after every step: "
                  f"{rk['rec'].get('blocks') == o['refs'][g % S]['blocks']}; gathers: {[e for e in model_log(rk['log']) if e[0] == 'all_gather']}")
    return True
