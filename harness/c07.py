"""C07 - FSDP/HSDP Shampoo = serial Shampoo on the shard's recovered tensor blocks.

Simulated ranks (harness/sim.py) hold HAND-MADE flat shards: every original parameter is flattened, the concatenation is
cut at arbitrary rank boundaries (mid-row cuts, empty shards, empty ranks), each rank's "parameter" is the 1-D shard with
FSDPParameterMetadata(shape, numel, start, end).  The real DistributedShampoo runs per rank with FSDPShampooConfig /
HSDPShampooConfig.  Stages (everything is decided by coqc on generated case files; Python reads T/F):
  L  layout     both distributors' bookkeeping (num_splits_per_param, num_blocks_per_split_param, merged_dims_list,
                num_blocks_per_param, every block view, every gradient block view) vs Fsdp.fsdp_init / grad_blocks_param;
  M  metadata   torch's FlatParamHandle._get_shard_metadata + compile_fsdp_parameter_metadata on stub flat-param handles
                vs Fsdp.shard_info_of / metadata_of_shard_info;
  R  FSDP runs  per rank after every step: shard bits vs the SERIAL implementation run on the recovered pieces as
                independent parameters (pieces from the harness's port of the Coq model, checked = model and = both
                implementation copies inside coqc), C07_checkb (values + every element in exactly one block of one rank);
  H  HSDP runs  2-D meshes: every replica vs the FSDP-only run of its shard column and vs the serial reference (rounded
                for BF16/FP16), the Dist.v cluster model per column (values, collectives, hang sets), C07_hsdp_checkb.
The real FullyShardedDataParallel wrapper is NOT exercised (needs accelerators).
"""
from __future__ import annotations

import itertools
import json
import math
import multiprocessing as mp
import os
import time

from harness import common
from harness.common import Check, coq_bool

META = {
    "property_id": "C07",
    "design_ref": "DESIGN.md §4 C07 (+ C06 Dist.v, C15 SplitRecovery.v, C05 Blocking.v, §3.5 ranks, §6 F6, Appendix B.2)",
    "technique": "Coq proof (induction over parameter lists, recovered-piece chains, block boxes and histories) on a flat-shard model generic in the per-block computation, composed with the C06 cluster model for HSDP + correspondence on simulated shard ranks with hand-made flat shards (bit-exact, evaluated by vm_compute) + certified checkers on the observed shards / block index sets / logs",
    "level_text": "Theorems (Fsdp*.v) for any shapes of any order, any shard boundaries (mid-row, empty), any number of parameters and ranks, any history, any per-block computation: fsdp_eq_serial_on_recovered (block values, block states, step counter and every shard slice = the single-process optimizer on the recovered pieces as independent parameters), empty_shard_no_blocks / empty_shard_ignored, shards_update_each_element_once (rec_chain + blocks_tile => Permutation with 0..numel-1 across ranks), grad_bookkeeping_aligned (gradient blocks = the parameter's stored block views, for any selector), metadata_partition (torch shard infos -> start/end convention), hsdp_eq_fsdp_plus_ddp / hsdp_eq_serial_on_recovered / hsdp_replicas_agree / hsdp_collective_logs_equal (instances of the C06 theorems per shard column, for EVERY history: the skip rule as repaired in /repo discharges the no_starvation hypothesis), rank_addrs_nodup / rank_shards_read_back (the blocks of a rank address pairwise distinct shard elements, so the shard semantics `writeback` is exactly what in-place updates through the views leave). Rank starvation (F6 through the HSDP copy, repaired in /repo) is kept as a witness: C07_hsdp_starvation_harmless (the starving history runs, replicas agree; the pre-repair variant blocks). Tie: exhaustive layouts for small shapes x all (start,end) x both distributors, stub flat-param handles through torch's own _get_shard_metadata and compile_fsdp_parameter_metadata, optimizer runs on 1..8 (quick 1..4) shard ranks and R x S meshes, bit-for-bit.",
    "level_note": "Trusted: Coq kernel+vm_compute; the hand-written model; harness/sim.py (stand-ins for torch.distributed / DeviceMesh / DTensor); the serial implementation is the oracle for the per-block mathematics (its per-block independence is exercised, not proved); the real FullyShardedDataParallel wrapper is not run (no accelerator) - only compile_fsdp_parameter_metadata on stub handles carrying exactly the attributes it reads, with shard infos produced by torch's own FlatParamHandle._get_shard_metadata.",
    "ready": True,
}

SIG_STARVATION = "C07:rank-starvation"
SIG_EMPTY_GROUP = "C07:rank-with-empty-parameter-group-refused"
GLOBAL_SKIP = True      # step() skips only when NO block of the group has a gradient (F6 repaired in /repo)
# for testing a candidate repair in a scratch copy only (like VERIF_REPO; registered commands never set these)
if os.environ.get("VERIF_REPO", "/repo") != "/repo":
    GLOBAL_SKIP = os.environ.get("C07_GLOBAL_SKIP", os.environ.get("C06_GLOBAL_SKIP", "1" if GLOBAL_SKIP else "0")) == "1"

THEOREMS = ["C07_fsdp_eq_serial_on_recovered", "C07_empty_shard_ignored", "C07_shards_update_each_element_once",
            "C07_grad_bookkeeping_aligned", "C07_hsdp_eq_fsdp_plus_ddp", "C07_hsdp_replicas_agree", "C07_metadata_partition"]

FSDP_MOD = "distributed_shampoo.utils.shampoo_fsdp_distributor"


# --------------------------------------------------------------------------------------
# input-side geometry (no implementation involved)


def py_rec(shape, off, s, e):
    """Port of SplitRecovery.rec (the C15 model); its output is compared with the Coq model inside coqc (agree_pieces)."""
    if e == s:
        return []
    if len(shape) <= 1:
        return [(off, e - s, [e - s])]
    rest = list(shape[1:])
    R = math.prod(rest)
    cs = (s + R - 1) // R * R
    ce = e // R * R
    if cs < ce:
        return py_rec(rest, off, s, cs) + [(off + (cs - s), ce - cs, [(ce - cs) // R] + rest)] + py_rec(rest, off + (ce - s), ce, e)
    if ce < cs:
        return py_rec(rest, off, s, e)
    return py_rec(rest, off, s, cs) + py_rec(rest, off + (ce - s), ce, e)


def param_offsets(shapes):
    offs = [0]
    for s in shapes:
        offs.append(offs[-1] + math.prod(s))
    return offs


def shard_range(shapes, cuts, r, k):
    """(start_idx, end_idx) of original parameter k on the rank holding [cuts[r], cuts[r+1]) of the flat parameter."""
    offs = param_offsets(shapes)
    n = math.prod(shapes[k])
    a = min(max(cuts[r] - offs[k], 0), n)
    b = min(max(cuts[r + 1] - offs[k], 0), n)
    return (a, b) if a < b else (0, 0)


def rank_ranges(spec, r):
    if "ranges" in spec:        # explicit (start, end) per rank per parameter (layout cases)
        return [tuple(x) for x in spec["ranges"][r]]
    return [shard_range(spec["shapes"], spec["cuts"], r, k) for k in range(len(spec["shapes"]))]


def rank_pieces(shapes, ranges):
    """[(param index, offset in shard, length, shape)] - Fsdp.rank_pieces."""
    out = []
    for k, (sh, (a, b)) in enumerate(zip(shapes, ranges)):
        for o, l, shp in py_rec(list(sh), 0, a, b):
            out.append((k, o, l, shp))
    return out


# --------------------------------------------------------------------------------------
# implementation objects

OPT_CONFIGS = {
    "shampoo_adagrad": dict(lr=0.02, betas=(0.0, 1.0), epsilon=1e-6, freq=1, start=2, graft=("adagrad", 1e-8)),
    "shampoo_adam": dict(lr=0.01, betas=(0.9, 0.999), epsilon=1e-6, freq=2, start=2, graft=("adam", 0.999, 1e-8), weight_decay=0.01, decoupled=True),
    "soap": dict(lr=0.01, betas=(0.9, 0.99), epsilon=1e-6, freq=2, start=2, graft=None, soap=True),
    "shampoo_momentum": dict(lr=0.02, betas=(0.0, 1.0), epsilon=1e-6, freq=1, start=3, graft=("adagrad", 1e-8), momentum=0.5, nesterov=True, weight_decay=0.01, decoupled=False),
    "shampoo_rmsprop": dict(lr=0.01, betas=(0.5, 0.99), epsilon=1e-6, freq=3, start=3, graft=("rmsprop", 0.99, 1e-8), momentum=0.25, bias_correction=False),
}
FMT = {"FP32": 0, "DEFAULT": 0, "BF16": 1, "FP16": 2}


def make_optimizer(spec, params, dcfg):
    from distributed_shampoo.distributed_shampoo import DistributedShampoo
    from distributed_shampoo.shampoo_types import (AdaGradGraftingConfig, AdamGraftingConfig, DefaultShampooConfig,
                                                   DefaultSOAPConfig, RMSpropGraftingConfig)
    c = OPT_CONFIGS[spec["opt"]]
    g = c.get("graft")
    if g is None:
        graft = None
    elif g[0] == "adagrad":
        graft = AdaGradGraftingConfig(epsilon=g[1])
    elif g[0] == "rmsprop":
        graft = RMSpropGraftingConfig(beta2=g[1], epsilon=g[2])
    else:
        graft = AdamGraftingConfig(beta2=g[1], epsilon=g[2])
    import torch
    if spec.get("groups"):      # several parameter groups (identical hyper-parameters unless "group_lr" is given)
        lrs = spec.get("group_lr") or [None] * len(spec["groups"])
        params = [dict({"params": [params[i] for i in g]}, **({"lr": lr} if lr is not None else {})) for g, lr in zip(spec["groups"], lrs)]
        params = [g for g in params if g["params"]]
    extra = {}
    if spec.get("precond_dtype"):
        extra["preconditioner_dtype"] = getattr(torch, spec["precond_dtype"])
    return DistributedShampoo(
        params, **extra, lr=c["lr"], betas=c["betas"], epsilon=c["epsilon"], momentum=c.get("momentum", 0.0),
        weight_decay=c.get("weight_decay", 0.0), max_preconditioner_dim=spec["maxdim"], precondition_frequency=c["freq"],
        start_preconditioning_step=c["start"], use_nesterov=c.get("nesterov", False),
        use_bias_correction=c.get("bias_correction", True), use_decoupled_weight_decay=c.get("decoupled", True),
        use_merge_dims=spec.get("merge", True), grafting_config=graft, distributed_config=dcfg,
        preconditioner_config=DefaultSOAPConfig if c.get("soap") else DefaultShampooConfig)


def make_full_tensors(spec):
    """Full (unsharded) initial values and full gradients per step; values never depend on the presence pattern."""
    import torch
    g = torch.Generator().manual_seed(int(spec["seed"]))
    dt = getattr(torch, spec.get("pdtype", "float32"))
    sc = float(spec.get("grad_scale", 1.0))
    init = [torch.randn(tuple(sh), generator=g).to(dt) for sh in spec["shapes"]]
    grads = [[(torch.randn(tuple(sh), generator=g) * sc).to(dt) for sh in spec["shapes"]] for _ in spec["presence"]]
    return init, grads


def grad_values(spec, grads, t, k, a, b, r):
    """Values of the gradient shard of parameter k on shard rank r at step t (contiguous).  spec["zero"] makes PRESENT
    gradients exactly zero on a rank's shard / a parameter / an element range of the shard at the listed steps."""
    g = grads[t][k].reshape(-1)[a:b].clone()
    z = spec.get("zero")
    if z and t in z["steps"] and z.get("rank", r) == r and z.get("param", k) == k:
        g[z.get("lo", 0):z.get("hi")] = 0
    return g


def place(values, layout):
    """Give 1-D tensors a memory layout: fresh (own storage, offset 0), flat_views (views at non-zero offsets of ONE flat
    buffer, as FSDP's use_orig_params views of the flat parameter are), strided (non-contiguous 1-D views)."""
    import torch
    if layout == "flat_views":
        total = sum(v.numel() for v in values)
        buf = torch.zeros(total + 5, dtype=values[0].dtype if values else torch.float32)
        out, off = [], 3
        for v in values:
            w = buf[off:off + v.numel()]
            w.copy_(v)
            out.append(w)
            off += v.numel()
        return out
    if layout == "strided":
        out = []
        for v in values:
            big = torch.zeros(2 * v.numel() + 1, dtype=v.dtype)
            w = big[1::2][:v.numel()]
            w.copy_(v)
            out.append(w)
        return out
    return list(values)


def bits_of(t):
    import torch
    t = t.detach().contiguous().reshape(-1)
    w = t.element_size()
    mask = (1 << (8 * w)) - 1
    return [int(x) & mask for x in t.view({2: torch.int16, 4: torch.int32, 8: torch.int64}[w]).tolist()]


def _distributor(opt, gi=0):
    from distributed_shampoo.shampoo_types import DISTRIBUTOR
    return opt._per_group_state_lists[gi][DISTRIBUTOR]


def groups_of(spec):
    return [list(g) for g in spec["groups"]] if spec.get("groups") else [list(range(len(spec["shapes"])))]


def make_shard_params(spec, init, ranges, strategy):
    """The rank's parameters: 1-D shard tensors (size 0 when the local shard is empty) + param_to_metadata."""
    import torch
    from distributed_shampoo.shampoo_types import FSDPParameterMetadata
    params, meta = [], {}
    layout = spec.get("layout", "fresh")
    data = place([init[k].reshape(-1)[a:b].clone() for k, (a, b) in enumerate(ranges)], "flat_views" if layout == "flat_views" else "fresh")
    for k, (sh, (a, b)) in enumerate(zip(spec["shapes"], ranges)):
        p = torch.nn.Parameter(data[k])
        params.append(p)
        meta[p] = FSDPParameterMetadata(fqn=f"p{k}", shape=torch.Size(sh), numel=math.prod(sh), start_idx=a, end_idx=b, sharding_strategy=strategy)
    return params, meta


def _view_of(t, base_offset):
    return (int(t.storage_offset() - base_offset), [int(x) for x in t.shape], [int(x) for x in t.stride()])


def observe_layout(d, params):
    """Bookkeeping of an FSDP/HSDP distributor + the gradient blocks it cuts when every gradient is present."""
    import torch

    def owner(t, tensors):
        for k, p in enumerate(tensors):
            if p is not None and p.numel() > 0 and p.untyped_storage().data_ptr() == t.untyped_storage().data_ptr() \
                    and p.storage_offset() <= t.storage_offset() < p.storage_offset() + p.numel():
                return k
        raise KeyError("block is not a view of any parameter of the group")

    blocks = []
    for b in d._global_blocked_params:
        k = owner(b, params)
        blocks.append((k, *_view_of(b, params[k].storage_offset())))
    saved = [p.grad for p in params]
    gptr = {}
    for k, p in enumerate(params):
        p.grad = torch.zeros_like(p)
        if p.numel() > 0:
            gptr[p.grad.untyped_storage().data_ptr()] = k
    gb = d._merge_and_block_gradients()      # the inner function: only _global_grad_selector is (re)set, to all True
    grad = [[] for _ in params]
    for t in gb:
        k = gptr[t.untyped_storage().data_ptr()]
        grad[k].append(_view_of(t, params[k].grad.storage_offset()))
    for p, s in zip(params, saved):
        p.grad = s
    return {"splits": [int(x) for x in d._global_num_splits_per_param], "nbs": [int(x) for x in d._global_num_blocks_per_split_param],
            "merged": [[int(x) for x in m] for m in d._global_merged_dims_list], "nbp": [int(x) for x in d._global_num_blocks_per_param],
            "blocks": blocks, "grad": grad, "sel": [bool(x) for x in d._distributor_selector]}


def rounded_update_params_factory(cdtype_name, cp, recorded=None):
    """update_params of a NON-communicating distributor with the rounding the HSDP distributor applies to what it
    communicates (copy into a buffer of the communication dtype, then add / copy back)."""
    import torch
    cd = {"FP32": torch.float32, "DEFAULT": torch.float32, "BF16": torch.bfloat16, "FP16": torch.float16}[cdtype_name]

    @torch.no_grad()
    def update_params(self, masked_blocked_search_directions):
        ps = self._local_masked_blocked_params
        bufs = tuple(torch.zeros(p.shape, dtype=cd) for p in ps)
        if cp:
            torch._foreach_add_(ps, masked_blocked_search_directions)
            torch._foreach_copy_(bufs, ps)
            torch._foreach_copy_(ps, bufs)
        else:
            torch._foreach_copy_(bufs, masked_blocked_search_directions)
            torch._foreach_add_(ps, bufs)
    return update_params


def needs_rounding(spec):
    """The HSDP distributor passes what it communicates through a buffer of the communication dtype: the reference must do
    the same whenever that is not the parameters' own dtype (narrower: a real rounding; wider: exact, emulated anyway)."""
    return spec.get("cdtype", "FP32") in ("BF16", "FP16") or spec.get("pdtype", "float32") != "float32"


# --------------------------------------------------------------------------------------
# runs


def impl_pieces(fn, params, shapes, ranges):
    """The implementation's own split recovery on the rank's shards: [(param, offset in shard, length, shape)]."""
    import torch
    out = []
    for k, (p, sh, (a, b)) in enumerate(zip(params, shapes, ranges)):
        for t in fn(p.detach(), torch.Size(sh), a, b):
            out.append((k, int(t.storage_offset() - p.storage_offset()), int(t.numel()), [int(x) for x in t.shape]))
    return out


def run_serial_on_pieces(spec, init, grads, ranges, rounded=False, r=0):
    """The SERIAL implementation (default Distributor) on the recovered pieces taken as independent parameters.
    Returns per step, per flat parameter, the bits of the concatenated pieces."""
    import torch
    from unittest import mock
    from distributed_shampoo.utils.shampoo_distributor import Distributor
    shapes = spec["shapes"]
    pieces = rank_pieces(shapes, ranges)
    groups = groups_of(spec)
    pgroups = [[i for i, pc in enumerate(pieces) if pc[0] in g] for g in groups]      # piece indices per parameter group
    if not pieces:
        return {"snaps": [], "blocks": [], "blocks_by_group": [[] for _ in groups], "pieces": pieces, "empty": True, "empty_groups": [True] * len(groups)}
    params = []
    for k, o, l, shp in pieces:
        a, b = ranges[k]
        params.append(torch.nn.Parameter(init[k].reshape(-1)[a:b][o:o + l].clone().view(shp)))
    # a parameter group without any recovered piece on this rank is simply absent from the reference ("ignored")
    sspec = dict(spec, groups=[pg for pg in pgroups if pg],
                 group_lr=[lr for lr, pg in zip(spec.get("group_lr") or [None] * len(groups), pgroups) if pg]) if spec.get("groups") else spec
    live = [gi for gi, pg in enumerate(pgroups) if pg]
    ctx = mock.patch.object(Distributor, "update_params", rounded_update_params_factory(spec["cdtype"], spec["cp"])) if rounded else None
    snaps = []
    try:
        if ctx is not None:
            ctx.__enter__()
        opt = make_optimizer(sspec, params, None)
        ptr = {p.untyped_storage().data_ptr(): i for i, p in enumerate(params)}
        blocks = []
        blocks_by_group = [[] for _ in pgroups]
        for li, gi in enumerate(live):
            pg = pgroups[gi]
            d = _distributor(opt, li)
            bg = blocks_by_group[gi]
            for bl in d._global_blocked_params:
                i = ptr[bl.untyped_storage().data_ptr()]
                blocks.append((i, *_view_of(bl, params[i].storage_offset())))
                bg.append((pg.index(i), *_view_of(bl, params[i].storage_offset())))     # piece index inside the group
        for t, pres in enumerate(spec["presence"]):
            for (k, o, l, shp), p in zip(pieces, params):
                a, b = ranges[k]
                # same values AND same element strides as the piece's gradient has inside the shard's gradient (a strided
                # operand selects other BLAS kernels: last-bit differences that are not the distributor's doing)
                p.grad = place([grad_values(spec, grads, t, k, a, b, r)[o:o + l].clone()], "strided" if spec.get("layout") == "strided" else "fresh")[0].view(shp) if pres[k] else None
            opt.step()
            snap = []
            for k in range(len(shapes)):
                row = []
                for (kk, o, l, shp), p in zip(pieces, params):
                    if kk == k:
                        row += bits_of(p)
                snap.append(row)
            snaps.append(snap)
    finally:
        if ctx is not None:
            ctx.__exit__(None, None, None)
    return {"snaps": snaps, "blocks": blocks, "blocks_by_group": blocks_by_group, "pieces": pieces, "empty": False, "empty_groups": [not pg for pg in pgroups]}


def run_fsdp_cluster(spec, cuts_ranges, rounded=False, timeout=5.0):
    """One simulated rank per shard: the real DistributedShampoo with FSDPShampooConfig on hand-made flat shards."""
    import torch
    from unittest import mock
    from harness import sim
    from distributed_shampoo.shampoo_types import FSDPShampooConfig
    from distributed_shampoo.utils.shampoo_fsdp_distributor import FSDPDistributor
    from torch.distributed.fsdp import ShardingStrategy
    init, grads = make_full_tensors(spec)
    W = len(cuts_ranges)

    def rank_fn(ctx):
        r = ctx.rank
        ranges = cuts_ranges[r]
        params, meta = make_shard_params(spec, init, ranges, ShardingStrategy.FULL_SHARD)
        out = {"ctor": "ok", "snaps": [], "layout": None, "layouts": None, "rank_seen": None,
               "pieces": impl_pieces(FSDPDistributor._split_tensor_block_recovery, params, spec["shapes"], ranges)}
        try:
            opt = make_optimizer(spec, params, FSDPShampooConfig(param_to_metadata=meta))
        except AssertionError:
            out["ctor"] = "AssertionError"
            return out
        groups = groups_of(spec)
        out["layouts"], allblocks, seen = [], [], True
        for gi, g in enumerate(groups):
            d = _distributor(opt, gi)
            lay = observe_layout(d, [params[k] for k in g])
            out["layouts"].append(lay)
            allblocks += [(g[b[0]], *b[1:]) for b in lay["blocks"]]
            seen = seen and all(bi.composable_block_ids[1].startswith(f"rank_{r}-") for bi in d._local_block_info_list)
        out["layout"] = {"blocks": allblocks}       # all groups, global parameter indices (for the each-element-once check)
        out["rank_seen"] = seen
        glayout = spec.get("layout", "fresh")
        for t, pres in enumerate(spec["presence"]):
            vals = place([grad_values(spec, grads, t, k, *ranges[k], r) for k in range(len(params))], glayout)
            for k, p in enumerate(params):
                p.grad = vals[k] if pres[k] else None
            opt.step()
            out["snaps"].append([bits_of(p) for p in params])
        return out

    patch = mock.patch.object(FSDPDistributor, "update_params", rounded_update_params_factory(spec["cdtype"], spec["cp"])) if rounded else None
    if patch is not None:
        patch.__enter__()
    try:
        res = sim.run_cluster(W, rank_fn, timeout=timeout, seed=spec["seed"], modules=[FSDP_MOD])
    finally:
        if patch is not None:
            patch.__exit__(None, None, None)
    errors = [f"rank {r}: {type(e).__name__}: {e}" for r, e in enumerate(res.errors) if e is not None]
    return {"ranks": res.results, "errors": errors, "tracebacks": [t for t in res.tracebacks if t], "init": init, "grads": grads}


def run_hsdp_cluster(spec, cuts_ranges, timeout=5.0):
    """R x S simulated mesh (rank = i*S + j): the real DistributedShampoo with HSDPShampooConfig; column j holds shard j."""
    import torch
    from harness import sim
    from distributed_shampoo.shampoo_types import CommunicationDType, HSDPShampooConfig, STEP
    from distributed_shampoo.utils.shampoo_hsdp_distributor import HSDPDistributor
    from torch.distributed.fsdp import ShardingStrategy
    init, grads = make_full_tensors(spec)
    R, S, gs = spec["R"], spec["S"], spec["gs"]
    world = R * S
    tables = [[] for _ in range(world)]

    def rank_fn(ctx):
        i, j = divmod(ctx.rank, S)
        ranges = cuts_ranges[j]
        params, meta = make_shard_params(spec, init, ranges, ShardingStrategy.HYBRID_SHARD)
        out = {"ctor": "ok", "snaps": [], "bsnaps": [], "layout": None,
               "pieces": impl_pieces(HSDPDistributor._split_tensor_block_recovery, params, spec["shapes"], ranges)}
        ctx.partial = out
        mesh = ctx.cluster.make_mesh("cpu", torch.arange(world).view(R, S), ("replicate", "shard"))
        dcfg = HSDPShampooConfig(param_to_metadata=meta, device_mesh=mesh, communication_dtype=getattr(CommunicationDType, spec["cdtype"]),
                                 num_trainers_per_group=(-1 if spec.get("gs_default") else gs), communicate_params=spec["cp"])
        opt = make_optimizer(spec, params, dcfg)
        d = _distributor(opt)
        out["layout"] = observe_layout(d, params)
        out["nbytes"] = int(d._local_dist_buffer.numel() * d._local_dist_buffer.element_size())
        out["init_blocks"] = [bits_of(b) for b in d._global_blocked_params]
        out["block_id_rank_ok"] = all(bi.composable_block_ids[1].startswith(f"rank_{j}-") for bi in d._local_block_info_list)
        real = d.update_params
        state_lists = opt._per_group_state_lists[0]

        def update_params(masked_blocked_search_directions):
            k = int(state_lists[STEP].item())
            idx = [b for b, (o, s) in enumerate(zip(d._distributor_selector, d._global_grad_selector)) if o and s]
            assert len(idx) == len(masked_blocked_search_directions), (idx, len(masked_blocked_search_directions))
            for b, u in zip(idx, masked_blocked_search_directions):
                tables[ctx.rank].append((b, k, bits_of(u)))
            return real(masked_blocked_search_directions=masked_blocked_search_directions)

        d.update_params = update_params
        glayout = spec.get("layout", "fresh")
        for t, pres in enumerate(spec["presence"]):
            if spec.get("jitter"):      # ranks reach the collectives in different orders
                time.sleep(float(torch.rand(1, generator=ctx.generator)) * 0.004)
            vals = place([grad_values(spec, grads, t, k, *ranges[k], j) for k in range(len(params))], glayout)
            for k, p in enumerate(params):
                p.grad = vals[k] if pres[k] else None
            opt.step()
            out["snaps"].append([bits_of(p) for p in params])
            out["bsnaps"].append([bits_of(b) for b in d._global_blocked_params])
        return out

    res = sim.run_cluster(world, rank_fn, timeout=timeout, seed=spec["seed"])
    ranks = []
    for r in range(world):
        rec = res.results[r] if res.results[r] is not None else res.partial[r]
        ranks.append(rec)
    errors = [f"rank {r}: {type(e).__name__}: {e}" for r, e in enumerate(res.errors) if e is not None and not isinstance(e, sim.SimHang)]
    hung = [r in res.hung_ranks() for r in range(world)]
    return {"ranks": ranks, "errors": errors, "tracebacks": [t for t in res.tracebacks if t], "hung": hung, "hangs": res.hangs,
            "logs": res.logs, "tables": tables, "init": init, "grads": grads, "outcome": res.outcome}


# --------------------------------------------------------------------------------------
# signatures computed from the INPUT


def block_numels(piece_shapes, maxdim, merge):
    import torch
    from distributed_shampoo.utils.shampoo_utils import merge_small_dims, multi_dim_split
    numels, nblocks = [], []
    for sh in piece_shapes:
        merged = tuple(merge_small_dims(torch.Size(sh), maxdim)) if merge else tuple(sh)
        bl = multi_dim_split(torch.empty(tuple(sh)).view(merged), maxdim)
        numels += [b.numel() for b in bl]
        nblocks.append(len(bl))
    return numels, nblocks


def column_structure(spec, ranges):
    """Blocks of one shard column: numel of every block, blocks per flat parameter, expected owners (documented greedy)."""
    from harness.c06 import greedy_owners, itemsize_of
    pieces = rank_pieces(spec["shapes"], ranges)
    numels, per_piece = block_numels([shp for _, _, _, shp in pieces], spec["maxdim"], spec.get("merge", True))
    nbp = [0] * len(spec["shapes"])
    for (k, _, _, _), n in zip(pieces, per_piece):
        nbp[k] += n
    owners = greedy_owners(numels, itemsize_of(spec["cdtype"]), spec["gs"]) if numels else []
    return {"numels": numels, "nbp": nbp, "owners": owners}


def hsdp_input_signature(spec, cuts_ranges):
    from harness.c06 import block_presence, starving_steps
    cols = []
    for ranges in cuts_ranges:
        cs = column_structure(spec, ranges)
        bp = block_presence(spec["presence"], cs["nbp"])
        cs["starving_steps"] = starving_steps(bp, cs["owners"], spec["gs"])
        cols.append(cs)
    return {"cols": cols, "starves": any(c["starving_steps"] for c in cols)}     # input side of the (repaired) defect F6


# --------------------------------------------------------------------------------------
# Coq text


def cl(items):
    return "[" + "; ".join(items) + "]"


def cz(xs):
    return cl(str(int(x)) for x in xs)


def cn(xs):
    return cl(f"{int(x)}%nat" for x in xs)


def cview(v):
    off, sizes, strides = v
    return f"mkv {off} {cz(sizes)} {cz(strides)}"


def cbview(b):
    return f"({b[0]}%nat, {cview(b[1:])})"


def cmetas(shapes, ranges):
    return cl(f"mkMeta {cz(sh)} {math.prod(sh)} {a} {b}" for sh, (a, b) in zip(shapes, ranges))


def cpieces(pieces):
    return cl(f"({k}%nat, mk {o} {l} {cz(shp)})" for k, o, l, shp in pieces)


def csnap(snap):
    return cl(cz(b) for b in snap)


def clayout(thr, merge, shapes, ranges, lay):
    """agree_layout ... on an observed layout."""
    return (f"agree_layout {thr} {coq_bool(merge)} {cmetas(shapes, ranges)} {cl(coq_bool(x) for x in lay['sel'])} {cn(lay['splits'])} {cn(lay['nbs'])} "
            f"{cl(cz(m) for m in lay['merged'])} {cn(lay['nbp'])} {cl(cbview(b) for b in lay['blocks'])} {cl(cl(cview(v) for v in g) for g in lay['grad'])}")


HEADER = """From Coq Require Import ZArith List Bool String.
From Shampoo Require Import Show SplitRecovery SplitChecker SplitCheckerStrict Blocking BlockingChecker Dist DistChecker DistExec Fsdp FsdpChecker FsdpExec.
Import ListNotations. Open Scope Z_scope.
Definition ball (l : list bool) : bool := forallb (fun b => b) l.
"""


# --------------------------------------------------------------------------------------
# stage L: layouts of both distributors (constructor + gradient path only)


def shapes_upto(max_numel, max_order):
    out = []

    def rec(prefix, prod):
        for d in range(1, max_numel // prod + 1):
            sh = prefix + (d,)
            out.append(sh)
            if len(sh) < max_order:
                rec(sh, prod * d)

    rec((), 1)
    return out


def layout_work(cases):
    """cases: list of {"shapes", "ranges" (one rank), "maxdim", "merge"}; both distributors on a 1-rank simulated cluster."""
    import torch
    from harness import sim
    from distributed_shampoo.shampoo_types import (FSDPShampooConfig, HSDPShampooConfig, MAX_PRECONDITIONER_DIM, PARAMS, USE_MERGE_DIMS)
    from distributed_shampoo.utils.shampoo_fsdp_distributor import FSDPDistributor
    from distributed_shampoo.utils.shampoo_hsdp_distributor import HSDPDistributor
    from torch.distributed.fsdp import ShardingStrategy
    torch.set_num_threads(1)
    sim.silence_library_logging()

    def rank_fn(ctx):
        mesh = ctx.cluster.make_mesh("cpu", torch.arange(1).view(1, 1), ("replicate", "shard"))
        res = []
        for c in cases:
            init = [torch.arange(math.prod(sh), dtype=torch.float32).view(tuple(sh)) for sh in c["shapes"]]
            one = {}
            for name in ("fsdp", "hsdp"):
                params, meta = make_shard_params(c, init, c["ranges"], ShardingStrategy.FULL_SHARD)
                group = {PARAMS: params, MAX_PRECONDITIONER_DIM: c["maxdim"], USE_MERGE_DIMS: c["merge"]}
                try:
                    if name == "fsdp":
                        d = FSDPDistributor(group, FSDPShampooConfig(param_to_metadata=meta))
                    else:
                        if not rank_pieces(c["shapes"], c["ranges"]):
                            one[name] = None      # HSDP's buffer construction needs at least one block (the optimizer asserts it)
                            continue
                        d = HSDPDistributor(group, HSDPShampooConfig(param_to_metadata=meta, device_mesh=mesh))
                    one[name] = observe_layout(d, params)
                    one[name]["pieces"] = impl_pieces(type(d)._split_tensor_block_recovery, params, c["shapes"], c["ranges"])
                except Exception as e:  # noqa
                    one[name] = "EXC:" + type(e).__name__ + ":" + str(e)[:120]
            res.append(one)
        return res

    r = sim.run_cluster(1, rank_fn, timeout=5.0)
    if r.results[0] is None:
        return [{"fsdp": "EXC:cluster:" + str(r.errors[0])[:200], "hsdp": None} for _ in cases]
    return r.results[0]


def gen_layout_cases(ck: Check):
    thorough = ck.tier == "thorough"
    rng = ck.rng
    cases = []
    maxn = 16 if thorough else 10
    # exhaustive: one parameter, every shape (order <= 3, numel <= maxn) x every (start, end); thresholds rotate
    thr_cycle = [1, 2, 3, 1024, 2, 4]
    n = 0
    for sh in shapes_upto(maxn, 3) + [(2, 2, 2, 2), (1, 3, 1, 2), (2, 1, 2, 2)]:
        N = math.prod(sh)
        for s in range(N + 1):
            for e in range(s, N + 1):
                thrs = thr_cycle if thorough else [thr_cycle[n % len(thr_cycle)], thr_cycle[(n + 3) % len(thr_cycle)]]
                for thr in sorted(set(thrs)):
                    cases.append({"shapes": [list(sh)], "ranges": [(s, e)], "maxdim": thr, "merge": bool((n + thr) % 3 != 0), "family": "exhaustive-1"})
                n += 1
    # several parameters on one rank: cut of a concatenated flat parameter (incl. parameters with an empty shard in between)
    pool = [(3, 4), (5,), (2, 3), (2, 2, 3), (4, 2), (1,), (7,), (3, 1, 2), (2, 5), (6,)]
    for _ in range(1500 if thorough else 250):
        k = rng.randint(2, 4)
        shapes = [rng.choice(pool) for _ in range(k)]
        total = sum(math.prod(s) for s in shapes)
        a = rng.randint(0, total)
        b = rng.randint(a, total)
        ranges = [shard_range(shapes, [a, b], 0, i) for i in range(k)]
        if rng.random() < 0.15:      # an empty shard whose start = end is not 0 (never produced by compile_fsdp_parameter_metadata, accepted by the distributor)
            i = rng.randrange(k)
            if ranges[i] == (0, 0):
                x = rng.randint(0, math.prod(shapes[i]))
                ranges[i] = (x, x)
        cases.append({"shapes": [list(s) for s in shapes], "ranges": ranges, "maxdim": rng.choice((1, 2, 3, 4, 1024)), "merge": rng.random() < 0.6, "family": "multi"})
    return cases


def layout_checker_term(c, lay):
    """The property predicate on an observed layout, composed of certified checkers: the implementation's own recovered pieces
    are an ordered partition of the shard into genuine slabs with the minimal count (C15_checkb_strict: the maximal
    shape-respecting sub-tensors), the blocks it made of every piece are a legal merge+split of that piece (C05_checkb, views
    moved back by the piece's offset; grouped by the implementation's own num_blocks_per_split_param), every shard element
    is addressed exactly once and the gradient blocks are the parameter's block views (C07_layout_checkb)."""
    blocks = [[] for _ in c["shapes"]]
    for b in lay["blocks"]:
        blocks[b[0]].append(b[1:])
    terms = [f"C07_layout_checkb {cz(e - s for s, e in c['ranges'])} {cl(cl(cview(v) for v in bl) for bl in blocks)} {cl(cl(cview(v) for v in g) for g in lay['grad'])}"]
    for k, (sh, (a, b)) in enumerate(zip(c["shapes"], c["ranges"])):
        pk = [p for p in lay["pieces"] if p[0] == k]
        terms.append(f"C15_checkb_strict {cz(sh)} {a} {b} {cl(f'mk {o} {l} {cz(shp)}' for _, o, l, shp in pk)}")
    ok_counts = len(lay["nbs"]) == len(lay["pieces"]) and sum(lay["nbs"]) == len(lay["blocks"])
    terms.append(coq_bool(ok_counts))
    if ok_counts:
        pos = 0
        for (k, o, l, shp), nb in zip(lay["pieces"], lay["nbs"]):
            bl = lay["blocks"][pos:pos + nb]
            pos += nb
            terms.append(coq_bool(all(b[0] == k for b in bl)))
            terms.append(f"C05_checkb {cz(shp)} {c['maxdim']} {coq_bool(c['merge'])} {cl(cview((b[1] - o, b[2], b[3])) for b in bl)}")
    return "ball " + cl(terms)


def layout_case_coq(c, obs):
    """Coq terms (bools) of one layout case + what they are."""
    terms, tags = [], []
    for name in ("fsdp", "hsdp"):
        lay = obs[name]
        if lay is None:
            continue
        if isinstance(lay, str):
            terms.append("false")
        else:
            terms.append(clayout(c["maxdim"], c["merge"], c["shapes"], c["ranges"], lay))
        tags.append(name)
    return terms, tags


# --------------------------------------------------------------------------------------
# stage M: torch's shard infos + compile_fsdp_parameter_metadata on stub flat-param handles


class _Stub:
    def __init__(self, **kw):
        self.__dict__.update(kw)


def metadata_work(cases):
    """cases: {"shapes", "pad": alignment padding after each parameter, "world"[, "extra": {"shapes", "pad"} - a second, nested
    FSDP module with its own flat parameter]}.  For every rank: shard infos from torch's own FlatParamHandle._get_shard_metadata
    (called on a stub with the attributes it reads), then compile_fsdp_parameter_metadata on stub FSDP modules (objects with
    exactly the attributes it reads).  Returns per case a list (one entry per flat parameter) of {"ps", "ranks"}."""
    import torch
    from unittest import mock
    from torch.distributed.fsdp._flat_param import FlatParamHandle
    from torch.distributed.fsdp import ShardingStrategy
    import distributed_shampoo.utils.shampoo_fsdp_utils as fu

    def flat_geometry(shapes, pads, W):
        numels_with_padding, mask, ps, off = [], [], [], 0
        for sh, pd in zip(shapes, pads):
            numels_with_padding.append(math.prod(sh))
            mask.append(False)
            ps.append(off)
            off += math.prod(sh) + pd
            if pd:
                numels_with_padding.append(pd)
                mask.append(True)
        handle = _Stub(flat_param=_Stub(_numels_with_padding=tuple(numels_with_padding), _is_padding_mask=mask))
        handle._get_flat_param_offsets = lambda h=handle: FlatParamHandle._get_flat_param_offsets(h)
        return handle, ps, -(-sum(numels_with_padding) // W)

    out = []
    for c in cases:
        W = c["world"]
        flats = [{"shapes": c["shapes"], "pad": c["pad"]}] + ([c["extra"]] if c.get("extra") else [])
        strategies = [ShardingStrategy.FULL_SHARD, ShardingStrategy.HYBRID_SHARD]
        geo = [flat_geometry(f["shapes"], f["pad"], W) for f in flats]
        per_flat = [{"ps": g[1], "ranks": []} for g in geo]
        for r in range(W):
            mods = [_Stub(_flat_param=None, sharding_strategy=ShardingStrategy.NO_SHARD)]
            recs = []
            for fi, (f, (handle, ps, chunk)) in enumerate(zip(flats, geo)):
                us, ue = r * chunk, (r + 1) * chunk - 1
                try:
                    infos = FlatParamHandle._get_shard_metadata(handle, us, ue)
                except Exception as e:  # noqa
                    recs.append({"error": type(e).__name__ + ": " + str(e)[:100]})
                    continue
                params = [torch.nn.Parameter(torch.zeros(0)) for _ in f["shapes"]]
                flat = _Stub(_fqns=[f"m{fi}.p{k}" for k in range(len(params))], _shapes=[torch.Size(s) for s in f["shapes"]],
                             _numels=[math.prod(s) for s in f["shapes"]], _shard_param_infos=infos, _params=params)
                mods.append(_Stub(_flat_param=flat, sharding_strategy=strategies[fi]))
                recs.append({"us": us, "ue": ue, "infos": [tuple(i) for i in infos], "params": params})
            with mock.patch.object(fu.FSDP, "fsdp_modules", staticmethod(lambda module, root_only=False: mods)):
                md = fu.compile_fsdp_parameter_metadata(_Stub())
            nkeys = sum(len(rc["params"]) for rc in recs if "params" in rc)
            for fi, rc in enumerate(recs):
                if "error" not in rc:
                    metas = []
                    for k, p in enumerate(rc.pop("params")):
                        m = md[p]
                        metas.append({"shape": [int(x) for x in m.shape], "numel": int(m.numel), "start": int(m.start_idx), "end": int(m.end_idx),
                                      "fqn_ok": m.fqn == f"m{fi}.p{k}", "strategy_ok": m.sharding_strategy == strategies[fi]})
                    rc["metas"] = metas
                    rc["n_keys_ok"] = len(md) == nkeys
                per_flat[fi]["ranks"].append(rc)
        out.append(per_flat)
    return out


def metadata_params_none_rejected():
    """use_orig_params=False leaves flat_param._params None: compile_fsdp_parameter_metadata must refuse (AssertionError)."""
    from unittest import mock
    from torch.distributed.fsdp import ShardingStrategy
    import distributed_shampoo.utils.shampoo_fsdp_utils as fu
    flat = _Stub(_fqns=["p"], _shapes=[(2,)], _numels=[2], _shard_param_infos=((True, 0, 2, 0, 1),), _params=None)
    mods = [_Stub(_flat_param=flat, sharding_strategy=ShardingStrategy.FULL_SHARD)]
    with mock.patch.object(fu.FSDP, "fsdp_modules", staticmethod(lambda module, root_only=False: mods)):
        try:
            fu.compile_fsdp_parameter_metadata(_Stub())
        except AssertionError:
            return "AssertionError"
        except Exception as e:  # noqa
            return type(e).__name__
    return "accepted"


def copt(x):
    return "None" if x is None else f"(Some {int(x)})" if int(x) >= 0 else f"(Some ({int(x)}))"


def metadata_case_coq(c, obs_flats):
    terms = []
    flats = [{"shapes": c["shapes"], "pad": c["pad"]}] + ([c["extra"]] if c.get("extra") else [])
    for f, obs in zip(flats, obs_flats):
        for rk in obs["ranks"]:
            if "error" in rk:
                terms.append("false")
                continue
            ok_py = rk["n_keys_ok"] and all(m["fqn_ok"] and m["strategy_ok"] for m in rk["metas"])
            for k, sh in enumerate(f["shapes"]):
                i = rk["infos"][k]
                m = rk["metas"][k]
                terms.append(f"andb {coq_bool(ok_py)} (agree_metadata {cz(sh)} {math.prod(sh)} {obs['ps'][k]} {rk['us']} {rk['ue']} "
                             f"({coq_bool(i[0])}, {copt(i[1])}, {copt(i[2])}, {copt(i[3])}, {copt(i[4])}) (mkMeta {cz(m['shape'])} {m['numel']} {m['start']} {m['end']}))")
    # the metadata of all ranks partitions every parameter (checked on the IMPLEMENTATION's output); these terms come last
    for f, obs in zip(flats, obs_flats):
        for k, sh in enumerate(f["shapes"]):
            rs = [(rk["metas"][k]["start"], rk["metas"][k]["end"]) for rk in obs["ranks"] if "error" not in rk]
            terms.append(f"partitionb {math.prod(sh)} {cl(f'({a}, {b})' for a, b in rs)}")
    return terms


META_HEADER = HEADER + """
Fixpoint partition_from (o : Z) (rs : list (Z * Z)) : option Z :=
  match rs with
  | [] => Some o
  | (a, b) :: r => if a <? b then (if a =? o then partition_from b r else None) else if a =? b then partition_from o r else None
  end.
Definition partitionb (n : Z) (rs : list (Z * Z)) : bool := match partition_from 0 rs with Some e => e =? n | None => false end.
"""


def gen_metadata_cases(ck: Check):
    thorough = ck.tier == "thorough"
    rng = ck.rng
    pool = [(3, 4), (5,), (2, 3), (2, 2, 3), (4, 2), (1,), (7,), (3, 1, 2), (1, 1), (6,)]
    cases = []
    # exhaustive small: every pair of pool shapes, world 1..8 (quick: 1..4), with/without alignment padding
    worlds = range(1, 9) if thorough else range(1, 5)
    for a, b in itertools.product(pool[:6] if not thorough else pool, repeat=2):
        for W in worlds:
            cases.append({"shapes": [list(a), list(b)], "pad": [0, 0], "world": W})
    for _ in range(600 if thorough else 120):
        k = rng.randint(1, 4)
        shapes = [list(rng.choice(pool)) for _ in range(k)]
        cases.append({"shapes": shapes, "pad": [rng.choice((0, 0, 1, 3)) for _ in range(k)], "world": rng.randint(1, 8)})
    for _ in range(200 if thorough else 40):      # nested FSDP modules: a second flat parameter, sharded on its own
        k1, k2 = rng.randint(1, 3), rng.randint(1, 3)
        cases.append({"shapes": [list(rng.choice(pool)) for _ in range(k1)], "pad": [rng.choice((0, 0, 2)) for _ in range(k1)], "world": rng.randint(1, 8),
                      "extra": {"shapes": [list(rng.choice(pool)) for _ in range(k2)], "pad": [rng.choice((0, 0, 1)) for _ in range(k2)]}})
    return cases


# --------------------------------------------------------------------------------------
# stage R: FSDP optimizer runs


def rank_obs_coq(ranges, lay, snaps, ref_snaps, nparams):
    blocks = [[] for _ in range(nparams)]
    if lay is not None:
        for b in lay["blocks"]:
            blocks[b[0]].append(b[1:])
    return (f"mkRO {cl(f'({a}, {b})' for a, b in ranges)} {cl(cl(cview(v) for v in bl) for bl in blocks)} "
            f"{cl(csnap(s) for s in snaps)} {cl(csnap(s) for s in ref_snaps)}")


def fsdp_static_terms(spec, ranges, rk, ref):
    """(pieces, layout, piece-blocks, ctor) agreement terms of one rank."""
    thr, merge, shapes = spec["maxdim"], spec.get("merge", True), spec["shapes"]
    ms = cmetas(shapes, ranges)
    t_pieces = [f"agree_pieces {ms} {cpieces(ref['pieces'])}", f"agree_pieces {ms} {cpieces(rk['pieces'])}"]
    t_layout, t_pb, t_ctor = [], [], []
    for gi, g in enumerate(groups_of(spec)):        # one distributor per parameter group
        gshapes, granges = [shapes[k] for k in g], [ranges[k] for k in g]
        gms = cmetas(gshapes, granges)
        if rk["layouts"] is not None:
            t_layout.append(clayout(thr, merge, gshapes, granges, rk["layouts"][gi]))
        if not ref["empty"] and not ref["empty_groups"][gi]:
            t_pb.append(f"agree_piece_blocks {thr} {coq_bool(merge)} {gms} {cl(cbview(b) for b in ref['blocks_by_group'][gi])}")
        t_ctor.append(f"fsdp_ctor_ok (fsdp_init {thr} {coq_bool(merge)} {gms})")
    return t_pieces, t_layout, t_pb, ms, t_ctor


def fsdp_work(args):
    i, spec = args
    import torch
    torch.set_num_threads(1)
    from harness import sim
    sim.silence_library_logging()
    out = {"i": i, "spec": spec, "stage": "R"}
    t0 = time.time()
    try:
        W = len(spec["cuts"]) - 1
        cr = [rank_ranges(spec, r) for r in range(W)]
        obs = run_fsdp_cluster(spec, cr)
        if obs["errors"]:
            out["rank_errors"] = obs["errors"][:2] + obs["tracebacks"][:1]
            return out
        rounded = needs_rounding(spec) and spec.get("emulate_comm", False)
        refs = [run_serial_on_pieces(spec, obs["init"], obs["grads"], cr[r], rounded=rounded, r=r) for r in range(W)]
        thr, merge, shapes = spec["maxdim"], spec.get("merge", True), spec["shapes"]
        pieces_t, layout_t, pb_t, ctor_t, ranks_t = [], [], [], [], []
        if spec.get("twice"):       # a second run in the same process (module-level / cached state must not leak)
            obs2 = run_fsdp_cluster(spec, cr)
            ctor_t.append(coq_bool(not obs2["errors"] and all((a or {}).get("snaps") == (b or {}).get("snaps") and (a or {}).get("ctor") == (b or {}).get("ctor")
                                                                for a, b in zip(obs["ranks"], obs2["ranks"]))))
        for r in range(W):
            rk = obs["ranks"][r]
            a, b, c, ms, ct = fsdp_static_terms(spec, cr[r], rk, refs[r])
            pieces_t += a
            layout_t += b + ([coq_bool(bool(rk["rank_seen"]))] if rk["layout"] is not None else [])
            pb_t += c
            ctor_t.append(f"Bool.eqb (ball {cl(ct)}) {coq_bool(rk['ctor'] == 'ok')}")
            ctor_t.append(coq_bool((rk["ctor"] == "ok") == (not any(refs[r]["empty_groups"]))))
            ranks_t.append(rank_obs_coq(cr[r], rk["layout"], rk["snaps"], refs[r]["snaps"], len(shapes)))
        numels = cz(math.prod(s) for s in shapes)
        out["coq"] = (f"Definition ranks_{i} : list rank_obs := {cl(ranks_t)}.\n"
                      f"Definition res_{i} : list bool := [ball {cl(pieces_t)}; ball {cl(layout_t)}; ball {cl(pb_t)}; ball {cl(ctor_t)}; "
                      f"forallb C07_values_ok ranks_{i}; C07_once_ok {numels} ranks_{i}].")
        out["summary"] = {"ctor": [obs["ranks"][r]["ctor"] for r in range(W)], "pieces_per_rank": [len(refs[r]["pieces"]) for r in range(W)],
                          "blocks_per_rank": [len(obs["ranks"][r]["layout"]["blocks"]) if obs["ranks"][r]["layout"] else 0 for r in range(W)],
                          "equal_py": all(obs["ranks"][r]["snaps"] == refs[r]["snaps"] for r in range(W)), "ranges": cr}
    except Exception:  # noqa
        import traceback
        out["crash"] = traceback.format_exc()
    out["wall"] = time.time() - t0
    return out


R_FIELDS = ("pieces", "layout", "piece_blocks", "ctor", "values_ok", "once_ok")


# --------------------------------------------------------------------------------------
# stage H: HSDP optimizer runs on R x S meshes


def hsdp_work(args):
    i, spec = args
    import torch
    torch.set_num_threads(1)
    from harness import sim
    from harness.c06 import block_presence, coq_event, model_log
    sim.silence_library_logging()
    out = {"i": i, "spec": spec, "stage": "H"}
    t0 = time.time()
    try:
        R, S, gs = spec["R"], spec["S"], spec["gs"]
        cr = [rank_ranges(spec, j) for j in range(S)]
        sig = hsdp_input_signature(spec, cr)
        out["sig"] = {"starves": sig["starves"], "starving_steps": [c["starving_steps"] for c in sig["cols"]], "owners": [c["owners"] for c in sig["cols"]]}
        obs = run_hsdp_cluster(spec, cr)
        if obs["errors"]:
            out["rank_errors"] = obs["errors"][:2] + obs["tracebacks"][:1]
            return out
        rounded = needs_rounding(spec)
        fs = run_fsdp_cluster(spec, cr, rounded=rounded)
        if fs["errors"]:
            out["rank_errors"] = ["FSDP-only run of the shard columns: " + e for e in fs["errors"][:2]]
            return out
        refs = [run_serial_on_pieces(spec, obs["init"], obs["grads"], cr[j], rounded=rounded, r=j) for j in range(S)]
        f32 = spec.get("pdtype", "float32") == "float32"      # the executable cluster model computes on binary32 bit patterns
        thr, merge, shapes = spec["maxdim"], spec.get("merge", True), spec["shapes"]
        static_t, col_t, defs = [], [], []
        vals_t, gath_t, hang_t, franks_t = [], [], [], []
        for j in range(S):
            col = [obs["ranks"][ii * S + j] for ii in range(R)]
            ms = cmetas(shapes, cr[j])
            static_t.append(f"agree_pieces {ms} {cpieces(refs[j]['pieces'])}")
            sels = []
            for rk in col:
                static_t.append(f"agree_pieces {ms} {cpieces(rk['pieces'])}")
                if rk.get("layout") is not None:
                    static_t.append(clayout(thr, merge, shapes, cr[j], rk["layout"]))
                    static_t.append(coq_bool(bool(rk.get("block_id_rank_ok"))))
                    sels.append(rk["layout"]["sel"])
                else:
                    sels.append(None)
            nb = len(sig["cols"][j]["numels"])
            owners = []
            for b in range(nb):
                ks = [k for k in range(min(gs, R)) if sels[k] is not None and sels[k][b]]
                owners.append(ks[0] if len(ks) == 1 else -1)
            static_t.append(coq_bool(owners == sig["cols"][j]["owners"]))
            table = [e for ii in range(min(gs, R)) for e in obs["tables"][ii * S + j]]
            bp = block_presence(spec["presence"], sig["cols"][j]["nbp"])
            r0 = col[0]
            nbytes = r0.get("nbytes", 0)
            init_blocks = r0.get("init_blocks", [])
            logs = [[e for e in model_log(obs["logs"][ii * S + j])] for ii in range(R)]
            hung = [obs["hung"][ii * S + j] for ii in range(R)]
            defs.append(f"Definition tbl_{i}_{j} : table := {cl(f'({b}%nat, {k}, {cz(u)})' for b, k, u in table)}.")
            defs.append(f"Definition P_{i}_{j} := exec_params {R}%nat {gs}%nat {nb}%nat {cn([max(o, 0) for o in owners])} {nbytes}%nat "
                        f"{coq_bool(spec['cp'])} {FMT[spec['cdtype']]} tbl_{i}_{j} {coq_bool(GLOBAL_SKIP)} true.")
            defs.append(f"Definition logs_{i}_{j} : list (list event) := {cl(cl(coq_event(e) for e in lg) for lg in logs)}.")
            defs.append(f"Definition bobs_{i}_{j} : observed := mkObs {cl(cl(csnap(s) for s in rk['bsnaps']) for rk in col)} logs_{i}_{j} {cl(coq_bool(h) for h in hung)}.")
            defs.append(f"Definition sobs_{i}_{j} : observed := mkObs {cl(cl(csnap(s) for s in rk['snaps']) for rk in col)} logs_{i}_{j} {cl(coq_bool(h) for h in hung)}.")
            defs.append(f"Definition ref_{i}_{j} : list snapshot := {cl(csnap(s) for s in refs[j]['snaps'])}.")
            col_t.append("true" if not f32 else f"C07_col_agree P_{i}_{j} {S}%nat {j}%nat {cl(cl(coq_bool(p) for p in row) for row in bp)} {csnap(init_blocks)} "
                         f"{csnap([[0] * len(b) for b in init_blocks])} {coq_bool(bool(sig['cols'][j]['starving_steps']))} bobs_{i}_{j}")
            vals_t.append(f"C06_values_ok ref_{i}_{j} sobs_{i}_{j}")
            gath_t.append(f"C06_gathers_ok {gs}%nat sobs_{i}_{j}")
            hang_t.append(f"C06_nohang sobs_{i}_{j}")
            frk = fs["ranks"][j]
            franks_t.append(rank_obs_coq(cr[j], frk["layout"], frk["snaps"], refs[j]["snaps"], len(shapes)))
        all_logs = cl(cl(coq_event(e) for e in model_log(lg)) for lg in obs["logs"])
        defs.append(f"Definition alllogs_{i} : list (list event) := {all_logs}.")
        defs.append(f"Definition franks_{i} : list rank_obs := {cl(franks_t)}.")
        numels = cz(math.prod(s) for s in shapes)
        defs.append(f"Definition res_{i} : list bool := [ball {cl(static_t)}; ball {cl(col_t)}; C07_checkb {numels} franks_{i}; ball {cl(vals_t)}; "
                    f"ball {cl(gath_t)}; forallb (fun l => log_eqb (creations l) (creations (nth 0 alllogs_{i} []))) alllogs_{i}; ball {cl(hang_t)}].")
        out["coq"] = "\n".join(defs)
        out["summary"] = {"hung": obs["hung"], "hangs": obs["hangs"][:4], "steps_done": [len(rk["snaps"]) if rk else 0 for rk in obs["ranks"]],
                          "replicas_equal_py": all(obs["ranks"][ii * S + j]["snaps"] == obs["ranks"][j]["snaps"] for ii in range(R) for j in range(S)),
                          "equals_fsdp_only_py": all(obs["ranks"][ii * S + j]["snaps"] == fs["ranks"][j]["snaps"] for ii in range(R) for j in range(S)),
                          "fsdp_equals_serial_py": all(fs["ranks"][j]["snaps"] == refs[j]["snaps"] for j in range(S)),
                          "blocks_per_column": [len(c["numels"]) for c in sig["cols"]], "ranges": cr}
    except Exception:  # noqa
        import traceback
        out["crash"] = traceback.format_exc()
    out["wall"] = time.time() - t0
    return out


H_FIELDS = ("static", "cluster_model", "fsdp_only_checkb", "values_ok", "gathers_ok", "creations_ok", "nohang")


# --------------------------------------------------------------------------------------
# scenario generation

POOL = [(3, 4), (5,), (2, 3), (2, 2, 3), (4, 2), (1,), (7,), (3, 1, 2), (2, 5), (6,), (3, 3)]
PRES_KINDS = ["full", "random", "late", "none_step", "only_some"]


def gen_presence_simple(rng, kind, nparams, T):
    pres = [[True] * nparams for _ in range(T)]
    if kind == "random":
        pres = [[rng.random() < 0.7 for _ in range(nparams)] for _ in range(T)]
    elif kind == "late":
        a, b = rng.randrange(nparams), rng.randrange(nparams)
        for t in range(T):
            pres[t][a] = t >= T // 2
            if b != a:
                pres[t][b] = t < T - 1
    elif kind == "none_step":
        pres[rng.randrange(T)] = [False] * nparams
    elif kind == "only_some":      # steps in which a single parameter has a gradient (on most ranks its shard is empty)
        for t in range(T):
            if rng.random() < 0.6:
                k = rng.randrange(nparams)
                pres[t] = [i == k for i in range(nparams)]
    return pres


def random_cuts(rng, total, W, kind):
    if kind == "chunks":          # FSDP's equal chunks of the padded flat parameter
        c = -(-total // W)
        return [r * c for r in range(W + 1)]
    cuts = sorted(rng.randint(0, total) for _ in range(W - 1))
    if kind == "dups" and W >= 3:  # an empty rank in the middle
        i = rng.randrange(len(cuts) - 1)
        cuts[i + 1] = cuts[i]
        cuts.sort()
    return [0] + cuts + [total]


def gen_fsdp_scenarios(ck: Check):
    rng = ck.rng
    thorough = ck.tier == "thorough"
    opts = list(OPT_CONFIGS)
    specs = []

    def add(shapes, cuts, family, maxdim=None, merge=None, T=None, kind=None):
        n = len(specs)
        T = T or rng.randint(3, 4)
        kind = kind or PRES_KINDS[n % len(PRES_KINDS)]
        specs.append({"shapes": [list(s) for s in shapes], "cuts": list(cuts), "maxdim": maxdim or rng.choice((2, 2, 3, 4, 1024)),
                      "merge": (rng.random() < 0.7) if merge is None else merge, "opt": opts[n % len(opts)],
                      "presence": gen_presence_simple(rng, kind, len(shapes), T), "kind": kind, "family": family,
                      "seed": rng.randrange(1 << 30), "cdtype": "FP32", "cp": False})

    # every boundary of a small shape: 2 ranks (all cuts), 3 ranks (all pairs of cuts)
    two = [(3, 4), (2, 2, 3), (2, 3, 2), (7,), (4, 3)] if thorough else [rng.choice([(3, 4), (2, 2, 3), (4, 3)])]
    for sh in two:
        N = math.prod(sh)
        for c in range(N + 1):
            add([sh], [0, c, N], "all-cuts-2-ranks", T=3)
    three = [(2, 3), (2, 2, 2), (3, 2)] if thorough else [rng.choice([(2, 3), (2, 2, 2)])]
    for sh in three:
        N = math.prod(sh)
        for c1 in range(N + 1):
            for c2 in range(c1, N + 1):
                if thorough or (c1 + c2) % 2 == 0:
                    add([sh], [0, c1, c2, N], "all-cuts-3-ranks", T=3, maxdim=2)
    # several parameters in one flat parameter, 1..8 ranks (quick 1..4)
    worlds = list(range(1, 9)) if thorough else [1, 2, 3, 4]
    per = 40 if thorough else 16
    for W in worlds:
        for v in range(per):
            k = rng.randint(2, 4)
            shapes = [rng.choice(POOL) for _ in range(k)]
            total = sum(math.prod(s) for s in shapes)
            kind = ("chunks", "random", "dups", "random")[v % 4]
            add(shapes, random_cuts(rng, total, W, kind), f"multi-{kind}")
    return specs


def divisors(n):
    return [d for d in range(1, n + 1) if n % d == 0]


def gen_hsdp_scenarios(ck: Check):
    from harness.c06 import gen_presence
    rng = ck.rng
    thorough = ck.tier == "thorough"
    opts = list(OPT_CONFIGS)
    dtypes = ("FP32", "BF16", "FP16", "DEFAULT")
    kinds = ["full", "starve", "random", "late", "starve", "none_step", "random"]
    specs = []
    combos = []
    for R in (1, 2, 3, 4):
        for gs in divisors(R):
            for S in ((1, 2, 3, 4) if thorough else (1, 2, 3)):
                if R * S <= (16 if thorough else 8):
                    combos.append((R, gs, S))
    variants = 8 if thorough else 2
    n = 0
    for (R, gs, S) in combos:
        for cp in (False, True):
            for v in range(variants):
                for _ in range(300):
                    k = rng.randint(2, 4)
                    shapes = [rng.choice(POOL) for _ in range(k)]
                    total = sum(math.prod(s) for s in shapes)
                    cuts = random_cuts(rng, total, S, ("chunks", "random")[rng.randrange(2)])
                    spec = {"shapes": [list(s) for s in shapes], "cuts": cuts, "maxdim": rng.choice((2, 2, 3, 4)), "merge": rng.random() < 0.7,
                            "R": R, "S": S, "gs": gs, "cp": cp, "cdtype": dtypes[len(specs) % len(dtypes)], "gs_default": bool(gs == R and rng.random() < 0.5),
                            "opt": opts[(n + v) % len(opts)], "seed": rng.randrange(1 << 30)}
                    cr = [rank_ranges(spec, j) for j in range(S)]
                    cols = [column_structure(spec, r) for r in cr]
                    if total <= 60 and all(gs <= len(c["numels"]) <= 14 for c in cols):
                        break
                else:
                    continue
                T = rng.randint(3, 5)
                kind = kinds[(n + v) % len(kinds)]
                j0 = rng.randrange(S)       # the starving pattern is engineered for one column
                nblocks = cols[j0]["nbp"]
                spec["presence"] = gen_presence(rng, kind, len(shapes), nblocks, cols[j0]["owners"], gs, T)
                spec["kind"] = kind
                specs.append(spec)
                n += 1
    specs.append(F6_HSDP_MINIMAL)
    return specs


# minimal reproducer of the known finding (F6 through HSDPDistributor): mesh 2 x 1, one communication group of 2 ranks,
# three (4,) parameters (one block each: owners 0, 1, 0), step 1 leaves rank 1 without a gradient for its only block
F6_HSDP_MINIMAL = {"shapes": [[4], [4], [4]], "cuts": [0, 12], "maxdim": 4, "merge": True, "R": 2, "S": 1, "gs": 2, "cp": False, "cdtype": "FP32",
                   "gs_default": True, "opt": "shampoo_adagrad", "presence": [[True, True, True], [True, False, True], [True, True, True]],
                   "kind": "starve", "seed": 7}


# --------------------------------------------------------------------------------------
# quantifier audit: targeted scenarios for every input class the property's quantifier names or plainly allows and that
# the sampled generators above do not (reliably) produce in the quick tier.  spec["audit"] lists the classes of a scenario.


def _cuts_mid(rng, shapes, W):
    total = sum(math.prod(s) for s in shapes)
    return random_cuts(rng, total, W, "random")


def gen_audit_fsdp(ck: Check):
    rng = ck.rng
    specs = []

    def add(classes, shapes, W=None, cuts=None, **kw):
        shapes = [tuple(s) for s in shapes]
        T = kw.pop("T", 4)
        kind = kw.pop("kind", "random")
        pres = kw.pop("presence", None) or gen_presence_simple(rng, kind, len(shapes), T)
        spec = {"shapes": [list(s) for s in shapes], "cuts": list(cuts) if cuts else _cuts_mid(rng, shapes, W or 2), "maxdim": kw.pop("maxdim", rng.choice((2, 3, 4))),
                "merge": kw.pop("merge", rng.random() < 0.7), "opt": kw.pop("opt", rng.choice(list(OPT_CONFIGS))), "presence": pres, "kind": kind,
                "family": "audit", "audit": list(classes), "seed": rng.randrange(1 << 30), "cdtype": "FP32", "cp": False}
        spec.update(kw)
        specs.append(spec)

    # shapes: order 4, trailing / inner singleton dimensions (1x1 kernels, (n,1) weights), larger inner rows
    for shapes, W in (([(2, 2, 1, 2), (3,)], 2), ([(2, 3, 2, 2)], 3), ([(2, 2, 2, 2), (4, 1)], 3), ([(3, 2, 2, 2)], 2)):
        add(["shape_order_4"] + (["shape_singleton_dims"] if any(1 in s for s in shapes) else []), shapes, W)
    for shapes, W in (([(4, 1), (3, 2, 1)], 2), ([(2, 3, 1, 1)], 3), ([(5, 1), (1, 4)], 2), ([(3, 1, 1), (2, 2)], 2)):
        add(["shape_singleton_dims"], shapes, W)
    for shapes, W in (([(6, 8)], 3), ([(2, 6, 8)], 3), ([(3, 4, 5)], 4)):
        add(["shape_large_inner_rows"], shapes, W, maxdim=4, T=3)
    # 5..8 shard ranks
    for W in (5, 6, 7, 8):
        k = rng.randint(3, 4)
        add(["shard_ranks_5_to_8"], [rng.choice(POOL) for _ in range(k)], W, kind=("full", "random", "late", "only_some")[W % 4])
    # parameter / preconditioner dtypes
    for pd, opt in (("float64", "shampoo_adam"), ("float64", "soap"), ("bfloat16", "shampoo_adagrad"), ("bfloat16", "shampoo_adam"), ("float16", "shampoo_adagrad"), ("float16", "shampoo_adam")):
        add([f"param_dtype_{pd}"], [rng.choice(POOL) for _ in range(3)], rng.choice((2, 3)), pdtype=pd, opt=opt)
    for opt in ("shampoo_adam", "soap"):
        add(["preconditioner_dtype_float64"], [rng.choice(POOL) for _ in range(3)], 2, precond_dtype="float64", opt=opt)
    # PRESENT gradients that are exactly zero: on a rank's whole shard, on one parameter, on an element range, everywhere
    for z, cls in (({"steps": [1, 2], "rank": 0}, "zero_grad_on_a_ranks_shard"), ({"steps": [0, 1, 2, 3], "rank": 1}, "zero_grad_on_a_ranks_shard"),
                   ({"steps": [0, 2], "param": 0}, "zero_grad_on_a_parameter"), ({"steps": [1], "param": 1, "lo": 0, "hi": 2}, "zero_grad_on_an_element_range"),
                   ({"steps": [0], }, "zero_grad_everywhere_first_step"), ({"steps": [2]}, "zero_grad_everywhere_later_step")):
        add([cls], [(3, 4), (2, 3), (5,)], 2, cuts=[0, 7, 23], zero=z, kind="full", opt=rng.choice(("shampoo_adagrad", "shampoo_adam", "shampoo_rmsprop")))
    # magnitudes
    for sc in (1e-5, 1e-5, 1e-20, 1e4):
        add(["grad_magnitude_tiny" if sc < 1 else "grad_magnitude_large"], [rng.choice(POOL) for _ in range(3)], 2, grad_scale=sc, kind="full")
    # memory layout: parameters/gradients are views at non-zero offsets of one flat buffer (as FSDP's use_orig_params views); strided gradients
    for _ in range(4):
        add(["params_are_views_of_a_flat_buffer"], [rng.choice(POOL) for _ in range(3)], rng.choice((2, 3)), layout="flat_views")
    for _ in range(3):
        add(["grad_non_contiguous"], [rng.choice(POOL) for _ in range(3)], 2, layout="strided")
    # two equal-shaped parameters whose gradients alternate (same number of gradients every step, different pattern)
    for sh, cuts in (((3, 4), [0, 10, 24]), ((2, 2, 3), [0, 12, 24]), ((5,), [0, 3, 10])):
        add(["twin_parameters_alternating_gradients"], [sh, sh], cuts=cuts, presence=[[t % 2 == 0, t % 2 == 1] for t in range(5)], kind="alternate")
    # parameter groups: twins with identical hyper-parameters, and different learning rates
    add(["twin_parameter_groups"], [(3, 4), (3, 4)], cuts=[0, 10, 24], groups=[[0], [1]], kind="full")
    add(["twin_parameter_groups"], [(3, 4), (5,), (3, 4), (5,)], cuts=[0, 14, 34], groups=[[0, 1], [2, 3]], kind="random")
    add(["twin_parameter_groups"], [(2, 3), (2, 3)], cuts=[0, 4, 12], groups=[[0], [1]], presence=[[t % 2 == 0, t % 2 == 1] for t in range(4)], kind="alternate")
    add(["parameter_groups_different_lr"], [(3, 4), (2, 3), (5,)], cuts=[0, 9, 23], groups=[[0, 2], [1]], group_lr=[0.01, 0.05], kind="random")
    # a second run in the same process
    add(["second_run_same_process"], [(3, 4), (5,)], cuts=[0, 7, 17], twice=True)
    add(["second_run_same_process"], [(2, 2, 3), (2, 3)], cuts=[0, 5, 5, 18], twice=True)
    # block size 1, long histories (several refreshes past start_preconditioning_step)
    add(["max_preconditioner_dim_1"], [(3, 4), (5,)], 2, maxdim=1)
    add(["max_preconditioner_dim_1"], [(2, 2, 3)], 3, maxdim=1, merge=False)
    for opt in ("shampoo_rmsprop", "soap"):
        add(["long_history"], [rng.choice(POOL) for _ in range(3)], 2, T=8, opt=opt, kind="random")
    return specs


def gen_audit_hsdp(ck: Check):
    from harness.c06 import gen_presence
    rng = ck.rng
    specs = []

    def add(classes, shapes, cuts, R, gs, **kw):
        T = kw.pop("T", 4)
        spec = {"shapes": [list(s) for s in shapes], "cuts": list(cuts), "maxdim": kw.pop("maxdim", 2), "merge": kw.pop("merge", True), "R": R, "S": len(cuts) - 1,
                "gs": gs, "cp": kw.pop("cp", False), "cdtype": kw.pop("cdtype", "FP32"), "gs_default": False, "opt": kw.pop("opt", rng.choice(list(OPT_CONFIGS))),
                "seed": rng.randrange(1 << 30), "family": "audit", "audit": list(classes)}
        spec.update(kw)
        cr = [rank_ranges(spec, j) for j in range(spec["S"])]
        cols = [column_structure(spec, r) for r in cr]
        if not all(gs <= len(c["numels"]) for c in cols):
            return
        if "presence" not in spec:
            kind = kw.get("kind", "random")
            spec["presence"] = gen_presence(rng, kind, len(shapes), cols[0]["nbp"], cols[0]["owners"], gs, T)
            spec["kind"] = kind
        spec.setdefault("kind", "given")
        specs.append(spec)

    # blocks whose byte size is not a multiple of 64 and differs between blocks: padded buffers, non-round-robin owners
    add(["hsdp_block_bytes_not_multiple_of_64", "hsdp_unequal_block_sizes"], [(5, 5), (7,), (3, 4), (2, 3)], [0, 50], 2, 2, maxdim=1024)
    add(["hsdp_block_bytes_not_multiple_of_64", "hsdp_unequal_block_sizes"], [(5, 5), (7,), (3, 4), (6,)], [0, 30, 50], 2, 2, maxdim=5, cp=True, cdtype="BF16")
    add(["hsdp_block_bytes_not_multiple_of_64", "hsdp_unequal_block_sizes"], [(6, 7), (5,), (3, 3)], [0, 30, 56], 3, 3, maxdim=4, kind="starve")
    add(["hsdp_block_bytes_not_multiple_of_64", "hsdp_unequal_block_sizes"], [(5, 5), (3,), (6, 3), (7,)], [0, 53], 4, 2, maxdim=1024, merge=False, cdtype="FP16", kind="late")
    # parameter dtype other than the communication dtype
    add(["param_dtype_float64", "hsdp_comm_narrower_than_params"], [(3, 4), (5,), (2, 3)], [0, 10, 23], 2, 2, pdtype="float64", cdtype="FP32", opt="shampoo_adam")
    add(["param_dtype_float64", "hsdp_comm_narrower_than_params"], [(3, 4), (5,), (2, 3)], [0, 23], 2, 2, pdtype="float64", cdtype="BF16", cp=True, opt="shampoo_adagrad")
    add(["param_dtype_bfloat16"], [(3, 4), (5,), (2, 3)], [0, 12, 23], 2, 2, pdtype="bfloat16", cdtype="FP32", opt="shampoo_adagrad")
    add(["param_dtype_bfloat16"], [(3, 4), (5,), (2, 3)], [0, 23], 2, 1, pdtype="bfloat16", cdtype="BF16", cp=True, opt="shampoo_adam")
    add(["param_dtype_float16"], [(3, 4), (5,), (2, 3)], [0, 23], 2, 2, pdtype="float16", cdtype="FP16", opt="shampoo_adagrad")
    # present-but-zero gradients on a shard column / tiny gradients
    add(["zero_grad_on_a_ranks_shard"], [(3, 4), (2, 3), (5,)], [0, 9, 23], 2, 2, zero={"steps": [1, 2], "rank": 0}, kind="full")
    add(["zero_grad_on_a_parameter"], [(3, 4), (2, 3), (5,)], [0, 23], 2, 2, zero={"steps": [0, 2], "param": 1}, kind="full", cp=True)
    add(["grad_magnitude_tiny"], [(3, 4), (2, 3), (5,)], [0, 12, 23], 2, 2, grad_scale=1e-5, cdtype="FP16")
    # memory layout, interleavings, larger replicate groups
    add(["params_are_views_of_a_flat_buffer"], [(3, 4), (2, 3), (5,)], [0, 10, 23], 2, 2, layout="flat_views")
    add(["grad_non_contiguous"], [(3, 4), (2, 3), (5,)], [0, 23], 2, 2, layout="strided", cp=True)
    add(["rank_interleaving_jitter"], [(3, 4), (2, 3), (5,)], [0, 10, 23], 4, 2, jitter=True, kind="starve")
    add(["rank_interleaving_jitter"], [(3, 4), (2, 3), (5,), (4, 2)], [0, 31], 4, 4, jitter=True, kind="random", cp=True)
    add(["rank_interleaving_jitter"], [(3, 4), (2, 3), (5,)], [0, 8, 16, 23], 2, 2, jitter=True, kind="late")
    add(["replicate_size_above_4"], [(3, 4), (2, 3), (5,)], [0, 23], 6, 3, kind="starve")
    add(["replicate_size_above_4"], [(3, 4), (2, 3), (5,)], [0, 23], 5, 5, kind="random", cdtype="BF16")
    # twins alternating inside one communication group; order-4 / singleton-dimension shapes
    add(["twin_parameters_alternating_gradients"], [(3, 4), (3, 4)], [0, 24], 2, 2, presence=[[t % 2 == 0, t % 2 == 1] for t in range(5)])
    add(["twin_parameters_alternating_gradients"], [(2, 3), (2, 3)], [0, 5, 12], 2, 2, presence=[[t % 2 == 0, t % 2 == 1] for t in range(4)], cp=True)
    add(["shape_order_4", "shape_singleton_dims"], [(2, 2, 1, 2), (3, 1)], [0, 5, 11], 2, 2)
    add(["shape_order_4"], [(2, 3, 2, 2)], [0, 9, 24], 2, 2, maxdim=2)
    return specs


def gen_audit_layout(ck: Check):
    rng = ck.rng
    cases = []
    big = [(3, 4, 5), (2, 3, 2, 2), (3, 3, 3), (2, 6, 8), (2, 2, 3, 1), (4, 1, 1), (1, 1, 5), (3, 2, 1, 2), (2, 2, 2, 3)]
    per = 60 if ck.tier == "thorough" else 24
    for sh in big:
        N = math.prod(sh)
        for _ in range(per):
            s = rng.randint(0, N)
            e = rng.randint(s, N)
            cases.append({"shapes": [list(sh)], "ranges": [(s, e)], "maxdim": rng.choice((1, 2, 3, 4, 1024)), "merge": rng.random() < 0.6, "family": "audit-order-3-4"})
    return cases


def quantifier_audit(lcases, mcases, fev, hev, none_outcome):
    """Measured number of generated (and evaluated) cases per input class named or allowed by the property's quantifier."""
    def cnt(rs, pred):
        return sum(1 for r in rs if pred(r["spec"]))

    def has(cls):
        return lambda s: cls in s.get("audit", ())

    def midrow(s):
        offs = param_offsets(s["shapes"])
        for c in s["cuts"][1:-1]:
            for k, sh in enumerate(s["shapes"]):
                row = math.prod(sh[1:]) if len(sh) > 1 else 1
                if offs[k] < c < offs[k + 1] and row > 1 and (c - offs[k]) % row:
                    return True
        return False

    runs = fev + hev
    q = {}
    for o in (1, 2, 3, 4):
        q[f"layout_shape_order_{o}"] = sum(1 for c in lcases if any(len(sh) == o for sh in c["shapes"]))
        q[f"run_shape_order_{o}"] = cnt(runs, lambda s, o=o: any(len(sh) == o for sh in s["shapes"]))
    q["layout_shape_with_singleton_dims"] = sum(1 for c in lcases if any(1 in sh and len(sh) > 1 for sh in c["shapes"]))
    q["layout_shape_trailing_singleton"] = sum(1 for c in lcases if any(len(sh) > 1 and sh[-1] == 1 for sh in c["shapes"]))
    q["run_shape_with_singleton_dims"] = cnt(runs, lambda s: any(1 in sh and len(sh) > 1 for sh in s["shapes"]))
    q["run_shape_trailing_singleton"] = cnt(runs, lambda s: any(len(sh) > 1 and sh[-1] == 1 for sh in s["shapes"]))
    q["layout_empty_shard_start_eq_end_nonzero"] = sum(1 for c in lcases if any(a == b and a > 0 for a, b in c["ranges"]))
    q["layout_shard_inside_one_row"] = sum(1 for c in lcases for sh, (a, b) in zip(c["shapes"], c["ranges"]) if len(sh) > 1 and a < b and a // math.prod(sh[1:]) == (b - 1) // math.prod(sh[1:]) and (b - a) < math.prod(sh[1:]))
    for w in range(1, 9):
        q[f"fsdp_shard_ranks_{w}"] = cnt(fev, lambda s, w=w: len(s["cuts"]) - 1 == w)
        q[f"metadata_world_{w}"] = sum(1 for c in mcases if c["world"] == w)
    q["fsdp_mid_row_cut"] = cnt(fev, midrow)
    q["fsdp_rank_with_all_shards_empty"] = sum(1 for r in fev if "AssertionError" in r["summary"]["ctor"])
    q["fsdp_empty_parameter_shard_on_a_working_rank"] = sum(1 for r in fev if any(c == "ok" and any(a == b for a, b in rr) for c, rr in zip(r["summary"]["ctor"], r["summary"]["ranges"])))
    q["fsdp_empty_rank_interval_in_the_middle"] = cnt(fev, lambda s: any(s["cuts"][i] == s["cuts"][i + 1] for i in range(1, len(s["cuts"]) - 2)))
    q["fsdp_equal_chunks_with_padding"] = cnt(fev, lambda s: s.get("family") == "multi-chunks")
    for o in OPT_CONFIGS:
        q[f"optimizer_{o}"] = cnt(runs, lambda s, o=o: s["opt"] == o)
    q["merge_dims_off"] = cnt(runs, lambda s: not s.get("merge", True))
    for m in (1, 2, 3, 4, 1024):
        q[f"max_preconditioner_dim_{m}"] = cnt(runs, lambda s, m=m: s["maxdim"] == m)
    for d in ("float32", "float64", "bfloat16", "float16"):
        q[f"param_dtype_{d}"] = cnt(runs, lambda s, d=d: s.get("pdtype", "float32") == d)
    q["preconditioner_dtype_float64"] = cnt(runs, lambda s: s.get("precond_dtype") == "float64")
    for k in ("full", "random", "late", "none_step", "only_some", "starve", "alternate"):
        q[f"history_{k}"] = cnt(runs, lambda s, k=k: s.get("kind") == k)
    q["history_step_with_only_empty_shard_gradients"] = sum(1 for r in fev for ci, rr in enumerate(r["summary"]["ranges"]) if r["summary"]["ctor"][ci] == "ok"
                                                             and any(any(p) and not any(p[k] for k, (a, b) in enumerate(rr) if a < b) for p in r["spec"]["presence"]))
    q["history_8_steps"] = cnt(runs, lambda s: len(s["presence"]) >= 8)
    for c in ("zero_grad_on_a_ranks_shard", "zero_grad_on_a_parameter", "zero_grad_on_an_element_range", "zero_grad_everywhere_first_step", "zero_grad_everywhere_later_step",
              "grad_magnitude_tiny", "grad_magnitude_large", "params_are_views_of_a_flat_buffer", "grad_non_contiguous", "twin_parameters_alternating_gradients",
              "twin_parameter_groups", "parameter_groups_different_lr", "second_run_same_process", "long_history", "shape_large_inner_rows"):
        q[c] = cnt(runs, has(c))
    q["hsdp_replicate_size"] = {str(R): cnt(hev, lambda s, R=R: s["R"] == R) for R in sorted({r["spec"]["R"] for r in hev})}
    q["hsdp_num_trainers_per_group"] = {str(g): cnt(hev, lambda s, g=g: s["gs"] == g) for g in sorted({r["spec"]["gs"] for r in hev})}
    q["hsdp_num_trainers_default_minus_1"] = cnt(hev, lambda s: s.get("gs_default"))
    q["hsdp_shard_size"] = {str(S): cnt(hev, lambda s, S=S: s["S"] == S) for S in sorted({r["spec"]["S"] for r in hev})}
    q["hsdp_communication_dtype"] = {d: cnt(hev, lambda s, d=d: s["cdtype"] == d) for d in ("DEFAULT", "FP32", "BF16", "FP16")}
    q["hsdp_communicate_params"] = cnt(hev, lambda s: s["cp"])
    q["hsdp_starving_history"] = sum(1 for r in hev if r["sig"]["starves"])
    q["hsdp_comm_narrower_than_params"] = cnt(hev, has("hsdp_comm_narrower_than_params"))
    q["hsdp_block_bytes_not_multiple_of_64"] = cnt(hev, has("hsdp_block_bytes_not_multiple_of_64"))
    q["hsdp_owners_not_round_robin"] = sum(1 for r in hev if any(o != [i % r["spec"]["gs"] for i in range(len(o))] for o in r["sig"]["owners"]))
    q["hsdp_rank_interleaving_jitter"] = cnt(hev, has("rank_interleaving_jitter"))
    q["metadata_alignment_padding"] = sum(1 for c in mcases if any(c["pad"]))
    q["metadata_nested_second_flat_parameter"] = sum(1 for c in mcases if c.get("extra"))
    q["metadata_rank_beyond_the_data_(pure_padding)"] = sum(1 for c in mcases if c["world"] > 1 and -(-(sum(math.prod(s) + p for s, p in zip(c["shapes"], c["pad"]))) // c["world"]) * (c["world"] - 1) >= sum(math.prod(s) + p for s, p in zip(c["shapes"], c["pad"])))
    q["metadata_flat_param_without_orig_params_rejected"] = 1 if none_outcome == "AssertionError" else 0
    return q


# --------------------------------------------------------------------------------------
# the check


def _pack(ck, prefix, header, items, max_bytes=700_000, max_items=1500):
    """items: list of (key, definitions text, list-of-bool term).  Returns {key: 'TF..'}; evaluated by coqc."""
    groups, cur, size = [], [], 0
    for it in items:
        sz = len(it[1]) + len(it[2])
        if cur and (size + sz > max_bytes or len(cur) >= max_items):
            groups.append(cur)
            cur, size = [], 0
        cur.append(it)
        size += sz
    if cur:
        groups.append(cur)
    sources = {}
    for fi, grp in enumerate(groups):
        body = "\n".join(it[1] for it in grp if it[1])
        lens = cl(f"length ({it[2]})" for it in grp)
        allb = " ++ ".join(f"({it[2]})" for it in grp)
        sources[f"{prefix}_{fi:04d}"] = header + body + f"\nEval vm_compute in show_bools ({allb}).\n"
    out = ck.eval_coq(sources) if sources else {}
    res = {}
    return groups, out


def _eval_terms(ck, prefix, header, keyed_terms):
    """keyed_terms: list of (key, [bool terms]) -> {key: [bools]} (one Coq list per key)."""
    items = [(k, "", cl(ts)) for k, ts in keyed_terms if ts]
    groups, out = _pack(ck, prefix, header, items)
    res = {k: [] for k, ts in keyed_terms}
    for fi, grp in enumerate(groups):
        flat = out[f"{prefix}_{fi:04d}"][0]
        pos = 0
        n_of = {k: len(ts) for k, ts in keyed_terms}
        for k, _, _ in grp:
            res[k] = [c == "T" for c in flat[pos:pos + n_of[k]]]
            pos += n_of[k]
        assert pos == len(flat), (pos, len(flat))
    return res


def _eval_scenarios(ck, prefix, results, nfields):
    items = [(r["i"], r["coq"], f"res_{r['i']}") for r in results]
    groups, out = _pack(ck, prefix, HEADER, items, max_items=60)
    for fi, grp in enumerate(groups):
        flat = out[f"{prefix}_{fi:04d}"][0]
        assert len(flat) == nfields * len(grp), (len(flat), len(grp))
        byi = {r["i"]: r for r in results}
        for k, (i, _, _) in enumerate(grp):
            byi[i]["bools"] = [c == "T" for c in flat[nfields * k: nfields * (k + 1)]]


def small_key(spec):
    return (len(spec.get("cuts", [0, 0])) * spec.get("R", 1), len(spec.get("presence", [])), len(spec["shapes"]), sum(math.prod(s) for s in spec["shapes"]))


def run(ck: Check) -> None:
    common.assert_repo_imports()
    ck.coq_props(extra_targets=["theories/FsdpExec.vo"])
    t0 = time.time()
    lcases = gen_layout_cases(ck) + gen_audit_layout(ck)
    mcases = gen_metadata_cases(ck)
    fspecs = gen_fsdp_scenarios(ck) + gen_audit_fsdp(ck)
    hspecs = gen_hsdp_scenarios(ck) + gen_audit_hsdp(ck)
    lchunks = list(common.chunks(lcases, 60))
    mchunks = list(common.chunks(mcases, 40))
    with mp.get_context("fork").Pool(16) as pool:
        ah = pool.map_async(hsdp_work, [(i, s) for i, s in enumerate(hspecs)], chunksize=1)
        af = pool.map_async(fsdp_work, [(i, s) for i, s in enumerate(fspecs)], chunksize=1)
        al = pool.map_async(layout_work, lchunks, chunksize=1)
        am = pool.map_async(metadata_work, mchunks, chunksize=1)
        hres, fres = ah.get(), af.get()
        lobs = [o for ch in al.get() for o in ch]
        mobs = [o for ch in am.get() for o in ch]
    t_impl = time.time() - t0

    # ---- stage L -------------------------------------------------------------------------
    lterms = []
    for ci, (c, o) in enumerate(zip(lcases, lobs)):
        terms, tags = layout_case_coq(c, o)
        c["_tags"] = tags
        lterms.append((ci, terms))
    lbools = _eval_terms(ck, "c07_l", HEADER, lterms)
    lbad = [(ci, t) for ci, bs in lbools.items() for t, b in zip(lcases[ci]["_tags"], bs) if not b]
    if lbad:
        chk = []
        for n, (ci, tag) in enumerate(lbad):
            c, lay = lcases[ci], lobs[ci][tag]
            if isinstance(lay, str):
                chk.append((n, ["false"]))
                continue
            chk.append((n, [layout_checker_term(c, lay)]))
        cb = _eval_terms(ck, "c07_lchk", HEADER, chk)
        failing = [lbad[n] for n, bs in cb.items() if not bs[0]]
        pick = sorted(failing or lbad, key=lambda x: (len(lcases[x[0]]["shapes"]), sum(math.prod(s) for s in lcases[x[0]]["shapes"])))[0]
        c, lay = lcases[pick[0]], lobs[pick[0]][pick[1]]
        rep = {"stage": "L", "case": {k: v for k, v in c.items() if not k.startswith("_")}, "copy": pick[1], "observed": lay, "n_disagreeing": len(lbad), "n_checker_failing": len(failing)}
        if failing:
            ck.report(None, f"{pick[1].upper()} distributor layout violates C07 (recovered pieces are not the maximal shape-respecting slabs, or the blocks of a piece are not a legal merge+split of it, or a shard element is not in exactly one block, or gradient blocks are not the parameter's block views, or the constructor raised) on shapes={c['shapes']} ranges={c['ranges']} max_preconditioner_dim={c['maxdim']} merge={c['merge']} [{len(failing)} cases]",
                      {"kind": "property-fails", "predicate": "C15_checkb_strict on the recovered pieces /\\ C05_checkb on the blocks of every piece /\\ C07_layout_checkb", **rep})
        else:
            ck.report(None, f"model/implementation correspondence broken: {pick[1].upper()} distributor bookkeeping differs from Fsdp.fsdp_init / grad_blocks_param in {len(lbad)} layout cases (first: shapes={c['shapes']} ranges={c['ranges']} maxdim={c['maxdim']} merge={c['merge']}); the observed layouts still pass C15_checkb_strict /\\ C05_checkb /\\ C07_layout_checkb",
                      {"kind": "correspondence", "broken": "Fsdp.agree_layout", "theorems_not_transferring": THEOREMS, **rep}, no_failing_input=True)

    # ---- stage M -------------------------------------------------------------------------
    mterms = [(ci, metadata_case_coq(c, o)) for ci, (c, o) in enumerate(zip(mcases, mobs))]
    mbools = _eval_terms(ck, "c07_m", META_HEADER, mterms)
    mbad = [ci for ci, bs in mbools.items() if not all(bs)]
    if mbad:
        npart = lambda c: len(c["shapes"]) + (len(c["extra"]["shapes"]) if c.get("extra") else 0)
        part_bad = [ci for ci in mbad if not all(mbools[ci][-npart(mcases[ci]):])]
        ci = sorted(part_bad or mbad, key=lambda x: (mcases[x]["world"], len(mcases[x]["shapes"])))[0]
        rep = {"stage": "M", "case": mcases[ci], "observed": mobs[ci], "n_disagreeing": len(mbad)}
        if part_bad:
            ck.report(None, f"compile_fsdp_parameter_metadata: the (start_idx, end_idx) of the shard ranks do not partition the parameter (shapes={mcases[ci]['shapes']} world={mcases[ci]['world']}) [{len(part_bad)} cases]",
                      {"kind": "property-fails", "predicate": "partitionb (ranges of all ranks follow each other from 0 to numel)", **rep})
        else:
            ck.report(None, f"model/implementation correspondence broken: compile_fsdp_parameter_metadata / torch shard infos differ from Fsdp.metadata_of_shard_info / shard_info_of in {len(mbad)} cases; the ranges still partition the parameters",
                      {"kind": "correspondence", "broken": "Fsdp.agree_metadata", "theorems_not_transferring": ["C07_metadata_partition"], **rep}, no_failing_input=True)

    none_outcome = metadata_params_none_rejected()
    if none_outcome != "AssertionError":
        ck.report(None, f"compile_fsdp_parameter_metadata on a flat parameter without _params (use_orig_params=False): expected AssertionError, got {none_outcome}",
                  {"kind": "property-fails", "stage": "M", "case": {"params_none": True}, "outcome": none_outcome, "predicate": "metadata extraction refuses flat parameters without original parameters"})

    # ---- stages R, H ---------------------------------------------------------------------
    for r in fres + hres:
        if "crash" in r:
            ck.report(None, f"stage {r['stage']} scenario {r['i']} crashed the harness/implementation: {r['crash'][-400:]}",
                      {"kind": "crash", "stage": r["stage"], "spec": r["spec"], "traceback": r["crash"][-3000:]}, no_failing_input=True)
    ferr = [r for r in fres if "rank_errors" in r]
    herr = [r for r in hres if "rank_errors" in r]
    for lst, nm in ((ferr, "FSDP"), (herr, "HSDP")):
        if lst:
            r = sorted(lst, key=lambda x: small_key(x["spec"]))[0]
            ck.report(None, f"{nm} run: a rank raised ({r['rank_errors'][0][:300]}) [{len(lst)} scenarios]",
                      {"kind": "property-fails", "stage": r["stage"], "spec": r["spec"], "errors": r["rank_errors"], "predicate": "the sharded optimizer runs wherever the serial optimizer on the recovered pieces runs"})
    fev = [r for r in fres if "coq" in r]
    hev = [r for r in hres if "coq" in r]
    _eval_scenarios(ck, "c07_r", fev, len(R_FIELDS))
    _eval_scenarios(ck, "c07_h", hev, len(H_FIELDS))

    # input-side signature: several parameter groups, and a rank on which one group has no recovered piece while another has
    def empty_group_sig(spec):
        if not spec.get("groups"):
            return False
        for r in range(len(spec["cuts"]) - 1):
            rr = rank_ranges(spec, r)
            live = [any(rr[k][0] < rr[k][1] for k in g) for g in spec["groups"]]
            if any(live) and not all(live):
                return True
        return False

    fgrp = [r for r in fev if not (r["bools"][4] and r["bools"][5]) and empty_group_sig(r["spec"])]
    if fgrp:
        r = sorted(fgrp, key=lambda x: small_key(x["spec"]))[0]
        ck.report(SIG_EMPTY_GROUP, f"a rank on which every parameter of ONE parameter group has an empty local shard (while another group has elements) cannot construct the optimizer "
                  f"(AssertionError 'Some workers have no parameters to work on'): its non-empty shards are never updated instead of the empty ones being ignored "
                  f"[{len(fgrp)} scenarios; smallest: shapes={r['spec']['shapes']} cuts={r['spec']['cuts']} groups={r['spec']['groups']}]",
                  {"kind": "property-fails", "stage": "R", "spec": r["spec"], "checker": dict(zip(R_FIELDS, r["bools"])), "summary": r["summary"], "predicate": "C07_checkb", "n_scenarios": len(fgrp)})
    fviol = [r for r in fev if not (r["bools"][4] and r["bools"][5]) and r not in fgrp]
    fcorr = [r for r in fev if not all(r["bools"][:4]) and r not in fviol]
    if fviol:
        r = sorted(fviol, key=lambda x: small_key(x["spec"]))[0]
        what = [n for n, b in zip(R_FIELDS, r["bools"]) if not b]
        ck.report(None, f"FSDP shards differ from the serial optimizer on the recovered pieces / an element is not in exactly one block ({', '.join(what)}) [{len(fviol)} scenarios; smallest: shapes={r['spec']['shapes']} cuts={r['spec']['cuts']} maxdim={r['spec']['maxdim']} {r['spec']['opt']} presence={r['spec']['presence']}]",
                  {"kind": "property-fails", "stage": "R", "spec": r["spec"], "checker": dict(zip(R_FIELDS, r["bools"])), "summary": r["summary"], "predicate": "C07_checkb", "n_scenarios": len(fviol)})
    if fcorr:
        r = sorted(fcorr, key=lambda x: small_key(x["spec"]))[0]
        what = [n for n, b in zip(R_FIELDS, r["bools"]) if not b]
        ck.report(None, f"model/implementation correspondence broken in {len(fcorr)} FSDP scenarios ({', '.join(what)}; smallest: shapes={r['spec']['shapes']} cuts={r['spec']['cuts']}); C07_checkb on the observation passes",
                  {"kind": "correspondence", "stage": "R", "broken": what, "spec": r["spec"], "summary": r["summary"], "theorems_not_transferring": THEOREMS, "n_scenarios": len(fcorr)}, no_failing_input=True)

    f6, hviol, hcorr = [], [], []
    for r in hev:
        b = dict(zip(H_FIELDS, r["bools"]))
        dyn = [n for n in ("values_ok", "gathers_ok", "nohang") if not b[n]]
        oth = [n for n in ("fsdp_only_checkb", "creations_ok") if not b[n]]
        if dyn and r["sig"]["starves"] and not oth:
            f6.append((r, dyn))
        elif dyn or oth:
            hviol.append((r, dyn + oth))
        if not (b["static"] and b["cluster_model"]):
            hcorr.append(r)

    def hdesc(s):
        return f"mesh {s['R']}x{s['S']} num_trainers_per_group={s['gs']} communicate_params={s['cp']} {s['cdtype']} shapes={s['shapes']} cuts={s['cuts']} maxdim={s['maxdim']} {s['opt']} presence={s['presence']}"

    for sigkey, hits, title in ((SIG_STARVATION, f6, "rank starvation in the replicate group desynchronises the all-gathers (HSDP copy of update_params)"), (None, hviol, "C07 violated by HSDP")):
        if hits:
            hits.sort(key=lambda x: small_key(x[0]["spec"]))
            r, why = hits[0]
            ck.report(sigkey, f"{title}: {', '.join(why)} fail [{len(hits)} scenarios; smallest: {hdesc(r['spec'])}]",
                      {"kind": "property-fails", "stage": "H", "spec": r["spec"], "input_signature": r["sig"], "checker": dict(zip(H_FIELDS, r["bools"])), "summary": r["summary"],
                       "predicate": "C07_hsdp_checkb (every replica = reference after every step; equal gathers per group; equal creations; no hang) + C07_checkb on the FSDP-only run", "n_scenarios": len(hits)})
    hcorr = [r for r in hcorr if not any(r is x[0] for x in hviol)]
    if hcorr:
        r = sorted(hcorr, key=lambda x: small_key(x["spec"]))[0]
        b = dict(zip(H_FIELDS, r["bools"]))
        ck.report(None, f"model/implementation correspondence broken in {len(hcorr)} HSDP scenarios (static={b['static']} cluster_model={b['cluster_model']}; smallest: {hdesc(r['spec'])})",
                  {"kind": "correspondence", "stage": "H", "broken": [n for n in ("static", "cluster_model") if not b[n]], "spec": r["spec"], "input_signature": r["sig"], "checker": b, "summary": r["summary"],
                   "theorems_not_transferring": THEOREMS, "n_scenarios": len(hcorr)}, no_failing_input=True)

    # ---- evidence ------------------------------------------------------------------------
    def hist(rs, key):
        h = {}
        for r in rs:
            k = str(key(r))
            h[k] = h.get(k, 0) + 1
        return dict(sorted(h.items()))

    n_layout = sum(len(bs) for bs in lbools.values())
    n_meta = sum(len(bs) for bs in mbools.values())
    nontriv = {json.dumps(r["spec"], sort_keys=True) for r in fev if len(r["spec"]["cuts"]) >= 3 and max(r["summary"]["pieces_per_rank"]) >= 2}
    nontriv |= {json.dumps(r["spec"], sort_keys=True) for r in hev if r["spec"]["R"] >= 2 and r["spec"]["gs"] >= 2}
    midrow = 0
    for r in fev:
        offs = param_offsets(r["spec"]["shapes"])
        for c in r["spec"]["cuts"][1:-1]:
            for k, sh in enumerate(r["spec"]["shapes"]):
                row = math.prod(sh[1:]) if len(sh) > 1 else 1
                if offs[k] < c < offs[k + 1] and row > 1 and (c - offs[k]) % row:
                    midrow += 1
    samples = []
    for r in (fev[len(fev) // 3:len(fev) // 3 + 1] + fev[-1:]):
        samples.append({"stage": "R", "shapes": r["spec"]["shapes"], "cuts": r["spec"]["cuts"], "maxdim": r["spec"]["maxdim"], "merge": r["spec"]["merge"], "opt": r["spec"]["opt"],
                        "presence": r["spec"]["presence"], "ranges_per_rank": r["summary"]["ranges"], "ctor": r["summary"]["ctor"], "pieces_per_rank": r["summary"]["pieces_per_rank"],
                        "blocks_per_rank": r["summary"]["blocks_per_rank"], "result": dict(zip(R_FIELDS, r["bools"]))})
    for r in hev[len(hev) // 2:len(hev) // 2 + 1]:
        samples.append({"stage": "H", **{k: r["spec"][k] for k in ("R", "S", "gs", "cp", "cdtype", "shapes", "cuts", "maxdim", "opt", "presence")}, "starving_steps": r["sig"]["starving_steps"],
                        "hung": r["summary"]["hung"], "result": dict(zip(H_FIELDS, r["bools"]))})
    ck.coverage.update({
        "evaluations": n_layout + n_meta + len(fev) + len(hev),
        "distinct_nontrivial": len(nontriv),
        "rule": "one evaluation = one distributor layout (constructor + gradient path, one copy) compared with Fsdp.fsdp_init/grad_blocks_param, or one (rank, parameter) of a stub flat-param handle through torch's _get_shard_metadata + compile_fsdp_parameter_metadata compared with the model, or one FSDP cluster scenario (all shard ranks, all steps, shard bits vs the serial implementation on the recovered pieces, block index sets) or one HSDP mesh scenario (all replicas vs FSDP-only run vs serial reference vs the Dist.v model, logs, hang sets) - all decided inside coqc; non-trivial = distinct run scenarios with >=2 shard ranks and a rank holding >=2 recovered pieces, or HSDP with >=2 replicas in a communication group",
        "exhaustive": False,
        "exhaustive_part": "stage L family exhaustive-1: every shape of order<=3 with numel<=%d (plus three order-4 shapes), every 0<=start<=end<=numel, both distributors; the run stages are sampled" % (16 if ck.tier == "thorough" else 10),
        "samples": samples,
        "distribution": {
            "layout_cases": hist(lcases, lambda c: c["family"]), "layout_evaluations": n_layout, "layout_thresholds": hist(lcases, lambda c: c["maxdim"]),
            "layout_merge": hist(lcases, lambda c: c["merge"]), "metadata_cases": len(mcases), "metadata_evaluations": n_meta, "metadata_worlds": hist(mcases, lambda c: c["world"]),
            "metadata_with_alignment_padding": sum(1 for c in mcases if any(c["pad"])),
            "fsdp_scenarios": len(fev), "fsdp_family": hist(fev, lambda r: r["spec"]["family"]), "fsdp_shard_ranks": hist(fev, lambda r: len(r["spec"]["cuts"]) - 1),
            "fsdp_presence_kind": hist(fev, lambda r: r["spec"]["kind"]), "fsdp_optimizer": hist(fev, lambda r: r["spec"]["opt"]),
            "fsdp_ranks_with_all_shards_empty": sum(c == "AssertionError" for r in fev for c in r["summary"]["ctor"]),
            "fsdp_empty_param_shards": sum(1 for r in fev for rr in r["summary"]["ranges"] for (a, b) in rr if a == b),
            "fsdp_mid_row_cuts": midrow, "fsdp_max_pieces_per_rank": hist(fev, lambda r: max(r["summary"]["pieces_per_rank"])),
            "hsdp_scenarios": len(hev), "hsdp_mesh": hist(hev, lambda r: f"{r['spec']['R']}x{r['spec']['S']}"), "hsdp_group_size": hist(hev, lambda r: r["spec"]["gs"]),
            "hsdp_communicate_params": hist(hev, lambda r: r["spec"]["cp"]), "hsdp_dtype": hist(hev, lambda r: r["spec"]["cdtype"]), "hsdp_presence_kind": hist(hev, lambda r: r["spec"]["kind"]),
            "hsdp_starving_histories": sum(1 for r in hev if any(r["sig"]["starving_steps"])), "hsdp_scenarios_with_hung_rank": sum(1 for r in hev if any(r["summary"]["hung"])),
        },
        "disagreements_model_vs_implementation": {"layout": len(lbad), "metadata": len(mbad), "fsdp": len(fcorr), "hsdp": len(hcorr)},
        "checker_failures": {"fsdp": len(fviol), "hsdp_rank_starvation": len(f6), "hsdp_other": len(hviol), "rank_errors": len(ferr) + len(herr)},
        "implementation_wall_s": round(t_impl, 1),
        "not_exercised": [
            "the real torch FullyShardedDataParallel wrapper (needs accelerators): shards are hand-made 1-D tensors with FSDPParameterMetadata; compile_fsdp_parameter_metadata is run on stub objects carrying exactly the attributes it reads, with shard infos computed by torch's own FlatParamHandle._get_shard_metadata",
            "CUDA / NCCL paths, real process groups (the HSDP collectives run on harness/sim.py; C06's thorough tier cross-checks the simulator against gloo for the same mechanism)",
            "HSDP with several parameter groups and HSDP shard columns without any block (the constructor refuses: IndexError in HSDPDistributor._construct_distributed_buffers where FSDP gives the optimizer's AssertionError) - the column model is per group and per non-empty column",
            "bfloat16/float16 parameters with SOAP (QR/eigh kernels for the factor dtypes are C03's subject; known finding C03:qr-bf16-factor-no-lapack-kernel) - low-precision parameters are run with Shampoo+AdaGrad/Adam grafting and float32 factors",
            "the executable Dist.v column model for non-float32 parameters (it computes on binary32 bit patterns): those HSDP scenarios are decided by the certified checker against the rounded serial reference only",
            "parameters with a zero-sized dimension and order-0 parameters (outside 'order 1..4'); shapes whose numel exceeds ~100 in optimizer runs (layouts go to numel 96)",
            "parse_fsdp_params / _partition_params (not named by the property statement)",
        ],
        "quantifier_audit": quantifier_audit(lcases, mcases, fev, hev, none_outcome),
    })
    ck.assumptions += [
        "harness/sim.py stands in for torch.distributed / DeviceMesh / DTensor inside the distributor modules (FSDP: only dist.get_rank; HSDP: 2-D meshes, sub-meshes, all_gather_into_tensor concatenating the group's inputs in group-rank order)",
        "the serial implementation (default Distributor) on the recovered pieces is the oracle for the per-block mathematics; bit-for-bit equality is required",
        "HSDP per-block search directions are replayed from the implementation run (oracle) in the Dist.v model; only the distributor's own arithmetic (float32 add, bf16/fp16 rounding) is recomputed in Coq",
        "every replica of a shard column receives the same gradient shard (HSDP reduces gradients before the optimizer step)",
    ]
    ck.notes.append(f"expected on the unchanged tree: KNOWN-FINDING {SIG_EMPTY_GROUP} (F14, findings/F14_repro.py): with several parameter groups a rank on which one group has only empty shards refuses to construct the optimizer; signature computed from the input (groups + a rank with a live and a dead group)")
    ck.notes.append(f"{SIG_STARVATION} (F6 through HSDPDistributor.update_params) was repaired in /repo: starving histories are generated on purpose and must pass; Coq witness C07_hsdp_starvation_harmless")


def replay(obj) -> bool:
    common.assert_repo_imports()
    import torch
    torch.set_num_threads(1)
    st = obj.get("stage")
    if st == "L":
        c = obj["case"]
        c["ranges"] = [tuple(x) for x in c["ranges"]]
        o = layout_work([c])[0]
        print("implementation layout now:", json.dumps(o, default=str)[:3000])
        print("recorded:", json.dumps(obj.get("observed"), default=str)[:3000])
        return True
    if st == "M":
        o = metadata_work([obj["case"]])[0]
        print("implementation metadata now:", json.dumps(o, default=str)[:3000])
        return True
    spec = obj["spec"]
    if st == "R":
        r = fsdp_work((0, spec))
        print({k: r.get(k) for k in ("summary", "rank_errors", "crash")})
        return True
    if st == "H":
        r = hsdp_work((0, spec))
        print("input signature:", r.get("sig"))
        print({k: r.get(k) for k in ("summary", "rank_errors", "crash")})
        return True
    print("nothing to replay for", obj.get("kind"))
    return True
