"""C06 - DDP Shampoo = serial Shampoo, replicas identical, same collectives on every rank.

Every scenario (world size, num_trainers_per_group, communicate_params, communication dtype, parameter shapes,
optimizer configuration, gradient values and gradient-presence history) is run three ways on the implementation:
  * the single-process optimizer (for BF16/FP16: the single-process optimizer whose quantity handed to
    update_params is rounded to the communication dtype - the reference the property names),
  * the DDP distributor on an in-process simulated cluster (harness/sim.py), recording per rank the block values
    after each step (float32 bit patterns), the log of group creations / collectives, hangs, and the search
    directions each owner handed to DDPDistributor.update_params,
  * (thorough tier) a few scenarios on real gloo processes.
coqc then evaluates, per scenario (generated case files, vm_compute):
  C06_agree      the Coq cluster model (Dist.v, instance DistExec.v, small-step scheduler AND lock-step run) predicts
                 exactly the observed per-rank values after every step, the per-rank logs and the set of hung ranks;
  C06_checkb     the certified checker on the observation: every rank = reference after every step, equal collective
                 sequences per group, equal creation sequences on all ranks, nobody left waiting.
Python only generates inputs, runs the implementation and reads T/F.
"""
from __future__ import annotations

import heapq
import itertools
import json
import math
import multiprocessing as mp
import operator
import os
import time

from harness import common, gen_targets
from harness.common import Check, coq_bool

META = {
    "property_id": "C06",
    "design_ref": "DESIGN.md §4 C06 (+ §3.5 ranks, §6 F6/F7, Appendix B.2)",
    "technique": "Coq proof (induction over histories, invariant over all schedules of a small-step semantics) on a cluster model generic in the per-block computation + correspondence on an in-process rank simulator (bit-exact, evaluated by vm_compute) + certified checker on observed per-rank parameters/logs; real gloo processes cross-check the simulator in the thorough tier",
    "level_text": "Theorems for every world size, every divisor group size, every block->rank assignment, every history (Dist*.v): under no_starvation the cluster equals the single-process optimizer whose communicated quantity is rounded to the communication dtype (ddp_lowprec_eq_rounded_serial; ddp_eq_serial when the cast is the identity; assignment independence; replicas agree), all ranks of a group issue the same collectives (collective_logs_equal), every maximal schedule of the small-step semantics ends finished in the lock-step state and none deadlocks (interleaving_irrelevant, schedules_terminate). all ranks issue the same process-group creations over the whole run for every history (creation_logs_equal, for the constructor as repaired in /repo 48e7571). For the code as it is (skip rule repaired in /repo: p_global_skip = true) the *_every_history theorems hold for EVERY gradient-presence history, including steps where every block owned by some rank lacks a gradient; the general forms carry the hypothesis p_global_skip = true \\/ no_starvation. The two repaired defects are kept as refuted lemmas about the pre-repair variants: rank starvation (F6, p_global_skip = false: C06_starvation_desync_refuted) and lazy owner-only creation of state meshes (F7, p_eager_meshes = false). Tie: simulated clusters world 1..8 (also in the quick tier), all divisor group sizes, communicate_params on/off, FP32/BF16/FP16, 9 optimizer configurations (incl. no / SGD grafting, no dimension merging, a PT2-compiled step), gradient-presence histories incl. starving / empty first steps and alternating equal-shaped parameters, present-but-zero, tiny and huge gradients, overflow to +-inf in the communication dtype, injected interleaving delays - per-rank values after every step, logs and hang sets equal the model's exactly; float64 / bfloat16 / float16 parameters with every communication dtype and twin parameter groups are compared bit-for-bit with the (rounded) single-process reference and between ranks by the certified checker (model tied through logs and hang sets). Measured class counts: evidence quantifier_audit.",
    "level_note": "Trusted: Coq kernel+vm_compute; the hand-written model; harness/sim.py (stand-ins for torch.distributed/DeviceMesh/DTensor in the distributor modules' namespaces - cross-checked against real gloo processes only in the thorough tier); the optimizer mathematics per block is replayed from the implementation (oracle), only the distributor's own arithmetic (float32 add, bf16/fp16 rounding) is recomputed in Coq. The per-block independence of _per_group_step_impl is assumed by the shape of `upd` and exercised by the bit-exact serial-vs-DDP comparison.",
    "ready": True,
}

# the implementation's current behaviour w.r.t. the two modelled switches (Dist.v); flip after a repair in /repo
GLOBAL_SKIP = True       # step() skips only when NO block of the group has a gradient (F6 repaired in /repo)
EAGER_MESHES = True      # every rank creates the state meshes of all source ranks (F7 repaired in /repo by 48e7571)
# for testing a candidate repair / a pre-fix file in a scratch copy only (like VERIF_REPO; registered commands never set these)
if os.environ.get("VERIF_REPO", "/repo") != "/repo":
    GLOBAL_SKIP = os.environ.get("C06_GLOBAL_SKIP", "1" if GLOBAL_SKIP else "0") == "1"
    EAGER_MESHES = os.environ.get("C06_EAGER_MESHES", "1" if EAGER_MESHES else "0") == "1"

SIG_STARVATION = "C06:rank-starvation"
SIG_MESH = "C06:lazy-owner-only-mesh-creation"

THEOREMS = ["C06_ddp_lowprec_eq_rounded_serial", "C06_ddp_eq_serial", "C06_ddp_assignment_independent", "C06_ddp_replicas_agree",
            "C06_collective_logs_equal", "C06_creation_logs_equal", "C06_interleaving_irrelevant",
            "C06_ddp_lowprec_eq_rounded_serial_every_history", "C06_ddp_eq_serial_every_history", "C06_ddp_replicas_agree_every_history",
            "C06_collective_logs_equal_every_history", "C06_interleaving_irrelevant_every_history"]

OPT_CONFIGS = {
    "shampoo_adagrad": dict(lr=0.02, betas=(0.0, 1.0), epsilon=1e-6, freq=1, start=2, graft=("adagrad", 1e-8)),
    "shampoo_adam": dict(lr=0.01, betas=(0.9, 0.999), epsilon=1e-6, freq=2, start=2, graft=("adam", 0.999, 1e-8), weight_decay=0.01, decoupled=True),
    "soap": dict(lr=0.01, betas=(0.9, 0.99), epsilon=1e-6, freq=2, start=2, graft=None, soap=True),
    "shampoo_momentum": dict(lr=0.02, betas=(0.0, 1.0), epsilon=1e-6, freq=1, start=3, graft=("adagrad", 1e-8), momentum=0.5, nesterov=True, weight_decay=0.01, decoupled=False),
    "shampoo_rmsprop": dict(lr=0.01, betas=(0.5, 0.99), epsilon=1e-6, freq=3, start=3, graft=("rmsprop", 0.99, 1e-8), momentum=0.25, bias_correction=False),
}
# added by the quantifier audit: no grafting at all, SGD grafting (no grafting state), inverse-root override with a late first
# refresh, Nesterov off with dampening, and (flag "nomerge") use_merge_dims=False
# (kept out of OPT_CONFIGS, which c08.py iterates with its own builder)
AUDIT_OPT_CONFIGS = {
    "shampoo_plain": dict(lr=0.01, betas=(0.0, 1.0), epsilon=1e-4, freq=1, start=1, graft=None),
    "shampoo_sgd": dict(lr=0.01, betas=(0.9, 1.0), epsilon=1e-6, freq=2, start=3, graft=("sgd",), weight_decay=0.001, decoupled=True),
    "shampoo_override": dict(lr=0.02, betas=(0.0, 0.999), epsilon=1e-6, freq=4, start=5, graft=("adagrad", 1e-8), inv_root_override=2),
    "shampoo_dampened": dict(lr=0.02, betas=(0.0, 1.0), epsilon=1e-6, freq=1, start=2, graft=("rmsprop", 0.9, 1e-8), momentum=0.9, dampening=0.5, nesterov=False),
}
ALL_OPT_CONFIGS = {**OPT_CONFIGS, **AUDIT_OPT_CONFIGS}
DTYPES = ("FP32", "BF16", "FP16")
PDTYPES = ("F32", "F64", "BF16", "F16")      # parameter (= gradient) dtype; F32 is the default and the only one with a value-level model
FMT = {"FP32": 0, "DEFAULT": 0, "BF16": 1, "FP16": 2}

SHAPE_POOL = [(5, 3), (4,), (2, 6), (3, 3), (7,), (2, 2, 3), (6, 2), (1,), (3, 5), (9,), (4, 4)]


# --------------------------------------------------------------------------------------
# input-side structure (no run needed): blocks of each parameter and the documented greedy assignment


def blocks_of(shapes, maxdim, merge=True):
    """numel of every block, and number of blocks per parameter (merge_small_dims + multi_dim_split on shapes)."""
    import torch
    from distributed_shampoo.utils.shampoo_utils import merge_small_dims, multi_dim_split
    numels, nblocks = [], []
    for sh in shapes:
        merged = tuple(merge_small_dims(torch.Size(sh), maxdim)) if merge else tuple(sh)
        bl = multi_dim_split(torch.empty(sh).view(merged), maxdim)
        numels += [b.numel() for b in bl]
        nblocks.append(len(bl))
    return numels, nblocks


def greedy_owners(numels, itemsize, gs):
    """The documented assignment of _distribute_buffer_sizes: largest aligned buffer first, to the least loaded rank."""
    aligned = [(n * itemsize + 63) // 64 * 64 for n in numels]
    heap = [(0, i) for i in range(gs)]
    heapq.heapify(heap)
    owners = [-1] * len(numels)
    for idx, size in sorted(enumerate(aligned), key=operator.itemgetter(1), reverse=True):
        load, rk = heapq.heappop(heap)
        heapq.heappush(heap, (load + size, rk))
        owners[idx] = rk
    return owners


def block_presence(presence, nblocks):
    return [[p for p, k in zip(step, nblocks) for _ in range(k)] for step in presence]


def starving_steps(block_pres, owners, gs):
    """Steps that leave some group rank with owned blocks but no owned block with a gradient while a peer has one."""
    out = []
    for t, pres in enumerate(block_pres):
        act = [any(p for p, o in zip(pres, owners) if o == k) for k in range(gs)]
        owns = [any(o == k for o in owners) for k in range(gs)]
        if any(act) and any(ow and not a for ow, a in zip(owns, act)):
            out.append(t)
    return out


def itemsize_of(cdtype):
    return 4 if cdtype in ("FP32", "DEFAULT") else 2


# --------------------------------------------------------------------------------------
# building the implementation's objects from a spec (a JSON-able dict; doubles as the replay input)


def _comm_dtype(name):
    from distributed_shampoo.shampoo_types import CommunicationDType
    return getattr(CommunicationDType, name)


def _torch_dtype(name):
    import torch
    return {"FP32": torch.float32, "DEFAULT": torch.float32, "BF16": torch.bfloat16, "FP16": torch.float16}[name]


def _param_dtype(spec):
    import torch
    return {"F32": torch.float32, "F64": torch.float64, "BF16": torch.bfloat16, "F16": torch.float16}[spec.get("pdtype", "F32")]


def comm_at_least_as_precise(spec) -> bool:
    """The clause of the property that demands equality with the UNMODIFIED single-process run."""
    pd, cd = spec.get("pdtype", "F32"), spec["cdtype"]
    if pd == "F64":
        return False
    if cd in ("FP32", "DEFAULT"):
        return True
    return (pd, cd) in (("BF16", "BF16"), ("F16", "FP16"))


def tie_level(spec) -> str:
    """model: values, logs, hangs against the Coq model; logs: logs and hangs only (values outside the executable float32
    arithmetic); checker: certified checker only (several parameter groups: the model describes one group)."""
    if spec.get("groups"):
        return "checker"
    if spec.get("pt2"):
        return "logs"        # no recording wrapper inside the compiled per-group step (Dynamo would trace it)
    return "model" if spec.get("pdtype", "F32") == "F32" else "logs"


def make_optimizer_factory(spec, distributed: bool):
    from distributed_shampoo.distributed_shampoo import DistributedShampoo
    from distributed_shampoo.shampoo_types import (AdaGradGraftingConfig, AdamGraftingConfig, DDPShampooConfig,
                                                   DefaultShampooConfig, DefaultSOAPConfig, RMSpropGraftingConfig,
                                                   SGDGraftingConfig, ShampooPT2CompileConfig)
    c = ALL_OPT_CONFIGS[spec["opt"]]
    g = c.get("graft")
    if g is None:
        graft = None
    elif g[0] == "sgd":
        graft = SGDGraftingConfig()
    elif g[0] == "adagrad":
        graft = AdaGradGraftingConfig(epsilon=g[1])
    elif g[0] == "rmsprop":
        graft = RMSpropGraftingConfig(beta2=g[1], epsilon=g[2])
    else:
        graft = AdamGraftingConfig(beta2=g[1], epsilon=g[2])
    dcfg = None
    if distributed:
        dcfg = DDPShampooConfig(communication_dtype=_comm_dtype(spec["cdtype"]),
                                num_trainers_per_group=(-1 if spec.get("gs_default") else spec["gs"]),
                                communicate_params=spec["cp"])

    def make(ctx, params):
        groups = spec.get("groups")
        if groups:      # several parameter groups with identical hyperparameters ("twin" groups): one distributor each
            cuts = [0, *groups, len(params)]
            params = [{"params": params[a:b]} for a, b in zip(cuts, cuts[1:])]
        return DistributedShampoo(
            params, lr=c["lr"], betas=c["betas"], epsilon=c["epsilon"], momentum=c.get("momentum", 0.0), dampening=c.get("dampening", 0.0),
            weight_decay=c.get("weight_decay", 0.0), max_preconditioner_dim=spec["maxdim"], precondition_frequency=c["freq"],
            start_preconditioning_step=c["start"], use_nesterov=c.get("nesterov", False), inv_root_override=c.get("inv_root_override", 0),
            use_bias_correction=c.get("bias_correction", True), use_decoupled_weight_decay=c.get("decoupled", True),
            use_merge_dims=not spec.get("nomerge", False),
            grafting_config=graft, distributed_config=dcfg,
            shampoo_pt2_compile_config=ShampooPT2CompileConfig(pytorch_compile_backend="eager") if spec.get("pt2") else None,
            preconditioner_config=DefaultSOAPConfig if c.get("soap") else DefaultShampooConfig)
    return make


def make_tensors(spec):
    import torch
    g = torch.Generator().manual_seed(int(spec["seed"]))
    dt = _param_dtype(spec)
    gen_dt = torch.float64 if dt == torch.float64 else torch.float32
    pscale = spec.get("pscale") or [1.0] * len(spec["shapes"])       # per-parameter scale of the initial values
    gscale = float(spec.get("gscale", 1.0))                           # scale of all gradients (tiny / huge magnitudes)
    zero = {tuple(z) for z in spec.get("zero", [])}                   # (step, param): the PRESENT gradient is exactly zero
    init = [(torch.randn(tuple(sh), generator=g, dtype=gen_dt) * sc).to(dt) for sh, sc in zip(spec["shapes"], pscale)]
    grads = []
    for t_, step in enumerate(spec["presence"]):
        row = []
        for i_, (sh, p) in enumerate(zip(spec["shapes"], step)):
            t = torch.randn(tuple(sh), generator=g, dtype=gen_dt)     # drawn even when absent: values do not depend on the presence pattern
            if gscale != 1.0:
                t = t * gscale
            if (t_, i_) in zero:
                t = torch.zeros_like(t)
            row.append(t.to(dt) if p else None)
        grads.append(row)
    return init, grads


def bits_of(t):
    """Bit patterns of the elements (float32: 32-bit, the only width the Coq arithmetic interprets; others compared as-is)."""
    import torch
    t = t.detach().contiguous().reshape(-1)
    if t.dtype == torch.float32:
        return [int(x) & 0xFFFFFFFF for x in t.view(torch.int32).tolist()]
    if t.dtype == torch.float64:
        return [int(x) & 0xFFFFFFFFFFFFFFFF for x in t.view(torch.int64).tolist()]
    return [int(x) & 0xFFFF for x in t.view(torch.int16).tolist()]


def _distributor(opt):
    from distributed_shampoo.shampoo_types import DISTRIBUTOR
    return opt._per_group_state_lists[0][DISTRIBUTOR]


def _distributors(opt):
    from distributed_shampoo.shampoo_types import DISTRIBUTOR
    return [sl[DISTRIBUTOR] for sl in opt._per_group_state_lists]


def observe_blocks(ctx, step, opt, params):
    return [bits_of(b) for d in _distributors(opt) for b in d._global_blocked_params]


def run_reference(spec):
    """Single-process run; for reduced-precision communication the quantity handed to update_params is rounded
    exactly as the DDP distributor does it (copy into a buffer of the communication dtype, then add / copy back)."""
    import torch
    from unittest import mock
    from harness import sim
    from distributed_shampoo.utils.shampoo_distributor import Distributor
    init, grads = make_tensors(spec)
    cd = _torch_dtype(spec["cdtype"])
    cp = spec["cp"]
    recorded = []    # per update_params call: list of search-direction bit lists

    @torch.no_grad()
    def rounded_update_params(self, masked_blocked_search_directions):
        recorded.append([bits_of(d) for d in masked_blocked_search_directions])
        ps = self._local_masked_blocked_params
        bufs = tuple(torch.zeros(p.shape, dtype=cd) for p in ps)
        if cp:
            torch._foreach_add_(ps, masked_blocked_search_directions)
            torch._foreach_copy_(bufs, ps)
            torch._foreach_copy_(ps, bufs)
        else:
            torch._foreach_copy_(bufs, masked_blocked_search_directions)
            torch._foreach_add_(ps, bufs)

    make = make_optimizer_factory(spec, distributed=False)
    if not comm_at_least_as_precise(spec):
        with mock.patch.object(Distributor, "update_params", rounded_update_params):
            rec = sim.run_serial(init, make, grads, observe=observe_blocks)
    else:
        rec = sim.run_serial(init, make, grads, observe=observe_blocks)
    ds = _distributors(rec["optimizer"])
    return {"snaps": rec["extra"], "nblocks_per_param": [k for d in ds for k in d._global_num_blocks_per_param],
            "block_numels": [b.numel() for d in ds for b in d._global_blocked_params]}


def instrumented_factory(spec, tables):
    """DDP optimizer whose distributor records, per update_params call, (block, step counter, direction bits)."""
    from distributed_shampoo.shampoo_types import STEP
    make = make_optimizer_factory(spec, distributed=True)

    def factory(ctx, params):
        opt = make(ctx, params)
        if tie_level(spec) != "model":      # the recorded directions feed the value-level model only
            return opt
        d = _distributor(opt)
        rank = ctx.rank
        real = d.update_params
        state_lists = opt._per_group_state_lists[0]

        def update_params(masked_blocked_search_directions):
            k = int(state_lists[STEP].item())
            idx = [b for b, (o, s) in enumerate(zip(d._distributor_selector, d._global_grad_selector)) if o and s]
            assert len(idx) == len(masked_blocked_search_directions), (idx, len(masked_blocked_search_directions))
            for b, u in zip(idx, masked_blocked_search_directions):
                tables[rank].append((b, k, bits_of(u)))
            return real(masked_blocked_search_directions=masked_blocked_search_directions)

        d.update_params = update_params
        return opt
    return factory


def run_sim(spec, timeout=5.0):
    from harness import sim
    init, grads = make_tensors(spec)
    world = spec["world"]
    tables = [[] for _ in range(world)]
    info = {}

    def observe(ctx, step, opt, params):
        if step == 0 and ctx.rank == 0:
            d = _distributor(opt)
            info["nbytes"] = int(d._local_dist_buffer.numel() * d._local_dist_buffer.element_size())
        return observe_blocks(ctx, step, opt, params)

    jitter = spec.get("jitter")
    if jitter is not None:
        # force different interleavings between collectives: every rank sleeps a rank- and step-dependent few milliseconds
        # before each step (the results must not depend on it)
        import random as _random
        import time as _time
        delays = [[_random.Random(f"{jitter}-{r}-{t}").choice((0.0, 0.002, 0.006, 0.012)) for t in range(len(grads))] for r in range(world)]
        plain_grads = grads

        def grads(rank, step):      # noqa: F811 - run_optimizer_cluster accepts a callable
            _time.sleep(delays[rank][step])
            return plain_grads[step]

    owners_seen = [None] * world

    base_factory = instrumented_factory(spec, tables)

    def factory(ctx, params):
        opt = base_factory(ctx, params)
        d = _distributor(opt)
        # group_source_rank of every global block: recover it from the per-rank selector (rank r owns what it selects)
        owners_seen[ctx.rank] = [bool(x) for x in d._distributor_selector]
        if ctx.rank == 0:
            info["nbytes"] = int(d._local_dist_buffer.numel() * d._local_dist_buffer.element_size())
            info["init_blocks"] = [bits_of(b) for dd in _distributors(opt) for b in dd._global_blocked_params]
        return opt

    res = sim.run_optimizer_cluster(world, init, factory, grads, nsteps=len(spec["presence"]), observe=observe,
                                    timeout=(60.0 if spec.get("pt2") else timeout), seed=spec["seed"])
    snaps, hung = [], []
    for r in range(world):
        rec = res.results[r] if res.results[r] is not None else (res.partial[r] or {"extra": []})
        snaps.append(rec["extra"])
        hung.append(r in res.hung_ranks())
    gs = spec["gs"]
    nb = len(owners_seen[0]) if owners_seen[0] is not None else 0
    owners = []
    for b in range(nb):
        ks = [r % gs for r in range(min(gs, world)) if owners_seen[r] is not None and owners_seen[r][b]]
        owners.append(ks[0] if len(ks) == 1 else -1)
    other_errors = [f"rank {r}: {type(e).__name__}: {e}" for r, e in enumerate(res.errors) if e is not None and not isinstance(e, sim.SimHang)]
    return {"snaps": snaps, "hung": hung, "logs": res.logs, "hangs": res.hangs, "tables": tables, "owners": owners,
            "selectors": owners_seen, "nbytes": info.get("nbytes", 0), "init_blocks": info.get("init_blocks", []),
            "errors": other_errors, "tracebacks": [t for t in res.tracebacks if t], "outcome": res.outcome, "wall": res.wall_s}


# ---- real processes ---------------------------------------------------------------------


def gloo_rank_main(rank, world, spec):
    """Runs inside a real gloo process (harness.sim.run_gloo): same scenario, same observations."""
    import torch
    from harness import sim
    from distributed_shampoo.shampoo_types import STEP
    torch.set_num_threads(1)
    log = []
    with sim.gloo_logging_patches(log):
        init, grads = make_tensors(spec)
        params = [torch.nn.Parameter(p.clone()) for p in init]
        opt = make_optimizer_factory(spec, distributed=True)(None, params)
        d = _distributor(opt)
        table = []
        real = d.update_params
        state_lists = opt._per_group_state_lists[0]

        def update_params(masked_blocked_search_directions):
            k = int(state_lists[STEP].item())
            idx = [b for b, (o, s) in enumerate(zip(d._distributor_selector, d._global_grad_selector)) if o and s]
            for b, u in zip(idx, masked_blocked_search_directions):
                table.append((b, k, bits_of(u)))
            return real(masked_blocked_search_directions=masked_blocked_search_directions)

        d.update_params = update_params
        out = {"selector": [bool(x) for x in d._distributor_selector], "nbytes": int(d._local_dist_buffer.numel()),
               "init_blocks": [bits_of(b) for b in d._global_blocked_params], "snaps": []}
        for step in range(len(grads)):
            for p, g in zip(params, grads[step]):
                p.grad = None if g is None else g.clone()
            opt.step()
            out["snaps"].append([bits_of(b) for b in d._global_blocked_params])
        out["table"] = table
        out["log"] = [e for e in log]
    return out


def run_gloo_scenario(spec, timeout=60.0):
    from harness import sim
    res = sim.run_gloo(spec["world"], "harness.c06:gloo_rank_main", spec, timeout=timeout)
    if res.outcome != "ok":
        return {"outcome": res.outcome, "errors": [e for e in res.errors if e], "wall": res.wall_s}
    world, gs = spec["world"], spec["gs"]
    sels = [r["selector"] for r in res.results]
    nb = len(sels[0])
    owners = []
    for b in range(nb):
        ks = [r % gs for r in range(min(gs, world)) if sels[r][b]]
        owners.append(ks[0] if len(ks) == 1 else -1)
    return {"outcome": "ok", "snaps": [r["snaps"] for r in res.results], "hung": [False] * world, "logs": [r["log"] for r in res.results],
            "hangs": [], "tables": [r["table"] for r in res.results], "owners": owners, "selectors": sels, "nbytes": res.results[0]["nbytes"],
            "init_blocks": res.results[0]["init_blocks"], "errors": [], "tracebacks": [], "wall": res.wall_s}


# --------------------------------------------------------------------------------------
# Coq text


def cl(items):
    return "[" + "; ".join(items) + "]"


def coq_zs(xs):
    return cl(str(int(x)) for x in xs)


def coq_nats(xs):
    return "[" + "; ".join(f"{int(x)}%nat" for x in xs) + "]"


def coq_snapshot(snap):
    return cl(coq_zs(b) for b in snap)


def coq_event(ev):
    k = ev[0]
    if k == "new_subgroups":
        return f"EvNewSubgroups {ev[1]}%nat"
    if k == "mesh":
        m = ev[1]
        flat = list(m) if not (m and isinstance(m[0], (tuple, list))) else [x for row in m for x in row]
        return f"EvMesh {coq_nats(flat)}"
    if k == "new_group":
        return f"EvNewGroup {coq_nats(ev[1])}"
    if k == "all_gather":
        return f"EvAllGather {coq_nats(ev[1])} {ev[2]}%nat"
    raise ValueError(ev)


def model_log(log):
    return [e for e in log if e[0] in ("new_subgroups", "mesh", "new_group", "all_gather")]


def coq_case(i, spec, ref, obs, py_starves):
    """Definitions + the list of 5 booleans of scenario i."""
    world, gs = spec["world"], spec["gs"]
    nb = len(obs["owners"])
    table = [e for t in obs["tables"][:gs] for e in t]      # the owners of group 0 (the other groups are compared against it)
    bp = block_presence(spec["presence"], ref["nblocks_per_param"])
    lines = []
    lines.append(f"Definition tbl_{i} : table := {cl(f'({b}%nat, {k}, {coq_zs(u)})' for b, k, u in table)}.")
    lines.append(f"Definition P_{i} := exec_params {world}%nat {gs}%nat {nb}%nat {coq_nats([max(o, 0) for o in obs['owners']])} {obs['nbytes']}%nat "
                 f"{coq_bool(spec['cp'])} {FMT[spec['cdtype']]} tbl_{i} {coq_bool(GLOBAL_SKIP)} {coq_bool(EAGER_MESHES)}.")
    lines.append(f"Definition pres_{i} : list (list bool) := {cl(cl(coq_bool(p) for p in row) for row in bp)}.")
    lines.append(f"Definition v0_{i} : snapshot := {coq_snapshot(obs['init_blocks'])}.")
    lines.append(f"Definition b0_{i} : snapshot := {coq_snapshot([[0] * len(b) for b in obs['init_blocks']])}.")
    lines.append(f"Definition ref_{i} : list snapshot := {cl(coq_snapshot(s) for s in ref['snaps'])}.")
    snaps = cl(cl(coq_snapshot(s) for s in rank_snaps) for rank_snaps in obs["snaps"])
    logs = cl(cl(coq_event(e) for e in model_log(lg)) for lg in obs["logs"])
    lines.append(f"Definition obs_{i} : observed := mkObs {snaps} {logs} {cl(coq_bool(h) for h in obs['hung'])}.")
    tie = tie_level(spec)
    if tie == "model":
        agree = f"C06_agree P_{i} pres_{i} v0_{i} b0_{i} {coq_bool(py_starves)} obs_{i}"
    elif tie == "logs":       # parameters that are not float32: the model is tied through logs and hang set only
        agree = f"C06_agree_logs P_{i} pres_{i} {coq_bool(py_starves)} obs_{i}"
    else:                     # several parameter groups: certified checker only
        agree = "true"
    lines.append(f"Definition res_{i} : list bool := [{agree}; "
                 f"C06_values_ok ref_{i} obs_{i}; C06_gathers_ok {gs}%nat obs_{i}; C06_creations_ok obs_{i}; C06_nohang obs_{i}].")
    return "\n".join(lines)


HEADER = """From Coq Require Import ZArith List Bool String.
From Shampoo Require Import Show Dist DistChecker DistExec.
Import ListNotations. Open Scope Z_scope.
"""


# --------------------------------------------------------------------------------------
# scenario generation


def divisors(n):
    return [d for d in range(1, n + 1) if n % d == 0]


def choose_shapes(rng, gs):
    """2..6 parameters, at least gs blocks, some of them split into several blocks by a small max_preconditioner_dim."""
    for _ in range(200):
        n = rng.randint(2, 6)
        shapes = [rng.choice(SHAPE_POOL) for _ in range(n)]
        maxdim = rng.choice((2, 3, 4, 4, 5))
        numels, nblocks = blocks_of(shapes, maxdim)
        if len(numels) >= gs and len(numels) <= 14 and sum(numels) <= 110:
            return shapes, maxdim, numels, nblocks
    shapes = [(4,)] * max(2, min(6, gs)) if gs <= 6 else [(4, 4)] * 2 + [(4,)] * 4
    maxdim = 2
    numels, nblocks = blocks_of(shapes, maxdim)
    return shapes, maxdim, numels, nblocks


def gen_presence(rng, kind, nparams, nblocks, owners, gs, T):
    """Per step, per parameter: gradient present?"""
    pres = [[True] * nparams for _ in range(T)]
    if kind == "full":
        return pres
    if kind == "random":
        for t in range(T):
            pres[t] = [rng.random() < 0.7 for _ in range(nparams)]
        return pres
    if kind == "late":       # a parameter gets its first gradient late; another loses it
        a, b = rng.randrange(nparams), rng.randrange(nparams)
        for t in range(T):
            pres[t][a] = t >= T // 2
            if b != a:
                pres[t][b] = t < T - 2
        return pres
    if kind == "none_step":  # a step in which nobody has a gradient, and a random one
        t0 = rng.randrange(T)
        pres[t0] = [False] * nparams
        t1 = rng.randrange(T)
        if t1 != t0:
            pres[t1] = [rng.random() < 0.6 for _ in range(nparams)]
        return pres
    if kind == "starve":     # engineer a step where one group rank has no gradient for any owned block, a peer has
        owner_of_param = []
        i = 0
        for k in nblocks:
            owner_of_param.append(set(owners[i:i + k]))
            i += k
        cands = []
        for k in range(gs):
            absent = [k in s for s in owner_of_param]
            if any(absent) and not all(absent):
                cands.append(absent)
        if cands:
            absent = rng.choice(cands)
            t0 = rng.randrange(T)
            pres[t0] = [not a for a in absent]
            if rng.random() < 0.4:      # starve again later (possibly another rank)
                absent2 = rng.choice(cands)
                t1 = rng.randrange(T)
                pres[t1] = [not a for a in absent2]
        else:                # not expressible with per-parameter gradients here: fall back to a random history
            for t in range(T):
                pres[t] = [rng.random() < 0.7 for _ in range(nparams)]
        return pres
    raise ValueError(kind)


def gen_scenarios(ck: Check):
    rng = ck.rng
    thorough = ck.tier == "thorough"
    worlds = range(1, 9) if thorough else range(1, 5)
    variants = 5 if thorough else 1
    kinds_cycle = ["full", "random", "starve", "late", "none_step", "random", "starve"]
    opts = list(OPT_CONFIGS)
    specs = []
    n = 0
    for world in worlds:
        for gs in divisors(world):
            for cp in (False, True):
                for cdtype in DTYPES:
                    for v in range(variants):
                        shapes, maxdim, numels, nblocks = choose_shapes(rng, gs)
                        owners = greedy_owners(numels, itemsize_of(cdtype), gs)
                        T = rng.randint(4, 6)
                        kind = kinds_cycle[(n + v + rng.randrange(2)) % len(kinds_cycle)]
                        pres = gen_presence(rng, kind, len(shapes), nblocks, owners, gs, T)
                        spec = {"world": world, "gs": gs, "cp": cp, "cdtype": "DEFAULT" if (cdtype == "FP32" and rng.random() < 0.25) else cdtype,
                                "gs_default": bool(gs == world and rng.random() < 0.5),
                                "shapes": [list(s) for s in shapes], "maxdim": maxdim, "opt": opts[(n + v) % len(opts)],
                                "presence": pres, "kind": kind, "seed": rng.randrange(1 << 30)}
                        specs.append(spec)
                        n += 1
    # a fixed minimal reproducer of each finding, so that they are exercised whatever the seed
    specs.append(F6_MINIMAL)
    specs.append(F7_MINIMAL)
    specs += audit_scenarios(rng, thorough)
    return specs


# --------------------------------------------------------------------------------------
# quantifier audit: input classes the property names or plainly allows that the sweep above does not (reliably) produce in the
# quick tier.  Every scenario is small; each carries the tags of the classes it was built for in spec["audit"].


def _owners_for(shapes, maxdim, cdtype, gs, merge=True):
    numels, nblocks = blocks_of(shapes, maxdim, merge)
    return numels, nblocks, greedy_owners(numels, itemsize_of(cdtype), gs)


def _params_of_rank(nblocks, owners, k):
    """Per parameter: does it contain a block owned by group rank k?"""
    out, i = [], 0
    for n in nblocks:
        out.append(k in owners[i:i + n])
        i += n
    return out


def audit_scenarios(rng, thorough):
    specs = []

    def add(tags, world, gs, cp, cdtype, shapes, maxdim, opt, presence, kind, **extra):
        spec = {"world": world, "gs": gs, "cp": cp, "cdtype": cdtype, "gs_default": bool(extra.pop("gs_default", False)),
                "shapes": [list(x) for x in shapes], "maxdim": maxdim, "opt": opt, "presence": presence, "kind": kind,
                "seed": rng.randrange(1 << 30), "audit": list(tags), **extra}
        specs.append(spec)
        return spec

    full = lambda n, T: [[True] * n for _ in range(T)]      # noqa: E731
    base_opts = list(OPT_CONFIGS)

    # (a) world sizes 5..8 with every kind of divisor (1, proper, world), incl. a starving step each
    for j, (world, gs) in enumerate([(5, 5), (5, 1), (6, 2), (6, 3), (6, 6), (7, 7), (7, 1), (8, 2), (8, 4), (8, 8)]):
        shapes, maxdim, numels, nblocks = choose_shapes(rng, gs)
        cdtype = DTYPES[j % 3]
        owners = greedy_owners(numels, itemsize_of(cdtype), gs)
        kind = ("starve", "random", "late")[j % 3]
        add(["world_5_to_8"], world, gs, bool(j % 2), cdtype, shapes, maxdim, base_opts[j % len(base_opts)],
            gen_presence(rng, kind, len(shapes), nblocks, owners, gs, 4), kind, gs_default=(gs == world and j % 4 == 0))

    # (b) exactly one block per rank (the boundary of "at least one block per rank"), single-element blocks, a block of more
    #     than 64 bytes that is no multiple of 64, a parameter split into many blocks
    add(["one_block_per_rank"], 4, 4, False, "FP32", [(4,), (3,), (2, 2), (1,)], 4, "shampoo_adagrad", full(4, 3), "full")
    add(["one_block_per_rank"], 3, 3, True, "BF16", [(6,), (2,)], 3, "shampoo_adam", [[True, True], [True, False], [False, True], [True, True]], "starve")
    add(["one_block_per_rank", "world_5_to_8"], 8, 8, False, "FP16", [(4, 4), (8,)], 2, "shampoo_rmsprop", full(2, 3), "full")
    add(["block_over_64_bytes_unaligned", "many_blocks_per_param"], 2, 2, True, "FP32", [(9, 5), (7, 3), (1,)], 5, "shampoo_momentum",
        [[True, True, True], [True, False, True], [False, True, False], [True, True, True]], "random")

    # (c) parameter dtypes other than float32 with every communication dtype, both kinds of communicated quantity
    #     (reference: the unmodified single-process run iff the communication dtype is at least as precise, else the
    #     single-process run whose communicated quantity is rounded; tie of the model through logs and hang sets)
    k = 0
    for pd in ("F64", "BF16", "F16"):
        for cdtype in DTYPES:
            for cp in (False, True):
                shapes = [(5, 3), (4,), (2, 6)] if k % 2 == 0 else [(3, 3), (7,), (2, 2, 3)]
                numels, nblocks, owners = _owners_for(shapes, 4, cdtype, 2)
                kind = ("full", "starve", "late", "random")[k % 4]
                world, gs = ((2, 2), (4, 2), (3, 3))[k % 3]
                numels, nblocks, owners = _owners_for(shapes, 4, cdtype, gs)
                add([f"param_dtype_{pd}"], world, gs, cp, cdtype, shapes, 4, base_opts[k % len(base_opts)],
                    gen_presence(rng, kind, len(shapes), nblocks, owners, gs, 4), kind, pdtype=pd)
                k += 1

    # mixed 16-bit pairings on a few hundred elements: the in-place add promotes bfloat16 x float16 to float32, which differs from
    # an add in the parameter dtype on ~1% of the elements only
    for pd, cdtype, cp in (("BF16", "FP16", False), ("F16", "BF16", True), ("BF16", "FP16", True), ("F64", "FP32", False)):
        shapes = [(16, 16), (8,), (8, 8)]
        numels, nblocks, owners = _owners_for(shapes, 8, cdtype, 2)
        add([f"param_dtype_{pd}", "mixed_precision_many_elements"], 2, 2, cp, cdtype, shapes, 8, "shampoo_adagrad",
            gen_presence(rng, "late", 3, nblocks, owners, 2, 5), "late", pdtype=pd)

    # (d) optimizer configurations: no grafting, SGD grafting (no grafting state), inverse-root override with the first refresh
    #     after the history's middle, dampened momentum without Nesterov, use_merge_dims=False, twin parameter groups,
    #     a PT2-compiled per-group step
    for j, opt in enumerate(list(AUDIT_OPT_CONFIGS) * 2):
        shapes = [(5, 3), (4,), (2, 6), (3, 3)] if j < 4 else [(9, 5), (3,), (6, 2)]     # the latter: a 180-byte block
        world, gs = ((2, 2), (4, 2), (3, 3), (4, 4), (4, 2), (2, 2), (2, 1), (3, 3))[j % 8]
        cdtype = ("FP32", "BF16", "FP32", "FP16", "FP32", "FP16", "BF16", "FP32")[j % 8]
        numels, nblocks, owners = _owners_for(shapes, 5 if j >= 4 else 4, cdtype, gs)
        kind = ("starve", "late", "random", "starve")[j % 4]
        add([f"opt_{opt}"], world, gs, bool((j + j // 4) % 2), cdtype, shapes, 5 if j >= 4 else 4, opt,
            gen_presence(rng, kind, len(shapes), nblocks, owners, gs, 6), kind)
    for j, (world, gs, cp, cdtype) in enumerate([(2, 2, False, "FP32"), (4, 2, True, "BF16")]):
        shapes = [(2, 6), (3, 2, 2), (5,)]
        numels, nblocks, owners = _owners_for(shapes, 3, cdtype, gs, merge=False)
        add(["no_merge_dims"], world, gs, cp, cdtype, shapes, 3, base_opts[j], gen_presence(rng, "starve", 3, nblocks, owners, gs, 4), "starve", nomerge=True)
    for j, (world, gs, cp, cdtype) in enumerate([(2, 2, False, "FP32"), (4, 2, True, "FP16"), (3, 3, False, "BF16")]):
        # two groups with identical hyperparameters and equal-shaped parameters; the second group's gradients come and go
        shapes = [(4, 3), (5,), (2, 2), (4, 3), (5,), (2, 2)]
        pres = [[True, True, True, bool(t % 2), True, bool((t + 1) % 2)] for t in range(4)]
        if j == 2:
            pres[1] = [True, True, True, False, False, False]      # a step in which the whole second group has no gradient
        add(["twin_param_groups"], world, gs, cp, cdtype, shapes, 4, base_opts[j + 1], pres, "groups", groups=[3])
    add(["pt2_compiled_step"], 2, 2, False, "FP32", [(4,), (4,), (4,)], 4, "shampoo_adagrad", [[True, True, True], [True, False, True], [True, True, True]], "starve", pt2=True)

    # (e) histories: starving / empty FIRST step (selector caches still None), equal-shaped parameters whose gradients
    #     alternate (same count, different pattern), a single parameter that alone ever has gradients
    for j, (world, gs, cp, cdtype) in enumerate([(2, 2, False, "FP32"), (4, 2, True, "BF16"), (3, 3, False, "FP16"), (4, 4, True, "FP32")]):
        shapes = [(4,), (4,), (4,), (2, 3)]
        numels, nblocks, owners = _owners_for(shapes, 4, cdtype, gs)
        starved = [k_ for k_ in range(gs) if any(_params_of_rank(nblocks, owners, k_)) and not all(_params_of_rank(nblocks, owners, k_))]
        mask = _params_of_rank(nblocks, owners, starved[j % len(starved)])
        pres = full(4, 4)
        pres[0] = [not m for m in mask]
        add(["starving_first_step"], world, gs, cp, cdtype, shapes, 4, base_opts[j], pres, "starve_first")
        pres = full(4, 4)
        pres[0] = [False] * 4
        pres[2] = [not m for m in mask]
        add(["first_step_without_any_gradient"], world, gs, cp, cdtype, shapes, 4, base_opts[(j + 1) % 5], pres, "none_first")
        pres = [[bool(t % 2), bool((t + 1) % 2), True, True] for t in range(5)]
        add(["alternating_equal_shaped_params"], world, gs, cp, cdtype, shapes, 4, base_opts[(j + 2) % 5], pres, "alternate")
        pres = [[False, j % 2 == 0, j % 2 == 1, False] for _ in range(4)]
        add(["only_one_param_ever"], world, gs, cp, cdtype, shapes, 4, base_opts[(j + 3) % 5], pres, "only_one")

    # (f) gradient values: a PRESENT gradient that is exactly zero on a parameter / on every block of one rank; tiny (1e-5) and
    #     huge (1e6) magnitudes; parameters that overflow the communication dtype (float16, communicate_params) to +-inf
    for j, (world, gs, cp, cdtype) in enumerate([(2, 2, False, "FP32"), (2, 2, True, "BF16"), (4, 2, False, "FP16"), (3, 3, True, "FP32")]):
        shapes = [(5, 3), (4,), (2, 6), (3,)]
        numels, nblocks, owners = _owners_for(shapes, 4, cdtype, gs)
        pres = full(4, 4)
        add(["zero_gradient_present"], world, gs, cp, cdtype, shapes, 4, base_opts[j], pres, "zero_block", zero=[[0, j % 4], [2, (j + 1) % 4], [2, j % 4]])
        ks = [k_ for k_ in range(gs) if not all(_params_of_rank(nblocks, owners, k_))]
        mask = _params_of_rank(nblocks, owners, ks[j % len(ks)])
        add(["zero_gradient_on_all_blocks_of_a_rank"], world, gs, cp, cdtype, shapes, 4, base_opts[(j + 2) % 5], pres, "zero_rank",
            zero=[[t, i] for t in (0, 2) for i, m in enumerate(mask) if m])
        add(["tiny_gradients"], world, gs, cp, cdtype, shapes, 4, base_opts[(j + 1) % 5], gen_presence(rng, "random", 4, nblocks, owners, gs, 4), "random", gscale=1e-5)
        add(["huge_gradients"], world, gs, cp, cdtype, shapes, 4, base_opts[(j + 3) % 5], gen_presence(rng, "late", 4, nblocks, owners, gs, 4), "late", gscale=1e6)
    add(["overflow_to_inf_in_communication_dtype"], 2, 2, True, "FP16", [(5, 3), (4,), (2, 6)], 4, "shampoo_adagrad", [[True, True, True], [True, False, True], [True, True, True]], "late",
        pscale=[1e5, 1.0, 3e4])
    add(["overflow_to_inf_in_communication_dtype"], 4, 2, True, "FP16", [(4,), (4,), (4,)], 4, "shampoo_rmsprop", [[True, True, True], [False, True, True], [True, True, True]], "late",
        pscale=[1e6, 1.0, 1.0])

    # (g) interleavings: rank- and step-dependent delays before every step
    for j, (world, gs, cp, cdtype) in enumerate([(4, 2, False, "FP32"), (4, 4, True, "BF16"), (3, 3, False, "FP16"), (6, 3, True, "FP32")]):
        shapes, maxdim, numels, nblocks = choose_shapes(rng, gs)
        owners = greedy_owners(numels, itemsize_of(cdtype), gs)
        kind = ("starve", "random")[j % 2]
        add(["jittered_interleaving"] + (["world_5_to_8"] if world > 4 else []), world, gs, cp, cdtype, shapes, maxdim, base_opts[j],
            gen_presence(rng, kind, len(shapes), nblocks, owners, gs, 4), kind, jitter=rng.randrange(1 << 20))
    return specs


# minimal reproducers (also quoted in /verif/.work/c06_findings.md)
F6_MINIMAL = {"world": 2, "gs": 2, "cp": False, "cdtype": "FP32", "gs_default": True, "shapes": [[4], [4], [4]], "maxdim": 4,
              "opt": "shampoo_adagrad", "presence": [[True, True, True], [True, False, True], [True, True, True]], "kind": "starve", "seed": 7}
F7_MINIMAL = {"world": 4, "gs": 2, "cp": False, "cdtype": "FP32", "gs_default": False, "shapes": [[4], [4]], "maxdim": 4,
              "opt": "shampoo_adagrad", "presence": [[True, True]], "kind": "full", "seed": 8}


def input_signatures(spec):
    """Signatures of the known defects, computed from the INPUT only."""
    numels, nblocks = blocks_of([tuple(s) for s in spec["shapes"]], spec["maxdim"], not spec.get("nomerge", False))
    cuts = [0, *(spec.get("groups") or []), len(spec["shapes"])]
    owners, st = [], set()
    for a, b in zip(cuts, cuts[1:]):        # every parameter group has its own distributor (own assignment, own collectives)
        nbs = nblocks[a:b]
        lo, hi = sum(nblocks[:a]), sum(nblocks[:b])
        ow = greedy_owners(numels[lo:hi], itemsize_of(spec["cdtype"]), spec["gs"])
        owners += ow
        st |= set(starving_steps(block_presence([row[a:b] for row in spec["presence"]], nbs), ow, spec["gs"]))
    st = sorted(st)
    return {"owners": owners, "nblocks": nblocks, "numels": numels, "starving_steps": st,
            "starves": bool(st),     # input side of the (repaired) defect F6
            # input side of the (repaired) defect F7: several ranks per group, and every configuration used here
            # allocates optimizer state for every block (Kronecker factors / grafting)
            "lazy_mesh": spec["world"] >= 2 and spec["gs"] >= 2}


def work_item(args):
    """One scenario in a worker process: run reference + simulator (or gloo), return Coq text and metadata."""
    i, spec, mode = args
    import torch
    torch.set_num_threads(1)
    from harness import sim
    sim.silence_library_logging()
    t0 = time.time()
    sig = input_signatures(spec)
    out = {"i": i, "spec": spec, "sig": sig, "mode": mode}
    try:
        ref = run_reference(spec)
        obs = run_gloo_scenario(spec) if mode == "gloo" else run_sim(spec)
    except Exception as e:  # noqa
        import traceback
        out["crash"] = traceback.format_exc()
        return out
    out["wall"] = time.time() - t0
    if obs.get("outcome") in ("hang", "error") and mode == "gloo":
        out["gloo_outcome"] = obs["outcome"]
        out["gloo_errors"] = obs.get("errors", [])[:2]
        return out
    out["errors"] = obs["errors"]
    out["tracebacks"] = obs["tracebacks"][:1]
    out["owners_match"] = bool(spec.get("groups")) or obs["owners"] == sig["owners"]
    out["structure_match"] = ref["nblocks_per_param"] == sig["nblocks"] and ref["block_numels"] == sig["numels"]
    out["hung"] = obs["hung"]
    out["hangs"] = obs["hangs"]
    out["nsteps_done"] = [len(s) for s in obs["snaps"]]
    out["logs_short"] = [[e for e in model_log(lg)][:8] for lg in obs["logs"]]
    out["coq"] = coq_case(i, spec, ref, obs, bool(sig["starving_steps"]))
    # python-side summary used only for messages (never for the verdict)
    out["replicas_equal_py"] = all(s == obs["snaps"][0] for s in obs["snaps"])
    out["equals_ref_py"] = all(s == ref["snaps"] for s in obs["snaps"])
    return out


# --------------------------------------------------------------------------------------


def audit_classes(spec, sig):
    """Input classes of the property's quantifier that a scenario belongs to (computed from the input)."""
    c = set(spec.get("audit", []))
    world, gs = spec["world"], spec["gs"]
    c.add("world_1" if world == 1 else "world_2_to_4" if world <= 4 else "world_5_to_8")
    c.add("group_size_1" if gs == 1 and world > 1 else "group_size_world" if gs == world else "group_size_proper_divisor")
    if spec.get("gs_default"):
        c.add("num_trainers_per_group_-1")
    c.add("communicate_params" if spec["cp"] else "communicate_updates")
    c.add(f"comm_{spec['cdtype']}")
    c.add(f"param_dtype_{spec.get('pdtype', 'F32')}")
    c.add("comm_at_least_as_precise_as_params" if comm_at_least_as_precise(spec) else "comm_less_precise_than_params")
    c.add(f"opt_{spec['opt']}")
    nb = len(sig["owners"])
    if nb == gs and not spec.get("groups"):
        c.add("one_block_per_rank")
    if any(n > 1 for n in sig["nblocks"]):
        c.add("blocked_parameter")
    if any(n == 1 for n in sig["numels"]):
        c.add("single_element_block")
    isz = itemsize_of(spec["cdtype"])
    if any((n * isz) % 64 for n in sig["numels"]):
        c.add("block_bytes_not_multiple_of_64")
    if any(n * isz > 64 and (n * isz) % 64 for n in sig["numels"]):
        c.add("block_over_64_bytes_unaligned")
    pres = spec["presence"]
    c.add("all_gradients_present" if all(all(r) for r in pres) else "absent_gradients")
    if any(not any(r) for r in pres):
        c.add("step_without_any_gradient")
    if pres and not any(pres[0]):
        c.add("first_step_without_any_gradient")
    if sig["starving_steps"]:
        c.add("starving_step")
        if 0 in sig["starving_steps"]:
            c.add("starving_first_step")
    for j in range(len(spec["shapes"])):
        col = [r[j] for r in pres]
        if col and not col[0] and any(col):
            c.add("param_first_gradient_late")
    if spec.get("zero"):
        c.add("zero_gradient_present")
    if spec.get("gscale", 1.0) < 1e-3:
        c.add("tiny_gradients")
    if spec.get("gscale", 1.0) > 1e3:
        c.add("huge_gradients")
    if spec.get("jitter") is not None:
        c.add("jittered_interleaving")
    if spec.get("groups"):
        c.add("twin_param_groups")
    if spec.get("nomerge"):
        c.add("no_merge_dims")
    if spec.get("pt2"):
        c.add("pt2_compiled_step")
    c.add(f"tie_{tie_level(spec)}")
    return c


NOT_EXERCISED = {
    "real_process_interleavings_in_quick_tier": "real gloo processes run in the thorough tier only (7 scenarios, 4-10 s each); the quick tier uses thread-per-rank interleavings incl. injected delays",
    "gradients_with_non_default_memory_layout": "merge_and_block_gradients does grad.view(merged_dims): a non-contiguous gradient raises in the single-process optimizer exactly as under DDP (nothing DDP-specific; C04/C05 cover the blocking of gradients)",
    "NaN_values": "a NaN in the communicated quantity is outside the executable float32 model (payload/sign of NaNs is platform-specific); +-inf IS exercised",
    "second_optimizer_in_the_same_process": "the simulator's mesh cache lives per cluster like get_device_mesh's functools.cache lives per process; the cache-hit path is exercised by twin parameter groups (second distributor of the same optimizer)",
    "value_level_model_for_non_float32_parameters": "DistExec interprets float32 bit patterns only: float64/bfloat16/float16 parameters are compared bit-for-bit with the (rounded) single-process reference and between ranks by C06_checkb, the model is tied through logs and hang sets (C06_agree_logs)",
    "world_sizes_above_8_cuda_nccl": "no accelerators here; the theorems cover every world size, the tie stops at 8 simulated ranks",
    "unequal_gradients_across_ranks": "the property says 'given the same gradients': DDP averages them before the optimizer step",
}


def small_key(spec):
    return (spec["world"], len(spec["presence"]), len(spec["shapes"]), sum(math.prod(s) for s in spec["shapes"]))


def run(ck: Check) -> None:
    common.assert_repo_imports()
    ck.coq_props(extra_targets=["theories/DistExec.vo"])
    gen_targets.run(ck)          # translator tie: Gallina regenerated from the source + coq/gen/EquivC06.v
    thorough = ck.tier == "thorough"
    specs = gen_scenarios(ck)
    items = [(i, s, "sim") for i, s in enumerate(specs)]
    with mp.get_context("fork").Pool(16) as pool:
        results = pool.map(work_item, items, chunksize=1)

    gloo_results = []
    if thorough:
        gl = []
        base = len(specs)
        picks = [dict(F6_MINIMAL, presence=[[True, True, True]] * 3, kind="full"),
                 {"world": 2, "gs": 2, "cp": True, "cdtype": "BF16", "gs_default": False, "shapes": [[5, 3], [4], [2, 6]], "maxdim": 4, "opt": "shampoo_adam",
                  "presence": [[True, True, True], [True, False, True], [True, True, True]], "kind": "late", "seed": 11},
                 {"world": 3, "gs": 3, "cp": False, "cdtype": "FP16", "gs_default": True, "shapes": [[3, 3], [7], [2, 2, 3]], "maxdim": 3, "opt": "soap",
                  "presence": [[True, True, True]] * 3, "kind": "full", "seed": 12},
                 {"world": 2, "gs": 1, "cp": False, "cdtype": "FP32", "gs_default": False, "shapes": [[5, 3], [4]], "maxdim": 4, "opt": "shampoo_momentum",
                  "presence": [[True, True], [False, True], [True, True]], "kind": "late", "seed": 13},
                 {"world": 4, "gs": 4, "cp": True, "cdtype": "FP32", "gs_default": True, "shapes": [[5, 3], [4], [2, 6]], "maxdim": 4, "opt": "shampoo_rmsprop",
                  "presence": [[True, True, True]] * 3, "kind": "full", "seed": 14},
                 {"world": 4, "gs": 2, "cp": False, "cdtype": "FP32", "gs_default": False, "shapes": [[5, 3], [4]], "maxdim": 4, "opt": "shampoo_adagrad",
                  "presence": [[True, True]] * 3, "kind": "full", "seed": 15}]
        # a starving history on real processes only once the skip rule is repaired: before, the real hang costs the full
        # timeout and proves nothing the simulator has not shown
        if GLOBAL_SKIP:
            picks.append(dict(F6_MINIMAL))
        for k, s in enumerate(picks):
            gl.append((base + k, s, "gloo"))
        for it in gl:       # one at a time: each spawns `world` processes
            gloo_results.append(work_item(it))

    allres = results + gloo_results
    crashed = [r for r in allres if "crash" in r]
    for r in crashed[:3]:
        ck.report(None, f"scenario {r['i']} ({r['mode']}) crashed the harness/implementation: {r['crash'][-400:]}",
                  {"kind": "crash", "spec": r["spec"], "mode": r["mode"], "traceback": r["crash"][-3000:]}, no_failing_input=True)
    evaluated = [r for r in allres if "coq" in r]

    # generated case files: group scenarios up to ~600 kB per file
    sources, groups, cur, cur_size = {}, [], [], 0
    for r in evaluated:
        if cur and cur_size + len(r["coq"]) > 120_000:
            groups.append(cur)
            cur, cur_size = [], 0
        cur.append(r)
        cur_size += len(r["coq"])
    if cur:
        groups.append(cur)
    for fi, grp in enumerate(groups):
        body = "\n".join(r["coq"] for r in grp)
        allb = " ++ ".join(f"res_{r['i']}" for r in grp)
        sources[f"c06_{fi:04d}"] = HEADER + body + f"\nEval vm_compute in show_bools ({allb}).\n"
    out = ck.eval_coq(sources) if sources else {}
    for fi, grp in enumerate(groups):
        flat = out[f"c06_{fi:04d}"][0]
        assert len(flat) == 5 * len(grp), (len(flat), len(grp))
        for k, r in enumerate(grp):
            b = flat[5 * k: 5 * k + 5]
            r["agree"], r["values_ok"], r["gathers_ok"], r["creations_ok"], r["nohang"] = (c == "T" for c in b)

    # ---- verdicts -----------------------------------------------------------------------
    f6_hits, f7_hits, other, corr = [], [], [], []
    for r in evaluated:
        sig = r["sig"]
        if r["errors"]:
            other.append((r, "a rank raised: " + r["errors"][0][:200]))
        if not r["owners_match"] or not r["structure_match"]:
            other.append((r, "block structure / owner assignment differs from the documented greedy rule (harness input model out of date?)"))
        if not r["creations_ok"]:
            (f7_hits if sig["lazy_mesh"] else other).append((r, "ranks issue different process-group creation sequences"))
        dyn = [n for n, ok in (("parameters differ from the reference / between ranks", r["values_ok"]),
                               ("ranks of a group issue different collective sequences", r["gathers_ok"]),
                               ("a rank is left waiting in a collective", r["nohang"])) if not ok]
        if dyn:
            (f6_hits if sig["starves"] else other).append((r, "; ".join(dyn)))
        if not r["agree"]:
            corr.append(r)
    for r in gloo_results:
        if "gloo_outcome" in r:
            sig = r["sig"]
            what = f"real gloo processes: outcome {r['gloo_outcome']} (world={r['spec']['world']}, num_trainers_per_group={r['spec']['gs']})"
            if r["gloo_outcome"] == "hang" and sig["starves"]:
                f6_hits.append((r, what + " - a starved rank skipped the all-gather"))
            elif r["gloo_outcome"] == "hang" and sig["lazy_mesh"] and 1 < r["spec"]["gs"] < r["spec"]["world"]:
                f7_hits.append((r, what + " - ranks create different process groups under the same name"))
            else:
                other.append((r, what + " " + " ".join(r.get("gloo_errors", []))[-300:]))

    def rep(sig_key, hits, title):
        if not hits:
            return
        hits.sort(key=lambda x: small_key(x[0]["spec"]))
        r, why = hits[0]
        nscen = len({x[0]["i"] for x in hits})
        ck.report(sig_key, f"{title}: {why} [{nscen} scenarios; smallest: world={r['spec']['world']} num_trainers_per_group={r['spec']['gs']} "
                  f"communicate_params={r['spec']['cp']} {r['spec']['cdtype']} {r['spec']['opt']} presence={r['spec']['presence']}]",
                  {"kind": "property-fails", "spec": r["spec"], "mode": r["mode"], "input_signature": {k: r["sig"][k] for k in ("owners", "starving_steps", "starves", "lazy_mesh")},
                   "checker": {k: r.get(k) for k in ("values_ok", "gathers_ok", "creations_ok", "nohang", "agree")},
                   "hung": r.get("hung"), "hangs": r.get("hangs"), "steps_completed_per_rank": r.get("nsteps_done"), "logs_head": r.get("logs_short"),
                   "n_scenarios": nscen, "predicate": "C06_checkb (values = reference on every rank after every step; equal gathers per group; equal creations; no hang)"})

    rep(SIG_STARVATION, f6_hits, "rank starvation desynchronises the all-gathers (a rank whose owned blocks all lack a gradient skips the group step)")
    rep(SIG_MESH, f7_hits, "state DeviceMeshes are created lazily by the owner only")
    rep(None, other, "C06 violated")
    if corr:
        corr.sort(key=lambda x: small_key(x["spec"]))
        r = corr[0]
        passes = r["values_ok"] and r["gathers_ok"] and r["creations_ok"] and r["nohang"]
        ck.report(None, f"model/implementation correspondence broken in {len(corr)} scenarios (smallest: world={r['spec']['world']} gs={r['spec']['gs']} cp={r['spec']['cp']} "
                  f"{r['spec']['cdtype']} {r['spec']['opt']} kind={r['spec']['kind']} mode={r['mode']}); C06_checkb on the observation: {'passes' if passes else 'fails'}",
                  {"kind": "correspondence", "broken": "DistExec.C06_agree (Dist.v cluster model vs observed per-rank values/logs/hangs)", "spec": r["spec"], "mode": r["mode"],
                   "checker": {k: r.get(k) for k in ("values_ok", "gathers_ok", "creations_ok", "nohang")}, "hung": r.get("hung"), "logs_head": r.get("logs_short"),
                   "theorems_not_transferring": THEOREMS, "n_scenarios": len(corr)}, no_failing_input=True)

    # ---- evidence ------------------------------------------------------------------------
    def hist(key):
        h = {}
        for r in evaluated:
            k = key(r)
            h[str(k)] = h.get(str(k), 0) + 1
        return dict(sorted(h.items()))

    nontriv = {json.dumps(r["spec"], sort_keys=True) for r in evaluated if r["spec"]["world"] >= 2 and r["spec"]["gs"] >= 2}
    samples = []
    for r in (evaluated[len(evaluated) // 3:len(evaluated) // 3 + 1] + evaluated[len(evaluated) // 2:len(evaluated) // 2 + 1] + evaluated[-1:]):
        samples.append({"world": r["spec"]["world"], "gs": r["spec"]["gs"], "communicate_params": r["spec"]["cp"], "dtype": r["spec"]["cdtype"], "opt": r["spec"]["opt"],
                        "shapes": r["spec"]["shapes"], "max_preconditioner_dim": r["spec"]["maxdim"], "presence": r["spec"]["presence"], "owners": r["sig"]["owners"],
                        "starving_steps": r["sig"]["starving_steps"], "hung": r["hung"], "agree": r["agree"],
                        "checker": [r["values_ok"], r["gathers_ok"], r["creations_ok"], r["nohang"]], "mode": r["mode"]})
    qa = {}
    for r in evaluated:
        for c in audit_classes(r["spec"], r["sig"]):
            qa[c] = qa.get(c, 0) + 1
    qa["real_gloo_processes"] = sum(1 for r in gloo_results if "coq" in r)
    ck.coverage["quantifier_audit"] = dict(sorted(qa.items()))
    ck.coverage["not_exercised"] = NOT_EXERCISED
    ck.coverage.update({
        "evaluations": len(evaluated),
        "distinct_nontrivial": len(nontriv),
        "rule": "one evaluation = one cluster scenario (reference run + simulated cluster run, all steps) whose per-rank values after every step, logs and hang set were compared with the Coq model inside coqc and pushed through C06_checkb; non-trivial = distinct scenarios with world>=2 and group size>=2 (several ranks exchange updates)",
        "exhaustive": False,
        "samples": samples,
        "distribution": {
            "world": hist(lambda r: r["spec"]["world"]), "group_size": hist(lambda r: r["spec"]["gs"]),
            "communicate_params": hist(lambda r: r["spec"]["cp"]), "communication_dtype": hist(lambda r: r["spec"]["cdtype"]),
            "optimizer": hist(lambda r: r["spec"]["opt"]), "presence_kind": hist(lambda r: r["spec"]["kind"]),
            "steps": hist(lambda r: len(r["spec"]["presence"])), "blocks": hist(lambda r: len(r["sig"]["owners"])),
            "params": hist(lambda r: len(r["spec"]["shapes"])),
            "starving_histories": sum(1 for r in evaluated if r["sig"]["starving_steps"]),
            "scenarios_with_hung_rank": sum(1 for r in evaluated if any(r["hung"])),
            "mode": hist(lambda r: r["mode"]),
        },
        "disagreements_model_vs_implementation": len(corr),
        "checker_failures": {"rank_starvation": len(f6_hits), "lazy_mesh_creation": len(f7_hits), "other": len(other)},
        "gloo_runs": [{"world": r["spec"]["world"], "gs": r["spec"]["gs"], "outcome": r.get("gloo_outcome", "ok"), "agree": r.get("agree"), "wall_s": round(r.get("wall", 0), 1)} for r in gloo_results],
        "model_switches": {"global_skip": GLOBAL_SKIP, "eager_meshes": EAGER_MESHES},
    })
    ck.assumptions += [
        "harness/sim.py stands in for torch.distributed / DeviceMesh / DTensor inside the distributor modules (all_gather_into_tensor concatenates the group's inputs in group-rank order; collectives match in issue order)" + (" - cross-checked in this run against real gloo processes" if thorough else " - cross-checked against real gloo processes in the thorough tier only"),
        "the per-block search directions are replayed from the implementation run (oracle); only the distributor's own arithmetic (float32 add, bf16/fp16 round-to-nearest-even) is recomputed in Coq",
        "every rank receives the same gradients (DDP averages them before the optimizer step)",
    ]
    ck.notes.append(f"{SIG_STARVATION} (F6) and {SIG_MESH} (F7) were repaired in /repo: the model runs with p_global_skip = p_eager_meshes = true; starving histories are generated on purpose and must pass; a reappearance is reported under these signatures")
    ck.gen_equiv_verdict()


def replay(obj) -> bool:
    common.assert_repo_imports()
    spec = obj["spec"]
    sig = input_signatures(spec)
    ref = run_reference(spec)
    obs = run_gloo_scenario(spec) if obj.get("mode") == "gloo" else run_sim(spec)
    print("input signature:", {k: sig[k] for k in ("owners", "starving_steps", "starves", "lazy_mesh")})
    if obs.get("outcome") in ("hang", "error") and "snaps" not in obs:
        print("real processes:", obs["outcome"], obs.get("errors"))
        return True
    print("hung ranks:", [r for r, h in enumerate(obs["hung"]) if h], "hangs:", obs["hangs"])
    print("steps completed per rank:", [len(s) for s in obs["snaps"]])
    print("replicas bit-identical after every step:", all(s == obs["snaps"][0] for s in obs["snaps"]))
    print("every rank equals the reference run after every step:", all(s == ref["snaps"] for s in obs["snaps"]))
    for r, lg in enumerate(obs["logs"]):
        print(f"rank {r} log:", model_log(lg))
    return True
