"""C10 - matrix inverse root is accurate for every solver, root and dtype.

Proved (Coq, over the reals / as control flow): props/C10.v.  Tied to /repo by evaluating the same Gallina
model in binary64 inside coqc on generated inputs with the recorded eigh answers (machinery shared with C11,
see harness/c11.py).  MEASURED, not proved: the floating-point accuracy constant against a 50-digit mpmath
reference (n <= 16) and a float64 reference for float32 runs (n <= 128).
"""
from __future__ import annotations

import math
from fractions import Fraction

from harness import gen_targets
from harness import common
from harness import c11 as mfh
from harness.common import Check, coq_float

META = {
    "property_id": "C10",
    "design_ref": "DESIGN.md §4 C10",
    "technique": "Coq proof over the reals / as control flow about the Gallina model of matrix_inverse_root and its four solvers (eigh as an oracle with recorded answers; iteration loops with "
                 "max_iterations as fuel) + correspondence evaluated by vm_compute in binary64 inside coqc + certified checker on the implementation's output + measured accuracy against 50-digit mpmath",
    "level_text": "Proved in Coq (16 theorems, props/C10.v): for A PSD, root p/q, eps > 0, any valid eigh answer and an exactly carried exponent, the eigen path returns THE inverse root: "
                  "X^p (A + eps I)^q = I with X symmetric positive definite (eigen_root_exact); the enhance_stability path returns the same matrix for every symmetric A; the diagonal flag (diagonal PSD input) "
                  "and the 1x1 path (any entry) return the value of the general path (fastpaths_eq_general, via uniqueness of spectral functions); the coupled Newton iterates commute and satisfy "
                  "X_k^p (A + eps I) = M_k for every iteration count (newton_invariant; higher_order_invariant for the higher-order loop, early stop included), so a CONVERGED flag implies |X^p (A + eps I) - I|max <= tolerance for the returned X (converged_flag_sound); "
                  "as control flow, for every scalar instance including the executed binary64 one: CONVERGED <=> the tolerance test succeeded on the error of the returned coupled matrix (Newton and "
                  "higher-order), iterations <= max_iterations, the higher-order solver returns only if its residual test `error > 0.1` failed and the result is finite (higher_order_guard), "
                  "Newton rejects fractional roots, unknown configurations raise NotImplementedError. "
                  "Tie: the same Gallina term run in binary64 agrees with the real routine on generated PSD inputs (n <= 12 eigen, n <= 8 iterative; scales 1e-6..1e6; roots incl. fractional; all four "
                  "configurations, diagonal flag, 1x1, iteration/tolerance/order settings): X normwise 1e-9 / 1e-6, termination flag, iteration count, exception class, matrix handed to eigh. "
                  "Guard clause tested directly on the real code (float32/float64, cond up to 1e12, n up to 64): every returned higher-order result has a recomputed residual <= 0.1 equal to the reported one. "
                  "Converged-flag clause tested directly on structured families (constant diagonal, rank one, correlation matrices) and every integer root 1..8: a CONVERGED report always comes with "
                  "max|M - I| <= tolerance and the residual of the returned X within tolerance + rounding. "
                  "PARTIAL: the accuracy bound c * (n*u*cond/r + tol*cond + exponent-rounding term) is MEASURED, not proved: float32 and float64 against a 50-digit mpmath reference (n <= 16) and a float64 "
                  "reference (float32, n <= 128); the observed constant is written to the evidence and the check fails above 64.",
    "level_note": "Trusted: Coq kernel + vm_compute; the hand-written model (checked against the code only on generated inputs); the eigh oracle contract (measured by C11); torch.pow = real power; "
                  "eigen_root_exact assumes the binary32 rounding of -1/r is exact (true for r = 1, 2, 4, 8, ...; otherwise the measured bound carries the term |fl32(1/r) - 1/r| * |ln lambda|). "
                  "Nothing is proved about rounding errors; iterative solvers with non-positive roots and order < 2 are outside the model.",
    "ready": True,
}

BUDGET = 64.0
U = mfh.U


# ------------------------------------------------------------------------------------------------
# tie cases


def gen_tie_cases(rng, count: int) -> list[dict]:
    import torch
    cases = []
    kinds = ["psd", "rankdef", "psd", "repeated", "zero", "psd"]
    for k in range(count):
        which = k % 8
        kind = kinds[k % len(kinds)]
        scale = 10 ** rng.uniform(-6, 6)
        if which in (0, 1):                      # eigen, with / without enhance_stability, n <= 12
            n = rng.randint(1, 12)
            cond = 10 ** rng.uniform(0, 8)
            cfg = ("eigen", which == 1)
            p, q = rng.choice(mfh.ROOTS)
        elif which in (2, 3):                    # coupled Newton (integer roots; a few fractional ones -> ValueError)
            n = rng.randint(1, 8)
            cond = 10 ** rng.uniform(0, 4)
            cfg = ("newton", rng.choice([1, 2, 3, 5, 10, 100, 100]), rng.choice([1e-4, 1e-6, 1e-8, 1e-10]))
            p, q = rng.choice([(1, 1), (2, 1), (3, 1), (4, 1), (8, 1), (2, 1), (4, 1), (3, 2), (0, 1)])
        elif which in (4, 5):                    # coupled higher order
            n = rng.randint(1, 8)
            cond = 10 ** rng.uniform(0, 4)
            cfg = ("ho", rng.choice([0.0, 0.0, 1e-8]), rng.choice([1, 2, 3, 5, 10, 100, 100]), rng.choice([1e-4, 1e-6, 1e-8, 1e-10]), rng.choice([2, 3, 3, 4, 5]))
            p, q = rng.choice([(1, 1), (2, 1), (3, 1), (4, 1), (8, 1), (3, 2), (4, 3), (5, 2), (2, 3), (0, 1)])
        elif which == 6:                         # diagonal fast path on a diagonal PSD matrix, any configuration
            n = rng.randint(2, 12)
            cond = 10 ** rng.uniform(0, 8)
            cfg = rng.choice([("eigen", False), ("eigen", True), ("newton", 10, 1e-6), ("ho", 0.0, 10, 1e-8, 3), ("unknown",)])
            p, q = rng.choice(mfh.ROOTS)
        else:                                    # unknown configuration / 1x1 with any configuration
            n = rng.choice([1, 1, rng.randint(2, 6)])
            cond = 10 ** rng.uniform(0, 4)
            cfg = rng.choice([("unknown",), ("eigen", False), ("newton", 10, 1e-6), ("ho", 0.0, 10, 1e-8, 3)]) if n == 1 else ("unknown",)
            p, q = rng.choice(mfh.ROOTS)
        lam = mfh.spectrum(rng, n, kind, scale, cond)
        A = mfh.make_sym(lam, rng.randrange(1 << 40), diagonal=(which == 6))
        base = scale if kind != "zero" else 1.0
        if cfg[0] in ("newton", "ho"):
            eps = base * 10 ** rng.uniform(-4, -1)
        else:
            eps = base * 10 ** rng.uniform(-10, -1)
        cases.append(mfh.new_case(A, p, q, cfg, eps, which == 6, kind + ("-diagflag" if which == 6 else "")))
    return cases


def gen_targeted_tie_cases(rng) -> list[dict]:
    """Input classes named or plainly allowed by C10's quantifier that the random stream hits rarely or never (quantifier audit)."""
    cases = []

    def add(A, p, q, cfg, eps, tag, is_diag=False, **extra):
        c = mfh.new_case(A, p, q, cfg, eps, is_diag, tag)
        c.update(extra)
        cases.append(c)

    k = 0
    iter_roots = [(1, 1), (2, 1), (3, 1), (4, 1), (5, 1), (6, 1), (7, 1), (8, 1)]
    # structured PSD matrices through all four configurations
    for kind in mfh.STRUCTURED:
        for n in (2, 3, 4, 6):
            scale = 10 ** rng.uniform(-6, 6)
            A = mfh.structured(rng, n, kind, scale)
            eps = scale * 10 ** rng.uniform(-4, -1)
            which = k % 4
            k += 1
            if which == 0:
                add(A, *rng.choice(mfh.ROOTS + mfh.ROOTS_EXTRA), ("eigen", False), eps, "struct:" + kind)
            elif which == 1:
                add(A, *rng.choice(mfh.ROOTS + mfh.ROOTS_EXTRA), ("eigen", True), eps, "struct:" + kind)
            elif which == 2:
                add(A, *iter_roots[k % 8], ("newton", 100, rng.choice([1e-6, 1e-8])), eps, "struct:" + kind)
            else:
                add(A, *rng.choice(iter_roots + [(3, 2), (4, 3)]), ("ho", 0.0, 100, rng.choice([1e-6, 1e-8]), rng.choice([2, 3, 4])), eps, "struct:" + kind)
    # exactly diagonal, non-ascending diagonal: with the flag (any configuration) and without it
    for n in (2, 5, 9):
        scale = 10 ** rng.uniform(-6, 6)
        A = mfh.structured(rng, n, "diag-nonascending", scale)
        for cfg in [("eigen", False), ("eigen", True), ("newton", 100, 1e-8), ("ho", 0.0, 100, 1e-8, 3), ("unknown",)]:
            add(A, *rng.choice(iter_roots[:4]), cfg, scale * 1e-5, "diagflag:nonascending", is_diag=True)
        add(A, 2, 1, ("eigen", False), scale * 1e-5, "struct:diag-nonascending")
    # roots: Fraction(r / exponent_multiplier) (eigen configurations only, as in the optimizer), large, below one
    for (p, q) in [mfh.multiplier_root(r, m) for r in (2, 4, 8) for m in mfh.MULTIPLIERS] + mfh.ROOTS_EXTRA:
        n = rng.randint(1, 8)
        scale = 10 ** rng.uniform(-3, 3)
        A = mfh.make_sym(mfh.spectrum(rng, n, rng.choice(["psd", "rankdef"]), scale, 10 ** rng.uniform(0, 5)), rng.randrange(1 << 40))
        add(A, p, q, ("eigen", k % 2 == 0), scale * 10 ** rng.uniform(-5, -1), "root:" + ("multiplier" if q > 1000 else f"{p}/{q}"))
        k += 1
    for (p, q) in [(5, 1), (6, 1), (7, 1), (16, 1), (10, 1)]:           # integer roots the random stream does not use, both iterative solvers
        n = rng.randint(2, 6)
        A = mfh.make_sym(mfh.spectrum(rng, n, "psd", 1.0, 10 ** rng.uniform(0, 3)), rng.randrange(1 << 40))
        add(A, p, q, ("newton", 100, 1e-8), 1e-3, f"root:{p}/{q}")
        add(A, p, q, ("ho", 0.0, 100, 1e-8, 3), 1e-3, f"root:{p}/{q}")
    # iteration / tolerance / order / rel_epsilon settings at their edges
    for n in (2, 4, 7):
        A = mfh.make_sym(mfh.spectrum(rng, n, "psd", 1.0, 10 ** rng.uniform(0, 3)), rng.randrange(1 << 40))
        add(A, 2, 1, ("newton", 0, 1e-6), 1e-3, "setting:max_iterations=0")
        add(A, 4, 1, ("newton", 20, 0.0), 1e-3, "setting:tolerance=0")
        add(A, 2, 1, ("newton", 100, 1.0), 1e-3, "setting:tolerance=1")
        add(A, 2, 1, ("ho", 0.0, 0, 1e-8, 3), 1e-3, "setting:max_iterations=0")
        add(A, 2, 1, ("ho", 0.0, 1, 1e-8, 3), 1e-3, "setting:max_iterations=1")
        add(A, 3, 1, ("ho", 0.0, 100, 1.0, 3), 1e-3, "setting:tolerance=1")
        add(A, 2, 1, ("ho", 0.0, 100, 1e-8, 6), 1e-3, "setting:order=6")
        add(A, 3, 2, ("ho", 1e-3, 100, 1e-8, 3), 1e-6, "setting:rel_epsilon=1e-3")
    # roots Fraction(r / multiplier) from multipliers with many digits / roots whose exponent is a binary32 number, on ill-conditioned
    # PSD inputs: the model (and the eigenpair checker) use the REQUESTED root
    for (p, q) in mfh.awkward_roots(rng, 12):
        n = rng.choice([2, 3, 4, 6, 8])
        scale = 10 ** rng.uniform(-3, 3)
        cond = 10 ** rng.uniform(4, 8)
        A = mfh.make_sym(mfh.spectrum(rng, n, "psd", scale, cond), rng.randrange(1 << 40))
        add(A, p, q, ("eigen", k % 2 == 0), scale / cond * 0.1, "root:awkward")
        k += 1
    for (p, q) in mfh.awkward_roots(rng, 4):
        scale = 10 ** rng.uniform(-3, 3)
        add(mfh.structured(rng, 4, "diag-nonascending", scale), p, q, ("eigen", False), scale * 1e-7, "root:awkward", is_diag=True)
        add(mfh.make_sym([scale * 1e-5], 0), p, q, ("eigen", False), scale * 1e-9, "root:awkward")
    # Newton with a tolerance below the rounding floor of float64: runs to max_iterations unless the error hits exactly 0
    for n in (2, 3, 5, 8):
        for p in (2, 4):
            scale = 10 ** rng.uniform(-3, 3)
            A = mfh.make_sym(mfh.spectrum(rng, n, "psd", scale, 10 ** rng.uniform(0, 3)), rng.randrange(1 << 40))
            add(A, p, 1, ("newton", 30, rng.choice([1e-17, 1e-18])), scale * 1e-3, "noisefloor")
    # tolerance below the rounding floor (the private function's own default is 1e-20): the loop ends with EARLY_STOP; the iteration at
    # which stagnation is detected is decided by rounding noise, so these cases are compared on X only
    for n in (2, 3, 5, 8):
        for p, q in ((2, 1), (4, 1), (3, 2)):
            scale = 10 ** rng.uniform(-3, 3)
            A = mfh.make_sym(mfh.spectrum(rng, n, "psd", scale, 10 ** rng.uniform(0, 3)), rng.randrange(1 << 40))
            add(A, p, q, ("ho", 0.0, 100, 1e-20, rng.choice([2, 3, 4])), scale * 1e-3, "noisefloor")
    # eps >= scale, the zero matrix through the iterative solvers, memory layout, offload option, second call
    for n in (1, 3, 6):
        scale = 10 ** rng.uniform(-3, 3)
        A = mfh.make_sym(mfh.spectrum(rng, n, "psd", scale, 100.0), rng.randrange(1 << 40))
        for cfg in [("eigen", False), ("eigen", True), ("newton", 100, 1e-8), ("ho", 0.0, 100, 1e-8, 3)]:
            add(A, *rng.choice(iter_roots[:4]), cfg, scale * rng.choice([1.0, 30.0, 1e3]), "eps>=scale")
            add(A * 0.0, *rng.choice(iter_roots[:4]), cfg, 10 ** rng.uniform(-6, 0), "zero")
        if n > 1:
            for cfg in [("eigen", k % 2 == 0), ("newton", 100, 1e-8), ("ho", 0.0, 100, 1e-8, 3)]:
                add(A, 2, 1, cfg, scale * 1e-3, "layout", layout=("strided", "transposed")[k % 2], twice=True)
                k += 1
            add(A, 4, 1, ("eigen", False, "cpu"), scale * 1e-3, "offload:cpu")
            add(A, 4, 1, ("eigen", True, "cpu"), scale * 1e-3, "offload:cpu")
    return cases


def eigpair_check_term(case: dict, obs: dict) -> str | None:
    """eigpair_checkb on the implementation's X with the recorded eigenpairs and the REQUESTED root (eigen configurations, PSD input)."""
    import torch
    if (obs["kind"] != "ok" or case["cfg"][0] != "eigen" or case["is_diag"] or mfh.case_n(case) < 2 or case["p"] <= 0 or case["eps"] <= 0
            or not obs["eigh"] or case["tag"].startswith(("indef", "nonpositive"))):
        return None
    n = mfh.case_n(case)
    X = obs["X"].reshape(n, n)
    if not bool(torch.isfinite(X).all()):
        return "false"
    _, L, Q = obs["eigh"][-1]
    lmin, lmax = max(float(L.min()), 0.0), float(L.max())
    if case["cfg"][1]:
        cond = lmax / max(lmin, case["eps"])
    else:
        cond = (lmax + case["eps"]) / (lmin + case["eps"])
    tol = max(1e-7, 1e3 * n * U["float64"] * cond ** max(1.0, case["q"] / case["p"]))
    if tol > 1e-5:
        return None
    return (f"(eigpair_checkb fo {n}%nat {mfh.coq_Zlit(case['p'])} {case['q']}%positive {coq_float(case['eps'])} {mfh.coq_bool(bool(case['cfg'][1]))} "
            f"(of_list fo {mfh.coq_vec(L.tolist())}) (rows {mfh.coq_rows(Q.tolist())}) (rows {mfh.coq_rows(X.tolist())}) {coq_float(tol)})")


def conv_flag_term(n: int, M, flag: str, err: float, tol: float) -> str:
    """conv_flag_checkb on what the implementation returned (M exactly converted to binary64) against the CONFIGURED tolerance."""
    return f"(conv_flag_checkb fo {n}%nat (rows {mfh.coq_rows(M.double().tolist())}) {flag} {coq_float(err)} {coq_float(tol)})"


def spectrum_of(case: dict):
    """(lambda_min, lambda_max) of A in float64."""
    import torch
    n = mfh.case_n(case)
    A = torch.tensor(case["A"], dtype=torch.float64).reshape(n, n)
    lam = torch.linalg.eigvalsh((A + A.T) / 2)
    return float(lam[0]), float(lam[-1])


def c10_check_term(case: dict, obs: dict) -> str | None:
    """C10_checkb on the implementation's X: X^p (A + eps I)^q = I within a tolerance that reflects the solver's own
    promise (tolerance if CONVERGED, the 0.1 guard for the higher-order solver) plus rounding noise."""
    import torch
    if obs["kind"] != "ok" or case["p"] <= 0 or case["eps"] <= 0:
        return None
    n, p, q, eps = mfh.case_n(case), case["p"], case["q"], case["eps"]
    if obs["X"].numel() != n * n or len(case["A"]) != n * n or p > 64 or q > 16:
        return None          # (Fraction(r / multiplier) roots have 50-bit numerators: X^p is not computable; they are covered by the tie and the accuracy stream)
    X = obs["X"].reshape(n, n)
    if not bool(torch.isfinite(X).all()):
        return "false"
    lmin, lmax = spectrum_of(case)
    lmin = max(lmin, 0.0)
    cond = (lmax + eps) / (lmin + eps)
    u = U["float64"]
    noise = 1e3 * p * n * u * cond ** max(1, q)
    kind = case["cfg"][0]
    eps_used = eps
    if case["is_diag"] or kind == "eigen" or n == 1:
        dexp = abs(float(torch.as_tensor(-1.0 / Fraction(p, q))) + q / p)
        lnmax = max(abs(math.log(lmin + eps)), abs(math.log(lmax + eps)))
        tol = max(1e-6, noise) + 4 * p * dexp * lnmax
    elif kind == "newton":
        fl = obs["iter"][-1][0]
        tol = case["cfg"][2] * 1.01 + noise if fl == "CONVERGED" else float("inf")
    elif kind == "ho":
        tol = (1.1 ** q - 1.0) * 1.01 + noise
        rel = case["cfg"][1]
        A = torch.tensor(case["A"], dtype=torch.float64).reshape(n, n)
        eps_used = max(rel * float(torch.linalg.matrix_norm(A, float("inf"))), eps)
    else:
        return None
    if not (tol <= 0.5) and tol != float("inf"):
        return None                                # rounding noise of the residual itself too large to decide
    xs = float(X.abs().max())
    tol_s = max(1e-9, 1e3 * n * u * cond) * max(xs, 1e-300)
    A = torch.tensor(case["A"], dtype=torch.float64).reshape(n, n)
    return (f"(C10_checkb fo {n}%nat {p}%nat {q}%nat (rows {mfh.coq_rows(A.tolist())}) {coq_float(eps_used)} (rows {mfh.coq_rows(X.tolist())}) "
            f"{coq_float(tol)} {coq_float(tol_s)})")


# ------------------------------------------------------------------------------------------------
# measured accuracy (NOT a theorem)


def mp_reference(A64, eps: float, p: int, q: int):
    """(A + eps I)^(-q/p) with 50 significant digits (mpmath eigsy); returns (X as float64 tensor, lambda_min, lambda_max)."""
    import mpmath as mp
    import torch
    mp.mp.dps = 50
    n = A64.shape[0]
    M = mp.matrix(n, n)
    for i in range(n):
        for j in range(n):
            M[i, j] = (mp.mpf(float(A64[i, j])) + mp.mpf(float(A64[j, i]))) / 2
        M[i, i] += mp.mpf(eps)
    if n == 1:
        E, Qm = [M[0, 0]], mp.matrix([[1]])
    else:
        Ev, Qm = mp.eigsy(M)
        E = [Ev[i] for i in range(n)]
    e = -mp.mpf(q) / mp.mpf(p)
    D = mp.diag([(x if x > 0 else mp.mpf(eps) * mp.mpf("1e-30")) ** e for x in E])
    Xm = Qm * D * Qm.T
    X = torch.tensor([[float(Xm[i, j]) for j in range(n)] for i in range(n)], dtype=torch.float64)
    return X, float(min(E)), float(max(E))


def f64_reference(A64, eps: float, p: int, q: int):
    import torch
    n = A64.shape[0]
    L, Q = torch.linalg.eigh((A64 + A64.T) / 2 + eps * torch.eye(n, dtype=torch.float64))
    L = L.clamp_min(eps * 1e-30)
    X = (Q * L.pow(-q / p)) @ Q.T
    return X, float(L[0]), float(L[-1])


def accuracy_one(A, p: int, q: int, cfg, eps: float, dtype: str, use_mp: bool, is_diag: bool = False) -> dict:
    import torch
    import matrix_functions as mf
    tdt = getattr(torch, dtype)
    u = U[dtype]
    n = A.shape[0]
    Ad = A.to(tdt)
    Ad = (Ad + Ad.T) / 2
    case = mfh.new_case(Ad.double(), p, q, cfg, eps, is_diag)
    obs = mfh.observe(case, dtype=dtype)
    out: dict = {"outcome": obs["kind"] + (":" + obs["exc"] if obs["kind"] == "raise" else ""), "flag": obs["iter"][-1][0] if obs["iter"] else None}
    if obs["kind"] != "ok":
        return out
    X = obs["X"].reshape(n, n).double()
    if not bool(torch.isfinite(X).all()):
        out["outcome"] = "nonfinite"
        return out
    eps_used = eps
    if cfg[0] == "ho" and not is_diag and n > 1:
        eps_used = max(cfg[1] * float(torch.linalg.matrix_norm(Ad, float("inf"))), eps)
    Xref, lmin, lmax = (mp_reference if use_mp else f64_reference)(Ad.double(), eps_used, p, q)
    cond = lmax / lmin
    r = p / q
    tol = 0.0
    dexp_term = 0.0
    if is_diag or cfg[0] == "eigen" or n == 1:
        dexp = abs(float(torch.as_tensor(-1.0 / Fraction(p, q))) + q / p)
        dexp_term = dexp * max(abs(math.log(lmin)), abs(math.log(lmax)))
    elif cfg[0] == "newton":
        tol = cfg[2]
    elif cfg[0] == "ho":
        tol = cfg[3]
    norm = n * u * cond / r + 10 * u + tol * cond + dexp_term
    err = float((X - Xref).norm() / Xref.norm())
    out.update({"rel_err": err, "cond": cond, "normaliser": norm, "c": err / norm})
    return out


# ------------------------------------------------------------------------------------------------
# guard clause of the higher-order solver (a direct test of the real code, no conditioning restriction):
# "the higher-order solver raises rather than return a result whose residual exceeds its guard"

GUARD = 0.1
GUARD_SLACK = 1e-3          # relative, for matmul reassociation


def gen_guard_inputs(rng, thorough: bool):
    """(A float64, p, eps, rel_eps, order, max_iter, tol, dtype, kind): ill-conditioned / rank-deficient PSD inputs, integer roots
    (q = 1, so the returned X is the X the guard looked at)."""
    import torch
    out = []
    # deterministic family: logspace spectra at / beyond the resolution of the dtype, Householder basis
    def householder(n):
        v = torch.cos(torch.arange(1, n + 1, dtype=torch.float64) * 1.3) + 1.5
        return torch.eye(n, dtype=torch.float64) - 2.0 * torch.outer(v, v) / torch.dot(v, v)
    fam = [(16, 8, 2, 3), (16, 8, 4, 3), (64, 8, 2, 3), (32, 9, 2, 2), (32, 8, 2, 4), (8, 12, 4, 3), (4, 6, 2, 3), (24, 10, 3, 4), (48, 7, 1, 3), (12, 11, 8, 2)]
    for dtype in ("float32", "float64"):
        for n, ce, p, order in fam:
            ev = torch.logspace(0, -ce, n, dtype=torch.float64)
            Q = householder(n)
            A = Q @ torch.diag(ev) @ Q.T
            out.append(((A + A.T) / 2, p, 10.0 ** (-ce - 1), 0.0, order, 100, 1e-8, dtype, f"logspace-1e{ce}"))
    # random family
    count = 400 if thorough else 50
    for k in range(count):
        dtype = ("float32", "float64")[k % 2]
        n = rng.choice([4, 6, 8, 12, 16, 24, 32, 48, 64])
        kind = ("psd", "rankdef", "psd", "repeated")[k % 4]
        scale = 10 ** rng.uniform(-3, 3)
        ce = rng.uniform(4, 12)
        lam = mfh.spectrum(rng, n, kind, scale, 10 ** ce)
        A = mfh.make_sym(lam, rng.randrange(1 << 40))
        eps = scale * 10 ** (-ce - rng.uniform(0, 2)) if kind != "rankdef" else scale * 10 ** rng.uniform(-12, -6)
        p = rng.choice([1, 2, 2, 3, 4, 4, 8])
        order = rng.choice([2, 3, 3, 4])
        rel = rng.choice([0.0, 0.0, 0.0, 1e-12])
        out.append((A, p, eps, rel, order, rng.choice([100, 100, 20, 5]), rng.choice([1e-8, 1e-8, 1e-6, 1e-12]), dtype, kind + f"-1e{ce:.0f}"))
    return out


def guard_one(A, p: int, eps: float, rel: float, order: int, max_iter: int, tol: float, dtype: str) -> dict:
    """Run the higher-order path of matrix_inverse_root; if it RETURNS, recompute max|A_ridge X^p - I| from the returned X in the
    same dtype with the documented formula and compare with the guard and with the routine's own 5th return value."""
    import torch
    tdt = getattr(torch, dtype)
    Ad = A.to(tdt)
    Ad = (Ad + Ad.T) / 2
    case = mfh.new_case(Ad.double(), p, 1, ("ho", rel, max_iter, tol, order), eps, False)
    obs = mfh.observe(case, dtype=dtype)
    r: dict = {"outcome": obs["kind"] + (":" + obs["exc"] if obs["kind"] == "raise" else "")}
    if obs["kind"] != "ok":
        return r
    n = Ad.shape[0]
    X = obs["X"].reshape(n, n)
    eps_used = max(rel * float(torch.linalg.matrix_norm(Ad, float("inf"))), eps)
    I = torch.eye(n, dtype=tdt)
    Ar = torch.add(Ad, I, alpha=eps_used)
    res = float(torch.linalg.vector_norm(Ar @ torch.linalg.matrix_power(X.to(tdt), p) - I, float("inf")))
    res64 = float((Ar.double() @ torch.linalg.matrix_power(X.double(), p) - I.double()).abs().max())
    r.update({"residual": res, "residual_float64": res64, "finite": bool(torch.isfinite(X).all())})
    if obs["iter"]:
        fl, it, terr = obs["iter"][-1]
        r.update({"flag": fl, "iterations": it, "reported_true_error": terr})
    return r


# ------------------------------------------------------------------------------------------------
# converged-flag clause (direct test of the real code): "an iterative solver that reports convergence has met its tolerance"
# on STRUCTURED inputs (constant diagonals, rank one, correlation matrices ...) as well as random ones, every integer root 1..8.

CONV_C = 256.0       # slack constant in  residual <= tol*(1+1e-3) + CONV_C * p * n * u * cond   (X^p A_ridge = M exactly over the reals: newton_invariant)


def structured_matrices(rng, thorough: bool):
    """[(name, A float64)] - unit-scale structured symmetric PSD matrices."""
    import torch
    out = []
    for n in range(2, 9):                                     # rank one, entries +-a
        for pat in ("same", "alt", "rand"):
            g = torch.tensor([1.0 if pat == "same" else ((-1.0) ** i if pat == "alt" else rng.choice([-1.0, 1.0])) for i in range(n)], dtype=torch.float64)
            out.append((f"rank1-{pat}-n{n}", torch.outer(g, g)))
    rhos = [i / 20 for i in range(0, 20)] + [6.0 ** -0.5, 0.99]
    for n in (2, 3, 4, 5, 6, 8):                              # equicorrelation
        for rho in (rhos if thorough or n <= 4 else rhos[::3] + [6.0 ** -0.5]):
            out.append((f"equicorr-n{n}-rho{rho:.4f}", torch.full((n, n), rho, dtype=torch.float64).fill_diagonal_(1.0)))
    for k in (1, 2, 3, 4):                                    # block correlation kron(I_k, [[1,r],[r,1]])
        for r in [0.0, 0.1, 0.25, 0.4, 0.5, 0.6, 0.7, 0.75, 0.8, 0.9, 0.95, 0.999]:
            B = torch.tensor([[1.0, r], [r, 1.0]], dtype=torch.float64)
            out.append((f"blockcorr-k{k}-r{r}", torch.kron(torch.eye(k, dtype=torch.float64), B)))
    for n in (3, 4, 5, 6, 8):                                 # constant-diagonal Toeplitz (AR(1)) and circulant
        for rho in (0.1, 0.3, 0.5, 0.7, 0.9):
            idx = torch.arange(n)
            d = (idx[:, None] - idx[None, :]).abs()
            out.append((f"toeplitz-n{n}-rho{rho}", torch.tensor(rho, dtype=torch.float64) ** d))
            dc = torch.minimum(d, n - d)
            out.append((f"circulant-n{n}-rho{rho}", torch.tensor(rho, dtype=torch.float64) ** dc))
    for n in (2, 3, 5, 8):                                    # identities and diagonal matrices with repeated entries
        out.append((f"identity-n{n}", torch.eye(n, dtype=torch.float64)))
        out.append((f"diag-repeated-n{n}", torch.diag(torch.tensor([1.0 if i % 2 == 0 else 0.25 for i in range(n)], dtype=torch.float64))))
    for k in range(60 if thorough else 20):                   # random PSD
        n = rng.randint(2, 8)
        lam = mfh.spectrum(rng, n, ("psd", "rankdef", "repeated")[k % 3], 1.0, 10 ** rng.uniform(0, 5))
        out.append((f"random-n{n}", mfh.make_sym(lam, rng.randrange(1 << 40))))
    keep = []
    for name, A in out:
        A = (A + A.T) / 2
        if float(torch.linalg.eigvalsh(A)[0]) >= -1e-12:
            keep.append((name, A))
    return keep


def converged_one(A, p: int, q: int, eps: float, solver: str, tol: float, max_iter: int, order: int, dtype: str) -> dict:
    """Call the private solver (5-tuple).  If it reports CONVERGED recompute, in the working dtype, (a) max|M - I| from the returned M and
    (b) max|A_ridge X^p - I| from the returned X (integer roots)."""
    import torch
    import matrix_functions as mf
    tdt = getattr(torch, dtype)
    u = U[dtype]
    Ad = A.to(tdt)
    n = Ad.shape[0]
    try:
        with mfh.quiet():
            if solver == "newton":
                X, M, flag, it, err = mf._matrix_inverse_root_newton(Ad, root=p, epsilon=eps, max_iterations=max_iter, tolerance=tol)
            else:
                X, M, flag, it, err = mf._matrix_inverse_root_higher_order(Ad, root=Fraction(p, q), rel_epsilon=0.0, abs_epsilon=eps, max_iterations=max_iter,
                                                                           tolerance=tol, order=order)
    except Exception as ex:  # noqa
        return {"outcome": "raise:" + type(ex).__name__}
    r: dict = {"outcome": "ok:" + flag.name, "iterations": int(it), "reported_error": float(err), "_M": M.detach().clone()}
    if flag.name != "CONVERGED":
        return r
    I = torch.eye(n, dtype=tdt)
    Ar = torch.add(Ad, I, alpha=eps)
    r["M_dev"] = float((M - I).abs().max())
    r["M_limit"] = tol * (1 + 1e-6)          # no rounding slack: the routine's own test is on exactly this quantity, so sub-epsilon tolerances count too
    ev = torch.linalg.eigvalsh(Ar.double())
    cond = float(ev[-1] / ev[0]) if float(ev[0]) > 0 else float("inf")
    r["cond"] = cond
    if q == 1:
        r["residual"] = float((Ar @ torch.linalg.matrix_power(X, p) - I).abs().max())
        r["residual_limit"] = tol * (1 + 1e-3) + CONV_C * p * n * u * cond
        r["residual_c"] = max(0.0, r["residual"] - tol * (1 + 1e-3)) / (p * n * u * cond) if cond < float("inf") else 0.0
    return r


def gen_converged_inputs(rng, thorough: bool):
    """(name, A, p, q, eps, solver, tol, max_iter, order, dtype)"""
    out = []
    mats = structured_matrices(rng, thorough)
    k = 0
    for name, A0 in mats:
        for p in range(1, 9):
            scales = [10 ** rng.uniform(-3, 3)] if not thorough else [1.0, 10 ** rng.uniform(-3, 3)]
            for scale in scales:
                for eps_rel in (0.0, 1e-12, 1e-6):
                    dtype = ("float32", "float64")[k % 2]
                    k += 1
                    tol = rng.choice([1e-6, 1e-6, 1e-4, 1e-8, 1e-9] if dtype == "float32" else [1e-6, 1e-8, 1e-4, 1e-12, 1e-17])
                    eps = eps_rel * scale if eps_rel == 1e-6 else eps_rel
                    out.append((name, A0 * scale, p, 1, eps, "newton", tol, 100, 0, dtype))
        # higher order: three integer roots per matrix + one fractional
        for p, q in [(rng.randint(1, 8), 1), (rng.randint(1, 8), 1), (2 * (A0.shape[0]) - 1 if A0.shape[0] <= 4 else 4, 1), rng.choice([(3, 2), (4, 3), (5, 2), (2, 3)])]:
            scale = 10 ** rng.uniform(-3, 3)
            dtype = ("float32", "float64")[k % 2]
            k += 1
            eps = rng.choice([1e-12, 1e-6 * scale, 1e-6 * scale])
            out.append((name, A0 * scale, p, q, eps, "ho", (1e-6, 1e-8, 1e-4)[k % 3], 100, rng.choice([2, 3, 3, 4]), dtype))
    return out


CONFIGS = [("eigen", False), ("eigen", True), ("newton", 100, 1e-6), ("ho", 0.0, 100, 1e-8, 3)]


def gen_accuracy_inputs(rng, thorough: bool):
    """(A, p, q, cfg, eps, dtype, use_mp, is_diag, kind)"""
    out = []
    plan = []
    # 50-digit reference, n <= 16, both dtypes
    for dtype in ("float64", "float32"):
        for n in ([1, 2, 3, 5, 8, 12, 16] if not thorough else list(range(1, 17))):
            plan.append((dtype, n, True))
    # float64 reference for float32 runs up to n = 128
    for n in ([24, 48, 96, 128] if not thorough else [20, 24, 32, 48, 64, 96, 128]):
        plan.append(("float32", n, False))
    reps = 6 if thorough else 2
    k = 0
    for dtype, n, use_mp in plan:
        u = U[dtype]
        for cfg in CONFIGS:
            for _ in range(reps):
                kind = ["psd", "rankdef", "psd", "repeated"][k % 4]
                scale = 10 ** rng.uniform(-6, 6)
                maxc = math.log10(0.1 / u)
                cond = 10 ** rng.uniform(0, maxc if cfg[0] == "eigen" else min(maxc, 9))
                lam = mfh.spectrum(rng, n, kind, scale, cond)
                A = mfh.make_sym(lam, rng.randrange(1 << 40))
                if kind == "rankdef" or cfg[0] != "eigen":
                    eps = scale * 10 ** rng.uniform(-min(maxc, 9 if cfg[0] != "eigen" else 99), -1)
                else:
                    eps = scale / cond * 10 ** rng.uniform(-2, 0)
                if cfg[0] == "newton":
                    p, q = [(1, 1), (2, 1), (3, 1), (4, 1), (8, 1)][k % 5]
                else:
                    p, q = mfh.ROOTS[k % len(mfh.ROOTS)]
                k += 1
                out.append((A, p, q, cfg, eps, dtype, use_mp, False, kind))
    # targeted classes (quantifier audit): structured / zero matrices, Fraction(r / exponent_multiplier) and large roots, eps >= scale,
    # a float64 size beyond 16 with the 50-digit reference
    int_roots = [(1, 1), (2, 1), (3, 1), (4, 1), (5, 1), (6, 1), (7, 1), (8, 1)]
    eig_roots = mfh.ROOTS_EXTRA + [mfh.multiplier_root(r, m) for r in (2, 4, 8) for m in mfh.MULTIPLIERS[:3]]
    for dtype in ("float64", "float32"):
        u = U[dtype]
        for kind in mfh.STRUCTURED + ["zero"]:
            for cfg in CONFIGS:
                n = (2, 3, 5, 8, 13)[k % 5]
                scale = 10 ** rng.uniform(-6, 6)
                A = mfh.structured(rng, n, kind, scale) if kind != "zero" else mfh.make_sym([0.0] * n, 0)
                base = scale if kind != "zero" else 1.0
                eps = base * 10 ** rng.uniform(-5, -1)
                p, q = int_roots[k % 8] if cfg[0] == "newton" else (eig_roots[k % len(eig_roots)] if cfg[0] == "eigen" else (mfh.ROOTS + [(5, 1), (7, 1)])[k % 12])
                k += 1
                out.append((A, p, q, cfg, eps, dtype, True, False, "struct:" + kind if kind != "zero" else "zero"))
        for cfg in CONFIGS:
            n = (4, 9)[k % 2]
            scale = 10 ** rng.uniform(-6, 6)
            A = mfh.make_sym(mfh.spectrum(rng, n, "psd", scale, 1e3), rng.randrange(1 << 40))
            p, q = int_roots[k % 4]
            k += 1
            out.append((A, p, q, cfg, scale * rng.choice([1.0, 30.0, 1e3]), dtype, True, False, "eps>=scale"))
    for cfg in CONFIGS:
        scale = 10 ** rng.uniform(-3, 3)
        A = mfh.make_sym(mfh.spectrum(rng, 24, "psd", scale, 10 ** rng.uniform(2, 8 if cfg[0] == "eigen" else 5)), rng.randrange(1 << 40))
        out.append((A, *int_roots[k % 4], cfg, scale * 1e-6 if cfg[0] != "eigen" else scale * 1e-9, "float64", True, False, "psd-n24-mp"))
        k += 1
    # roots Fraction(r / multiplier) from multipliers with many digits, and roots whose exponent is a binary32 number, against the 50-digit
    # reference AT THE REQUESTED ROOT, float64, cond 1e4..1e8 (eigen configurations; the iterative solvers never get such roots)
    for j, (p, q) in enumerate(mfh.awkward_roots(rng, 24 if thorough else 14)):
        n = (2, 4, 8, 12)[j % 4]
        scale = 10 ** rng.uniform(-3, 3)
        cond = 10 ** rng.uniform(4, 8)
        A = mfh.make_sym(mfh.spectrum(rng, n, "psd", scale, cond), rng.randrange(1 << 40))
        out.append((A, p, q, ("eigen", j % 2 == 0), scale / cond * 0.1, "float64", True, False, "root:awkward"))
    for j, (p, q) in enumerate(mfh.awkward_roots(rng, 4)):
        scale = 10 ** rng.uniform(-3, 3)
        out.append((mfh.structured(rng, 4, "diag-nonascending", scale), p, q, ("eigen", False), scale * 1e-7, "float64", True, True, "root:awkward"))
        out.append((mfh.make_sym([scale * 1e-5], 0), p, q, ("eigen", False), scale * 1e-9, "float64", True, False, "root:awkward"))
    # fast paths: diagonal flag and 1x1 against the same references
    for dtype in ("float64", "float32"):
        for n in (1, 4, 16):
            scale = 10 ** rng.uniform(-6, 6)
            lam = mfh.spectrum(rng, n, "psd", scale, 10 ** rng.uniform(0, 5))
            A = mfh.make_sym(lam, 0, diagonal=True)
            p, q = mfh.ROOTS[k % len(mfh.ROOTS)]
            k += 1
            out.append((A, p, q, ("eigen", False), scale * 1e-6, dtype, True, n > 1, "diagonal"))
    return out


# ------------------------------------------------------------------------------------------------


def run(ck: Check) -> None:
    import torch
    common.assert_repo_imports()
    torch.set_num_threads(1)
    ck.coq_props()
    gen_targets.run(ck)          # translator tie: Gallina regenerated from the source + coq/gen/EquivC10.v
    thorough = ck.tier == "thorough"

    # ---- 1. the tie ------------------------------------------------------------------------------
    cases = gen_tie_cases(ck.rng, 3000 if thorough else 320) + gen_targeted_tie_cases(ck.rng)
    observations = [mfh.observe(c) for c in cases]
    def agree_any(c, o):
        if c["tag"] == "noisefloor" and o["kind"] == "ok" and o["iter"]:
            n = mfh.case_n(c)
            # flag and iteration count are decided by rounding noise here (an error of exactly 0 gives CONVERGED, otherwise EARLY_STOP): X only
            return (f"(match {mfh.model_term(c, o)} with Ok out => mclose {coq_float(mfh.TOL_ITER)} {n}%nat (oX out) (rows {mfh.coq_rows(o['X'].reshape(n, n).tolist())}) "
                    f"| _ => false end)")
        return mfh.agree_term(c, o)
    agree_col = [agree_any(c, o) for c, o in zip(cases, observations)]
    query_col = [mfh.query_term(c, o) for c, o in zip(cases, observations)]
    frag_col, xonly_col = [], []
    for c, o in zip(cases, observations):
        if c["cfg"][0] in ("newton", "ho") and not c["is_diag"] and mfh.case_n(c) > 1:
            tolc = c["cfg"][2] if c["cfg"][0] == "newton" else c["cfg"][3]
            m = mfh.model_term(c, o)
            frag_col.append(f"fragile {coq_float(tolc)} {m}")
            xonly_col.append(f"agree_X_only {coq_float(mfh.TOL_ITER)} {mfh.case_n(c)}%nat {m} {mfh.obs_term(c, o)}")
        else:
            frag_col.append("false")
            xonly_col.append("false")
    chk_terms = [c10_check_term(c, o) for c, o in zip(cases, observations)]
    chk_col = [t if t is not None else "true" for t in chk_terms]
    eig_terms = [eigpair_check_term(c, o) for c, o in zip(cases, observations)]
    conv_terms = []
    for c, o in zip(cases, observations):
        if o["kind"] == "ok" and o["iter"] and o.get("iter_M") and c["cfg"][0] in ("newton", "ho"):
            tolc = c["cfg"][2] if c["cfg"][0] == "newton" else c["cfg"][3]
            fl, _, err = o["iter"][-1]
            conv_terms.append(conv_flag_term(mfh.case_n(c), o["iter_M"][-1], fl, err if c["cfg"][0] == "newton" else 0.0, tolc))
        else:
            conv_terms.append(None)
    agree_s, query_s, frag_s, xonly_s, chk_s, eig_s, conv_s = mfh.eval_bool_lists(
        ck, "c10", [agree_col, query_col, frag_col, xonly_col, chk_col, [t or "true" for t in eig_terms], [t or "true" for t in conv_terms]], per_file=12)
    inconclusive = [i for i in range(len(cases)) if agree_s[i] != "T" and frag_s[i] == "T" and (xonly_s[i] == "T" or observations[i]["kind"] == "raise")]
    bad = [i for i in range(len(cases)) if (agree_s[i] != "T" or query_s[i] != "T") and i not in inconclusive]
    chk_fail = [i for i in range(len(cases)) if chk_terms[i] is not None and chk_s[i] != "T"]
    eig_fail = [i for i in range(len(cases)) if eig_terms[i] is not None and eig_s[i] != "T"]
    conv_fail = [i for i in range(len(cases)) if conv_terms[i] is not None and conv_s[i] != "T"]

    def rep(i):
        c, o = cases[i], observations[i]
        return {"case": {k: c[k] for k in ("shape", "A", "p", "q", "cfg", "eps", "is_diag", "tag")},
                "impl_outcome": o["kind"] + (":" + o["exc"] if o["kind"] == "raise" else ""), "impl_status": o["iter"],
                "impl_X": o["X"].tolist() if o["kind"] == "ok" else None}

    if conv_fail:
        i = min(conv_fail, key=lambda i: (mfh.case_n(cases[i]), i))
        c = cases[i]
        ck.report(None, f"{c['cfg'][0]} solver reports {observations[i]['iter'][-1]} for the configured tolerance {c['cfg'][2] if c['cfg'][0] == 'newton' else c['cfg'][3]:g}: "
                        f"CONVERGED although |M - I|max of the returned coupled matrix (or the returned error) exceeds the tolerance (conv_flag_checkb false) on a "
                        f"{mfh.case_n(c)}x{mfh.case_n(c)} {c['tag']} input, root {c['p']}/{c['q']}",
                  {"kind": "property-fails", "predicate": "conv_flag_checkb", "n_failing": len(conv_fail), "impl_M": observations[i]["iter_M"][-1].tolist(), **rep(i)})
    if eig_fail:
        i = min(eig_fail, key=lambda i: (mfh.case_n(cases[i]), i))
        c = cases[i]
        ck.report(None, f"returned matrix is not (A + eps I)^(-1/r) for the REQUESTED root r = {c['p']}/{c['q']} (eigpair_checkb false: on a recorded eigenpair X v differs from "
                        f"d^e v) on a {mfh.case_n(c)}x{mfh.case_n(c)} {c['tag']} input, cfg {c['cfg']}",
                  {"kind": "property-fails", "predicate": "eigpair_checkb", "n_failing": len(eig_fail), "model_agrees": i not in bad, **rep(i)})
    if chk_fail:
        i = min(chk_fail, key=lambda i: (mfh.case_n(cases[i]), i))
        c = cases[i]
        ck.report(None, f"returned matrix is not the inverse {c['p']}/{c['q']}-th root within the solver's promise (C10_checkb false: |X^p (A+eps I)^q - I|max too large, "
                        f"non-finite or asymmetric) on a {mfh.case_n(c)}x{mfh.case_n(c)} {c['tag']} input, cfg {c['cfg']}, is_diagonal={c['is_diag']}, status {observations[i]['iter']}",
                  {"kind": "property-fails", "predicate": "C10_checkb", "n_failing": len(chk_fail), "model_agrees": i not in bad, **rep(i)})
    elif bad and not eig_fail and not conv_fail:
        i = min(bad, key=lambda i: (mfh.case_n(cases[i]), i))
        c = cases[i]
        ck.report(None, f"model/implementation correspondence broken ({len(bad)} cases; first: shape {c['shape']} root {c['p']}/{c['q']} cfg {c['cfg']} is_diagonal={c['is_diag']}, "
                        f"impl {observations[i]['kind']} {observations[i].get('exc', '')} {observations[i]['iter']}) but the implementation's outputs still pass C10_checkb",
                  {"kind": "correspondence", "broken": "MFAgree.agree / eigen_query (model matrix_inverse_root vs implementation)", "n_disagree": len(bad),
                   "agree": agree_s[i], "query": query_s[i], **rep(i),
                   "theorems_not_transferring": ["C10_eigen_root_exact", "C10_enhance_stability_same", "C10_fastpaths_eq_general", "C10_newton_invariant",
                                                 "C10_converged_flag_sound", "C10_higher_order_guard", "C10_newton_rejects_fractional_root"]}, no_failing_input=True)

    state_fail = [i for i, o in enumerate(observations) if o.get("input_mutated") or o.get("second_call_differs")]
    if state_fail:
        i = state_fail[0]
        ck.report(None, f"matrix_inverse_root {'modified its input tensor' if observations[i].get('input_mutated') else 'returned a different matrix on a second call with the same tensor'} "
                        f"(shape {cases[i]['shape']}, cfg {cases[i]['cfg']}, layout {cases[i].get('layout')})",
                  {"kind": "property-fails", "predicate": "repeatability / input left untouched", "n_failing": len(state_fail), **rep(i)})

    # ---- 2. measured accuracy ----------------------------------------------------------------------
    ainputs = gen_accuracy_inputs(ck.rng, thorough)
    worst: dict = {}
    outcomes: dict = {}
    acc_viol = None
    n_measured = 0
    for (A, p, q, cfg, eps, dtype, use_mp, is_diag, kind) in ainputs:
        r = accuracy_one(A, p, q, cfg, eps, dtype, use_mp, is_diag)
        key = ("diagflag/1x1" if (is_diag or A.shape[0] == 1) else cfg[0] + (":stab" if cfg[0] == "eigen" and cfg[1] else "")) + "/" + dtype
        oc = r["outcome"] + (":" + r["flag"] if r.get("flag") else "")
        outcomes[key + " " + oc] = outcomes.get(key + " " + oc, 0) + 1
        what = None
        if r["outcome"] == "nonfinite":
            what = "non-finite inverse root on a PSD input"
        elif r["outcome"].startswith("raise") and not (cfg[0] == "ho" and r["outcome"] == "raise:ArithmeticError"):
            what = f"unexpected exception {r['outcome']} on a PSD input"
        elif r["outcome"] == "ok" and r.get("flag") != "REACHED_MAX_ITERS":
            n_measured += 1
            if r["c"] > worst.get(key, (0.0,))[0]:
                worst[key] = (r["c"], r["rel_err"], r["cond"], A.shape[0], f"{p}/{q}")
            if r["c"] > BUDGET:
                what = f"relative error {r['rel_err']:.3e} = {r['c']:.3g} x (n*u*cond/r + 10u + tol*cond + exponent term) exceeds the budget {BUDGET} (cond {r['cond']:.2e})"
        if what and acc_viol is None:
            acc_viol = (what, {"kind": "measured-accuracy", "dtype": dtype, "matrix_kind": kind, "A": A.tolist(), "p": p, "q": q, "cfg": list(cfg), "eps": eps,
                               "use_mp": use_mp, "is_diag": is_diag, "measured": r})
    if acc_viol:
        ck.report(None, f"measured C10 accuracy clause fails on the real routine ({acc_viol[1]['cfg']}, {acc_viol[1]['dtype']}, n={len(acc_viol[1]['A'])}): {acc_viol[0]}", acc_viol[1])

    # ---- 3. guard clause of the higher-order solver (direct test of the real code) --------------------
    ginputs = gen_guard_inputs(ck.rng, thorough)
    g_out: dict = {}
    g_worst = 0.0
    g_worst_gap = 0.0
    g_viol = []
    for (A, p, eps, rel, order, mi, tol, dtype, kind) in ginputs:
        r = guard_one(A, p, eps, rel, order, mi, tol, dtype)
        key = dtype + " " + r["outcome"] + (":" + r["flag"] if r.get("flag") else "")
        g_out[key] = g_out.get(key, 0) + 1
        if r["outcome"] != "ok":
            continue
        what = None
        limit = GUARD * (1 + GUARD_SLACK)
        if not r["finite"]:
            what = "returned a non-finite matrix"
        elif not (r["residual"] <= limit):
            what = (f"returned X whose residual max|A_ridge X^p - I| = {r['residual']:.3e} (recomputed in {dtype} from the returned X; {r['residual_float64']:.3e} in float64) "
                    f"exceeds its guard {GUARD}")
        elif "reported_true_error" in r and abs(r["reported_true_error"] - r["residual"]) > 1e-3 * max(r["residual"], r["reported_true_error"]) + 1e-6:
            what = f"reported true_error {r['reported_true_error']:.3e} is not the residual of the returned X ({r['residual']:.3e})"
        else:
            g_worst = max(g_worst, r["residual"])
            if "reported_true_error" in r:
                g_worst_gap = max(g_worst_gap, abs(r["reported_true_error"] - r["residual"]))
        if what:
            g_viol.append((A.shape[0], what, {"kind": "guard-clause", "dtype": dtype, "matrix_kind": kind, "A": A.tolist(), "p": p, "eps": eps, "rel_epsilon": rel,
                                              "order": order, "max_iterations": mi, "tolerance": tol, "measured": r}))
    if g_viol:
        g_viol.sort(key=lambda v: (0 if ("exceeds its guard" in v[1] or "non-finite" in v[1]) else 1, v[0]))   # a broken guard first, smallest n first
        nA, what, robj = g_viol[0]
        # certified confirmation on the smallest failing input when it is small enough for vm_compute: C10_checkb in binary64
        if nA <= 16:
            import torch
            A64 = torch.tensor(robj["A"], dtype=torch.float64).to(getattr(torch, robj["dtype"])).double()
            A64 = (A64 + A64.T) / 2
            c = mfh.new_case(A64, robj["p"], 1, ("ho", robj["rel_epsilon"], robj["max_iterations"], robj["tolerance"], robj["order"]), robj["eps"], False)
            o = mfh.observe(c, dtype=robj["dtype"])
            if o["kind"] == "ok":
                eps_used = max(robj["rel_epsilon"] * float(torch.linalg.matrix_norm(A64, float("inf"))), robj["eps"])
                X64 = o["X"].double()
                term = (f"(C10_checkb fo {nA}%nat {robj['p']}%nat 1%nat (rows {mfh.coq_rows(A64.tolist())}) {coq_float(eps_used)} (rows {mfh.coq_rows(X64.tolist())}) "
                        f"{coq_float(3 * GUARD)} {coq_float(float('inf'))})")
                robj["C10_checkb_with_3x_guard_in_binary64"] = mfh.eval_bool_lists(ck, "c10g", [[term]], per_file=1)[0]
        robj["n_failing"] = len(g_viol)
        ck.report(None, f"higher-order solver ({robj['dtype']}, n={nA}, root {robj['p']}, order {robj['order']}, {robj['matrix_kind']}, eps {robj['eps']:.2e}) {what}", robj)

    # ---- 4. converged-flag clause on structured inputs (direct test of the real code) -------------------
    cinputs = gen_converged_inputs(ck.rng, thorough)
    c_out: dict = {}
    c_viol = []
    c_worst = {"M_dev_over_tol": 0.0, "residual_c": 0.0}
    c_converged = 0
    c_terms, c_term_info = [], []
    c_subeps = 0
    for ci, (name, A, p, q, eps, solver, tol, mi, order, dtype) in enumerate(cinputs):
        r = converged_one(A, p, q, eps, solver, tol, mi, order, dtype)
        key = solver + " " + dtype + " " + r["outcome"]
        c_out[key] = c_out.get(key, 0) + 1
        Mret = r.pop("_M", None)
        subeps = tol <= 20 * U[dtype]
        c_subeps += int(subeps and Mret is not None)
        pyfail = r["outcome"] == "ok:CONVERGED" and (not (r["M_dev"] <= r["M_limit"]) or (solver == "newton" and not (r["reported_error"] <= r["M_limit"])))
        if Mret is not None and (subeps or pyfail or ci % 8 == 0):
            # the certified checker decides, in coqc, on what the routine returned: CONVERGED => |M - I|max <= configured tolerance (and the returned error, Newton)
            c_terms.append(conv_flag_term(A.shape[0], Mret, r["outcome"][3:], r["reported_error"] if solver == "newton" else 0.0, tol * (1 + 1e-6)))
            c_term_info.append((A.shape[0], {"kind": "converged-flag-clause", "matrix": name, "dtype": dtype, "solver": solver, "A": A.tolist(), "p": p, "q": q, "eps": eps,
                                             "tolerance": tol, "max_iterations": mi, "order": order, "measured": r, "returned_M": Mret.tolist()}))
        if r["outcome"] != "ok:CONVERGED":
            continue
        c_converged += 1
        what = None
        if solver == "newton" and not (r["reported_error"] <= r["M_limit"]):
            what = f"reports CONVERGED after {r['iterations']} iterations with a returned error {r['reported_error']:.3e} > configured tolerance {tol:g}"
        elif not (r["M_dev"] <= r["M_limit"]):
            what = (f"reports CONVERGED after {r['iterations']} iterations (reported error {r['reported_error']:.2e}) but max|M - I| of the returned coupled matrix is "
                    f"{r['M_dev']:.3e} > tolerance {tol:g}")
        elif "residual" in r and not (r["residual"] <= r["residual_limit"]):
            what = (f"reports CONVERGED but the residual max|A_ridge X^p - I| of the returned X is {r['residual']:.3e} > tolerance {tol:g} + {CONV_C}*p*n*u*cond "
                    f"(= {r['residual_limit']:.3e})")
        else:
            c_worst["M_dev_over_tol"] = max(c_worst["M_dev_over_tol"], r["M_dev"] / tol)
            c_worst["residual_c"] = max(c_worst["residual_c"], r.get("residual_c", 0.0))
        if what:
            c_viol.append((A.shape[0], what, {"kind": "converged-flag-clause", "matrix": name, "dtype": dtype, "solver": solver, "A": A.tolist(), "p": p, "q": q, "eps": eps,
                                              "tolerance": tol, "max_iterations": mi, "order": order, "measured": r}))
    c_cert = mfh.eval_bool_lists(ck, "c10v", [c_terms], per_file=150)[0] if c_terms else ""
    cert_fail = [info for info, b in zip(c_term_info, c_cert) if b != "T"]
    if cert_fail:
        cert_fail.sort(key=lambda v: (v[0], v[1]["p"]))
        nA, robj = cert_fail[0]
        robj["n_failing"] = len(cert_fail)
        robj["decided_by"] = "conv_flag_checkb evaluated in coqc on the returned coupled matrix, flag and error"
        ck.report(None, f"{robj['solver']} solver ({robj['dtype']}, {robj['matrix']}, n={nA}, root {robj['p']}/{robj['q']}) reports CONVERGED after {robj['measured']['iterations']} iterations for the "
                        f"configured tolerance {robj['tolerance']:g}, but |M - I|max of the returned coupled matrix is {robj['measured'].get('M_dev', float('nan')):.3e} "
                        f"(returned error {robj['measured']['reported_error']:.3e}): conv_flag_checkb false", robj)
    elif c_viol:
        c_viol.sort(key=lambda v: (0 if v[2]["measured"].get("cond", float("inf")) < 1e12 else 1, v[0], v[2]["p"]))   # decidable by the Coq checker first, then smallest
        nA, what, robj = c_viol[0]
        if robj["q"] == 1 and robj["measured"].get("cond", float("inf")) < 1e12:
            import torch
            import matrix_functions as mf
            tdt = getattr(torch, robj["dtype"])
            Ad = torch.tensor(robj["A"], dtype=torch.float64).to(tdt)
            with mfh.quiet():
                if robj["solver"] == "newton":
                    Xr = mf._matrix_inverse_root_newton(Ad, root=robj["p"], epsilon=robj["eps"], max_iterations=robj["max_iterations"], tolerance=robj["tolerance"])[0]
                else:
                    Xr = mf._matrix_inverse_root_higher_order(Ad, root=Fraction(robj["p"]), rel_epsilon=0.0, abs_epsilon=robj["eps"], max_iterations=robj["max_iterations"],
                                                              tolerance=robj["tolerance"], order=robj["order"])[0]
            lim = robj["tolerance"] * (1 + 1e-3) + CONV_C * robj["p"] * nA * U[robj["dtype"]] * robj["measured"]["cond"]
            term = (f"(C10_checkb fo {nA}%nat {robj['p']}%nat 1%nat (rows {mfh.coq_rows(Ad.double().tolist())}) {coq_float(robj['eps'])} (rows {mfh.coq_rows(Xr.double().tolist())}) "
                    f"{coq_float(lim)} {coq_float(float('inf'))})")
            robj["clause_b_only__C10_checkb_in_binary64_with_the_same_residual_limit"] = mfh.eval_bool_lists(ck, "c10c", [[term]], per_file=1)[0]
        robj["n_failing"] = len(c_viol)
        ck.report(None, f"{robj['solver']} solver ({robj['dtype']}, {robj['matrix']}, n={nA}, root {robj['p']}/{robj['q']}, eps {robj['eps']:.2e}) {what}", robj)

    # ---- evidence -----------------------------------------------------------------------------------
    nontriv = {(tuple(c["shape"]), c["p"], c["q"], c["cfg"], c["tag"]) for c, o in zip(cases, observations) if mfh.case_n(c) >= 2 and o["kind"] == "ok"}
    statuses = mfh.hist((c["cfg"][0] + ":" + o["iter"][-1][0] + f":{min(o['iter'][-1][1], 20)}it") for c, o in zip(cases, observations) if o["iter"])
    ck.coverage.update({
        "evaluations": len(cases) + len(ainputs) + len(ginputs) + len(cinputs),
        "distinct_nontrivial": len(nontriv),
        "rule": "tie: model (binary64; recorded eigh answer for the eigen paths, no oracle for the iterative solvers) vs real matrix_inverse_root: X normwise (1e-9 eigen / 1e-6 iterative), "
                "termination flag, iteration count, exceptions by class, eigh query; non-trivial = distinct (shape, root, config, kind) with n >= 2 on which a matrix was returned",
        "exhaustive": False,
        "samples": [mfh.case_brief(cases[0]), mfh.case_brief(cases[2]), mfh.case_brief(cases[4])],
        "distribution": {"n": mfh.hist(mfh.case_n(c) for c in cases), "matrix_kind": mfh.hist(c["tag"] for c in cases), "root": mfh.hist(f"{c['p']}/{c['q']}" for c in cases),
                         "config": mfh.hist(c["cfg"][0] + (":stab" if c["cfg"][0] == "eigen" and c["cfg"][1] else "") + (":diagflag" if c["is_diag"] else "") for c in cases),
                         "impl_outcome": mfh.hist(o["kind"] + (":" + o["exc"] if o["kind"] == "raise" else "") for o in observations),
                         "iterative_status": statuses},
        "disagreements": len(bad),
        "inconclusive": len(inconclusive),
        "inconclusive_rule": "flag/iteration count differ while X agrees and a decision of the model (error vs tolerance, 1.2x growth, stagnation, 0.1 guard) compared two numbers within 2^-20 relative",
        "checker_evaluated_on": sum(1 for t in chk_terms if t is not None),
        "checker_failures": len(chk_fail),
        "eigpair_checker_evaluated_on": sum(1 for t in eig_terms if t is not None), "eigpair_checker_failures": len(eig_fail),
        "conv_flag_checker_evaluated_on": sum(1 for t in conv_terms if t is not None), "conv_flag_checker_failures": len(conv_fail),
        "higher_order_guard_clause": {
            "what": "direct test of the real code, float32 and float64, cond 1e4..1e12, rank-deficient with tiny eps, n 4..64, orders 2..4, integer roots: whenever the routine returns, "
                    "max|A_ridge X^p - I| recomputed from the returned X in the same dtype must be <= 0.1 (+1e-3 relative) and equal the reported true_error",
            "inputs": len(ginputs), "outcomes": dict(sorted(g_out.items())), "violations": len(g_viol),
            "largest_returned_residual": float(f"{g_worst:.4g}"), "largest_gap_to_reported_true_error": float(f"{g_worst_gap:.3g}"),
        },
        "converged_flag_clause": {
            "what": "direct test of the real code: both iterative solvers (private 5-tuple) on structured families (rank one with entries +-a, equicorrelation, block correlation, "
                    "constant-diagonal Toeplitz / circulant, identities, repeated diagonals) and random PSD inputs, every integer root 1..8 (Newton) / integer + fractional (higher order), "
                    "eps in {0, 1e-12, 1e-6*scale}, scales 1e-3..1e3, float32 and float64; whenever CONVERGED is reported: max|M - I| of the returned M <= tol (no rounding slack, tolerances below machine epsilon included) and "
                    f"max|A_ridge X^p - I| of the returned X <= tol*(1+1e-3) + {CONV_C}*p*n*u*cond, both recomputed in the working dtype",
            "inputs": len(cinputs), "reported_converged": c_converged, "violations": len(c_viol), "outcomes": dict(sorted(c_out.items())),
            "tolerance_at_or_below_20u": c_subeps, "decided_by_conv_flag_checkb_in_coqc": len(c_terms), "conv_flag_checkb_failures": len(cert_fail),
            "worst_M_dev_over_tolerance": float(f"{c_worst['M_dev_over_tol']:.4g}"), "worst_residual_constant": float(f"{c_worst['residual_c']:.4g}"),
        },
        "MEASURED_not_proved": {
            "what": "relative Frobenius error of the real routine against (A + eps I)^(-q/p) computed with 50 digits (mpmath, n <= 16) or in float64 (float32 runs, n <= 128), "
                    "divided by n*u*cond/r + 10u + tol*cond (+ |fl32(1/r) - 1/r| * max|ln lambda| on the paths that carry the exponent in binary32); results flagged REACHED_MAX_ITERS "
                    "and ArithmeticError raised by the higher-order guard are counted, not scored; budget " + str(BUDGET),
            "inputs": len(ainputs), "scored": n_measured,
            "worst_constant_per_path": {k: {"c": float(f"{v[0]:.4g}"), "rel_err": float(f"{v[1]:.3g}"), "cond": float(f"{v[2]:.3g}"), "n": v[3], "root": v[4]} for k, v in sorted(worst.items())},
            "outcomes": dict(sorted(outcomes.items())),
        },
    })
    # ---- quantifier audit: measured counts of every input class the property names or plainly allows -------
    def cfgname(c):
        return ("diagflag" if c["is_diag"] else "1x1" if mfh.case_n(c) == 1 else c["cfg"][0] + (":stab" if c["cfg"][0] == "eigen" and c["cfg"][1] else ""))
    okc = [c for c, o in zip(cases, observations) if o["kind"] == "ok"]
    acc = ainputs
    audit = {
        **{"tie/config:" + k: sum(1 for c in cases if cfgname(c) == k) for k in ("eigen", "eigen:stab", "newton", "ho", "unknown", "diagflag", "1x1")},
        "tie/zero_matrix": sum(1 for c in cases if c["tag"].startswith("zero")),
        "tie/rank_deficient": sum(1 for c in cases if c["tag"].startswith("rankdef")),
        "tie/repeated_eigenvalues": sum(1 for c in cases if c["tag"].startswith("repeated")),
        **{"tie/struct:" + k: sum(1 for c in cases if c["tag"] == "struct:" + k) for k in mfh.STRUCTURED},
        "tie/diagonal_flag_non_ascending_diagonal": sum(1 for c in cases if c["tag"] == "diagflag:nonascending"),
        "tie/root_fractional": sum(1 for c in cases if c["q"] > 1 and c["q"] <= 1000),
        "tie/root=Fraction(r/exponent_multiplier)": sum(1 for c in cases if c["q"] > 1000),
        "tie/root<1": sum(1 for c in cases if 0 < c["p"] < c["q"]),
        "tie/root>=10": sum(1 for c in cases if c["p"] >= 10 * c["q"]),
        **{f"tie/iterative_integer_root_{r}": sum(1 for c in cases if c["cfg"][0] in ("newton", "ho") and not c["is_diag"] and c["q"] == 1 and c["p"] == r) for r in range(1, 9)},
        "tie/newton_fractional_root(ValueError)": sum(1 for c in cases if c["cfg"][0] == "newton" and c["q"] > 1 and not c["is_diag"] and mfh.case_n(c) > 1),
        "tie/max_iterations<=1": sum(1 for c in cases if (c["cfg"][0] == "newton" and c["cfg"][1] <= 1) or (c["cfg"][0] == "ho" and c["cfg"][2] <= 1)),
        "tie/tolerance_0_or_1": sum(1 for c in cases if (c["cfg"][0] == "newton" and c["cfg"][2] in (0.0, 1.0)) or (c["cfg"][0] == "ho" and c["cfg"][3] in (0.0, 1.0))),
        **{f"tie/ho_order_{o}": sum(1 for c in cases if c["cfg"][0] == "ho" and c["cfg"][4] == o) for o in (2, 3, 4, 5, 6)},
        "tie/ho_rel_epsilon>0": sum(1 for c in cases if c["cfg"][0] == "ho" and c["cfg"][1] > 0),
        "tie/tolerance_below_rounding_floor(X compared; flag decided by noise)": sum(1 for c in cases if c["tag"] == "noisefloor"),
        "tie/eps>=scale": sum(1 for c in cases if c["tag"] == "eps>=scale"),
        "tie/non_contiguous_input": sum(1 for c in cases if c.get("layout")),
        "tie/eigen_decomp_offload_device=cpu": sum(1 for c in cases if c["cfg"][0] == "eigen" and len(c["cfg"]) > 2),
        "tie/second_call_same_tensor": sum(1 for c in cases if c.get("twice")),
        "tie/input_checked_unmodified": len(cases),
        "tie/flag:REACHED_MAX_ITERS": sum(1 for o in observations if o["iter"] and o["iter"][-1][0] == "REACHED_MAX_ITERS"),
        "tie/flag:EARLY_STOP": sum(1 for o in observations if o["iter"] and o["iter"][-1][0] == "EARLY_STOP"),
        "tie/flag:CONVERGED": sum(1 for o in observations if o["iter"] and o["iter"][-1][0] == "CONVERGED"),
        "tie/ho_ArithmeticError": sum(1 for c, o in zip(cases, observations) if c["cfg"][0] == "ho" and o["kind"] == "raise" and o.get("exc") == "ArithmeticError"),
        **{f"accuracy/{dt}/{k}": sum(1 for a in acc if a[5] == dt and a[3][0] == k[0] and (k[0] != "eigen" or bool(a[3][1]) == k[1]) and not a[7])
           for dt in ("float32", "float64") for k in (("eigen", False), ("eigen", True), ("newton",), ("ho",))},
        **{f"accuracy/{dt}/n=1": sum(1 for a in acc if a[5] == dt and a[0].shape[0] == 1) for dt in ("float32", "float64")},
        "accuracy/float64/n>16(50-digit reference)": sum(1 for a in acc if a[5] == "float64" and a[0].shape[0] > 16),
        "accuracy/float32/n>=96(float64 reference)": sum(1 for a in acc if a[5] == "float32" and a[0].shape[0] >= 96),
        "accuracy/float32/n=128": sum(1 for a in acc if a[5] == "float32" and a[0].shape[0] == 128),
        "accuracy/rank_deficient": sum(1 for a in acc if a[8] == "rankdef"),
        "accuracy/zero_matrix": sum(1 for a in acc if a[8] == "zero"),
        "accuracy/structured": sum(1 for a in acc if a[8].startswith("struct:")),
        "accuracy/eps>=scale": sum(1 for a in acc if a[8] == "eps>=scale"),
        "accuracy/root_fractional": sum(1 for a in acc if 1 < a[2] <= 1000),
        "accuracy/root=Fraction(r/exponent_multiplier)": sum(1 for a in acc if a[2] > 1000),
        "accuracy/diagonal_flag": sum(1 for a in acc if a[7]),
        "accuracy/root_awkward_multiplier_or_binary32_exponent(float64, cond 1e4..1e8)": sum(1 for a in acc if a[8] == "root:awkward"),
        "tie/root_awkward_multiplier_or_binary32_exponent": sum(1 for c in cases if c["tag"] == "root:awkward"),
        "tie/newton_tolerance_below_float64_epsilon": sum(1 for c in cases if c["tag"] == "noisefloor" and c["cfg"][0] == "newton"),
        "tie/conv_flag_checkb_on_implementation_M": sum(1 for t in conv_terms if t is not None),
        "tie/eigpair_checkb_on_implementation_X": sum(1 for t in eig_terms if t is not None),
        "converged_clause/tolerance<=20u": c_subeps,
        "guard_clause/float32": sum(1 for g in ginputs if g[7] == "float32"),
        "guard_clause/float64": sum(1 for g in ginputs if g[7] == "float64"),
        "guard_clause/n>=32": sum(1 for g in ginputs if g[0].shape[0] >= 32),
        "guard_clause/rank_deficient_tiny_eps": sum(1 for g in ginputs if g[8].startswith("rankdef")),
        "converged_clause/structured": sum(1 for c in cinputs if not c[0].startswith("random")),
        "converged_clause/eps=0": sum(1 for c in cinputs if c[4] == 0.0),
        **{f"converged_clause/newton_root_{r}": sum(1 for c in cinputs if c[5] == "newton" and c[2] == r) for r in (1, 3, 5, 7, 8)},
        "converged_clause/ho_fractional_root": sum(1 for c in cinputs if c[5] == "ho" and c[3] > 1),
    }
    ck.coverage["quantifier_audit"] = audit
    ck.coverage["not_exercised"] = {
        "float16 / bfloat16 inputs": "outside the quantifier (float32 and float64); no CPU eigh kernel; the matmul-only solvers would run but no clause speaks about them",
        "value-level model tie in float32": "the tie is binary64 only (DESIGN 2.3); float32 is covered by the accuracy, guard-clause and converged-flag streams on the real code",
        "n > 12 (eigen) / n > 8 (iterative) in the model tie": "vm_compute cost; sizes up to 128 are covered by the accuracy stream, up to 64 by the guard-clause stream",
        "float64 accuracy beyond n = 24": "no reference more accurate than float64 other than mpmath, whose eigsy costs ~n^3 (n = 24: 0.6 s, n = 64: > 10 s)",
        "condition numbers beyond 0.1/u": "excluded by the quantifier (up to the dtype's resolution)",
        "tolerance = 0 for the higher-order solver in the model tie": "its stagnation test new_error == error is decided by rounding noise; covered by the converged-flag stream on the real code instead",
        "exponent-multiplier roots with the iterative solvers": "the optimizer applies exponent_multiplier only to EigenConfig (getattr default 1); a 50-bit numerator makes matrix_power(M, p) meaningless",
        "non-positive roots with Newton / higher-order": "outside the property (positive rational root); the code returns NaNs / fails in math.log2 (reported in the builder's notes), model marks OutOfScope",
        "order < 2": "documented as unsupported; model marks OutOfScope",
        "is_diagonal=True with a non-diagonal matrix": "the flag is computed by the caller with check_diagonal; a wrong flag is outside the contract",
        "CUDA / tf32 / eigen_decomp_offload_device other than cpu": "no accelerator in the sandbox",
    }
    ck.assumptions += [
        "torch.linalg.eigh returns (L, Q) with A = Q diag(L) Q^T, Q orthogonal (Section hypothesis eigh_contract; measured by ./check C11)",
        "torch.pow on positive bases is the real power function",
        "the floating-point accuracy bound is measured, not proved",
    ]
    ck.gen_equiv_verdict()


def replay(obj) -> bool:
    import torch
    common.assert_repo_imports()
    if obj.get("kind") == "guard-clause":
        A = torch.tensor(obj["A"], dtype=torch.float64)
        r = guard_one(A, obj["p"], obj["eps"], obj["rel_epsilon"], obj["order"], obj["max_iterations"], obj["tolerance"], obj["dtype"])
        print("now     :", r)
        print("recorded:", obj.get("measured"))
        return True
    if obj.get("kind") == "converged-flag-clause":
        A = torch.tensor(obj["A"], dtype=torch.float64)
        r = converged_one(A, obj["p"], obj["q"], obj["eps"], obj["solver"], obj["tolerance"], obj["max_iterations"], obj["order"], obj["dtype"])
        print("now     :", r)
        print("recorded:", obj.get("measured"))
        return True
    if obj.get("kind") == "measured-accuracy":
        A = torch.tensor(obj["A"], dtype=torch.float64)
        r = accuracy_one(A, obj["p"], obj["q"], tuple(obj["cfg"]), obj["eps"], obj["dtype"], obj["use_mp"], obj.get("is_diag", False))
        print("measured now:", r)
        print("recorded    :", obj.get("measured"))
        return True
    return mfh.replay(obj)
