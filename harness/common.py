"""Shared machinery for every /verif check.

A property module (harness/cXX.py) exposes
    META : dict   (manifest metadata, see tools/gen_manifest.py)
    run(ck : Check) -> None
and `./check CXX --tier quick|thorough` drives it through `run_property`.

Everything that decides something is done by coqc:
  * `Check.coq_props()` compiles coq/props/CXX.v and parses every `Print Assumptions`;
  * `Check.eval_coq()` compiles generated case files (model + implementation outputs) and
    reads back strings of 'T'/'F' computed by `vm_compute`.
Python only generates inputs, runs the implementation from /repo and reads booleans.
"""
from __future__ import annotations

import fcntl
import hashlib
import json
import os
import random
import re
import shutil
import subprocess
import sys
import time
from pathlib import Path

ROOT = Path(__file__).resolve().parent.parent
COQ = ROOT / "coq"
WORK = ROOT / ".work"
EVID = ROOT / "evidence"
REPLAY = EVID / "replay"
REPO = Path(os.environ.get("VERIF_REPO", "/repo"))
PY = "/venv/bin/python"

# Axioms of Coq's own standard library that a theorem may depend on (each is named in DESIGN §5).
ALLOWED_AXIOMS = {
    "ClassicalDedekindReals.sig_forall_dec",
    "ClassicalDedekindReals.sig_not_dec",
    "FunctionalExtensionality.functional_extensionality_dep",
    "Classical_Prop.classic",
}

FORBIDDEN_RE = re.compile(
    r"\b(Admitted|admit|Axiom|Axioms|Parameter|Parameters|Conjecture|Conjectures|Admit Obligations)\b"
    r"|Unset\s+Guard|bypass_check|type-in-type|impredicative-set|Unset\s+Positivity|Unset\s+Universe"
)


def impl_env() -> dict:
    env = dict(os.environ)
    env["PYTHONPATH"] = f"{REPO}:" + str(ROOT)
    env["PYTHONHASHSEED"] = "0"
    env["PYTHONDONTWRITEBYTECODE"] = "1"
    env["OPTIMIZERS_VERIF"] = "1"
    env.setdefault("OMP_NUM_THREADS", "1")
    env.setdefault("MKL_NUM_THREADS", "1")
    return env


def assert_repo_imports() -> None:
    """The implementation under test must be /repo's current working tree."""
    import distributed_shampoo  # noqa

    root = os.path.realpath(str(REPO)) + "/"
    f = os.path.realpath(distributed_shampoo.__file__)
    assert f.startswith(root), f"distributed_shampoo imported from {f}, not {root}"
    import matrix_functions  # noqa

    f = os.path.realpath(matrix_functions.__file__)
    assert f.startswith(root), f"matrix_functions imported from {f}, not {root}"


# --------------------------------------------------------------------------------------
# Coq build


def strip_coq_comments(src: str) -> str:
    out, depth, i = [], 0, 0
    while i < len(src):
        if src.startswith("(*", i):
            depth += 1
            i += 2
        elif src.startswith("*)", i) and depth:
            depth -= 1
            i += 2
        else:
            if depth == 0:
                out.append(src[i])
            i += 1
    return "".join(out)


def coq_deps(vfile: Path) -> list[Path]:
    """Transitive closure of the development's own files a .v file requires (lexical, like coqdep)."""
    byname = {}
    for d in ("theories", "exec", "props"):
        for f in (COQ / d).glob("*.v"):
            byname[f.stem] = f
    seen: dict[Path, None] = {}
    todo = [vfile]
    while todo:
        f = todo.pop()
        if f in seen or not f.exists():
            continue
        seen[f] = None
        src = strip_coq_comments(f.read_text())
        for m in re.finditer(r"Require\s+(?:Import\s+|Export\s+)?([^.]*(?:\.[A-Za-z_][^.\s]*)*)\s*\.(?=\s)", src):
            for nm in m.group(1).split():
                base = nm.split(".")[-1]
                if base in byname:
                    todo.append(byname[base])
    return list(seen)


def scan_forbidden(files: list[Path] | None = None) -> list[str]:
    """Scan .v files (default: every file under coq/) for constructs that would declare an axiom or disable a check."""
    bad = []
    for f in sorted(files if files is not None else COQ.rglob("*.v")):
        if ".work" in f.parts:
            continue
        src = strip_coq_comments(f.read_text())
        # strings may contain anything
        src_ns = re.sub(r'"(?:[^"]|"")*"', '""', src)
        for m in FORBIDDEN_RE.finditer(src_ns):
            bad.append(f"{f.relative_to(ROOT)}: forbidden `{m.group(0)}`")
        # Variable / Hypothesis / Context only inside a Section
        depth = 0
        for sent in re.split(r"\.\s", src_ns):
            s = sent.strip()
            if re.match(r"^Section\b", s):
                depth += 1
            elif re.match(r"^End\b", s) and depth:
                # `End` also closes modules; modules are not used in this development
                depth -= 1
            elif re.match(r"^(Variable|Variables|Hypothesis|Hypotheses|Context)\b", s) and depth == 0:
                bad.append(f"{f.relative_to(ROOT)}: `{s.split()[0]}` outside a Section")
    return bad


def coq_project_text() -> str:
    lines = ["-Q theories Shampoo", "-Q props ShampooProps", "-Q exec ShampooExec", "-arg -w -arg -notation-overridden,-deprecated-hint-without-locality,-deprecated-instance-without-locality,-ambiguous-paths,-deprecated-syntactic-definition,-inexact-float"]
    for d in ("theories", "exec", "props"):
        for f in sorted((COQ / d).glob("*.v")):
            lines.append(f"{d}/{f.name}")
    return "\n".join(lines) + "\n"


def coq_build(verbose: bool = False, targets: list[str] | None = None) -> tuple[bool, str]:
    """Full .vo build of the development, or of `targets` and what they depend on (incremental; a no-op when up to date)."""
    COQ.mkdir(exist_ok=True)
    WORK.mkdir(exist_ok=True)
    with open(WORK / "build.lock", "w") as lk:
        fcntl.flock(lk, fcntl.LOCK_EX)
        proj = COQ / "_CoqProject"
        txt = coq_project_text()
        if not proj.exists() or proj.read_text() != txt or not (COQ / "Makefile").exists():
            proj.write_text(txt)
            r = subprocess.run(["coq_makefile", "-f", "_CoqProject", "-o", "Makefile"], cwd=COQ, capture_output=True, text=True)
            if r.returncode != 0:
                return False, r.stdout + r.stderr
        r = subprocess.run(["timeout", "1500", "make", "-j16", "-k", *(targets or [])], cwd=COQ, capture_output=True, text=True)
        log = r.stdout + r.stderr
        if verbose:
            print(log[-4000:])
        return r.returncode == 0, log


COQ_FLAGS = ["-Q", str(COQ / "theories"), "Shampoo", "-Q", str(COQ / "props"), "ShampooProps", "-Q", str(COQ / "exec"), "ShampooExec",
             "-w", "-notation-overridden,-deprecated-hint-without-locality,-deprecated-instance-without-locality,-ambiguous-paths,-deprecated-syntactic-definition,-inexact-float"]


def parse_print_assumptions(vsrc: str, out: str) -> list[dict]:
    """Pair the `Print Assumptions X.` commands of a props file with coqc's output blocks."""
    names = re.findall(r"Print\s+Assumptions\s+([A-Za-z0-9_'.]+)\s*\.", strip_coq_comments(vsrc))
    blocks, cur = [], None
    for line in out.splitlines():
        if line.startswith("Closed under the global context"):
            if cur is not None:
                blocks.append(cur)
            blocks.append({"closed": True, "axioms": []})
            cur = None
        elif line.startswith("Axioms:"):
            if cur is not None:
                blocks.append(cur)
            cur = {"closed": False, "axioms": []}
        elif cur is not None:
            m = re.match(r"^([A-Za-z_][A-Za-z0-9_'.]*)\s*:", line)
            if m:
                cur["axioms"].append(m.group(1))
            elif re.match(r"^([A-Za-z_][A-Za-z0-9_'.]*)\s*$", line):
                cur["axioms"].append(line.strip())
            elif line and not line.startswith(" "):
                blocks.append(cur)
                cur = None
    if cur is not None:
        blocks.append(cur)
    res = []
    for i, n in enumerate(names):
        b = blocks[i] if i < len(blocks) else None
        res.append({"theorem": n, "block": b})
    return res


# --------------------------------------------------------------------------------------


# --------------------------------------------------------------------------------------
# translator tie (coq/gen/README.md): Gallina regenerated from the Python source + committed equivalence theorems

GEN = COQ / "gen"
GEN_LIBS = ("PyPrelude.v", "PyPreludeFacts.v")


def _gen_libs(gd: Path) -> str | None:
    """Put compiled copies of coq/gen/PyPrelude*.v into `gd` (compiled once per content under .work/gencache); error text or None."""
    txt = "".join((GEN / f).read_text() for f in GEN_LIBS)
    cache = WORK / "gencache" / hashlib.sha256(txt.encode()).hexdigest()[:16]
    WORK.mkdir(exist_ok=True)
    with open(WORK / "gencache.lock", "w") as lk:
        fcntl.flock(lk, fcntl.LOCK_EX)
        if not (cache / "done").exists():
            shutil.rmtree(cache, ignore_errors=True)
            cache.mkdir(parents=True)
            for f in GEN_LIBS:
                shutil.copy(GEN / f, cache / f)
                r = subprocess.run(["timeout", "300", "coqc", "-Q", str(cache), "ShampooGen", *COQ_FLAGS, str(cache / f)], capture_output=True, text=True, cwd=cache)
                if r.returncode != 0:
                    return f"{f} does not compile: {(r.stdout + r.stderr)[-800:]}"
            (cache / "done").write_text("ok")
        for f in cache.glob("*.vo"):
            shutil.copy(f, gd / f.name)
    return None


def gen_equiv_compile(workdir: Path, gen_name: str, gen_text, equiv_file: str, extra_allowed: set[str] = frozenset(), extra_libs: tuple = ()) -> dict:
    """Write the generated module `gen_name` (text, or a callable returning text or (text, metadata); the callable may raise
    py2coq.Untranslatable) to <workdir>/gen/, compile it and the committed coq/gen/<equiv_file> against it, and read every
    `Print Assumptions`.  Never raises; `broken` lists what does not hold."""
    t0 = time.time()
    gd = workdir / "gen"
    gd.mkdir(parents=True, exist_ok=True)
    eq = GEN / equiv_file
    vsrc = eq.read_text() if eq.exists() else ""
    thms = re.findall(r"^\s*Theorem\s+([A-Za-z0-9_']+)", strip_coq_comments(vsrc), re.M)
    res = {"ok": False, "broken": [], "generated_module": gen_name, "equiv_file": f"coq/gen/{equiv_file}", "theorems": thms, "per_theorem": [], "meta": None, "text": None}
    broken = res["broken"]
    flags = ["-Q", str(gd), "ShampooGen", *COQ_FLAGS]
    try:
        got = gen_text() if callable(gen_text) else gen_text
        res["text"], res["meta"] = got if isinstance(got, tuple) else (got, None)
    except Exception as e:  # Untranslatable: the source left the translated subset (or the function is gone)
        broken.append(f"{equiv_file}: all of {thms}: the source could not be translated: {e}")
    bad = scan_forbidden([eq, *(GEN / f for f in (*GEN_LIBS, *extra_libs))]) if eq.exists() else [f"coq/gen/{equiv_file} is missing"]
    if res["text"] is not None:
        bad += [f"generated {gen_name}.v: forbidden `{m.group(0)}`" for m in FORBIDDEN_RE.finditer(strip_coq_comments(res["text"]))]
    broken.extend(bad)
    out = ""
    if not broken:
        err = _gen_libs(gd)
        if err:
            broken.append(err)
    if not broken:
        (gd / f"{gen_name}.v").write_text(res["text"])
        shutil.copy(eq, gd / equiv_file)
        for f in extra_libs:        # prelude files that use types of a hand model: compiled per check (the model's .vo exist by then)
            shutil.copy(GEN / f, gd / f)
        for f, what in (*((f, "prelude") for f in extra_libs), (f"{gen_name}.v", "generated from the current source"), (equiv_file, "equivalence proofs")):
            r = subprocess.run(["timeout", "600", "coqc", *flags, str(gd / f)], capture_output=True, text=True, cwd=gd)   # .lia.cache stays in the workdir
            out = r.stdout + r.stderr
            if r.returncode != 0:
                m = re.search(r'line (\d+), characters', out)
                near = ""
                if m and f == equiv_file:     # name the theorem whose proof broke
                    upto = "\n".join(vsrc.splitlines()[: int(m.group(1))])
                    last = re.findall(r"(?:Theorem|Lemma)\s+([A-Za-z0-9_']+)", upto)
                    near = f" in {last[-1]}" if last else ""
                err = out[out.find("File \""):] if "File \"" in out else out
                k = err.find("Error:")
                err = (err[:err.find("\n")] + " " + err[k:k + 400]) if k >= 0 else err[-500:]
                broken.append(f"{f} ({what}) does not compile{near}: " + " ".join(err.split()))
                break
    if not broken:
        pa = {p["theorem"]: p["block"] for p in parse_print_assumptions(vsrc, out)}
        for t in thms:
            b = pa.get(t)
            ax = b["axioms"] if b else []
            notok = [a for a in ax if a not in ALLOWED_AXIOMS and a not in extra_allowed]
            ok = b is not None and not notok
            if b is None:
                broken.append(f"{t}: no Print Assumptions output")
            elif notok:
                broken.append(f"{t}: depends on non-whitelisted axioms {notok}")
            res["per_theorem"].append({"theorem": f"{Path(equiv_file).stem}.{t}", "axioms": ax, "ok": ok})
    else:
        res["per_theorem"] = [{"theorem": f"{Path(equiv_file).stem}.{t}", "ok": False} for t in thms]
    res["ok"] = not broken
    res["cmd"] = "coqc " + " ".join(flags) + f" <workdir>/gen/{gen_name}.v <workdir>/gen/{equiv_file}"
    res["wall_s"] = round(time.time() - t0, 2)
    return res


class Violation(Exception):
    pass


class Check:
    def __init__(self, pid: str, tier: str, seed: int):
        self.pid, self.tier, self.seed = pid, tier, seed
        self.t0 = time.time()
        self.rng = random.Random(f"{pid}-{seed}")
        self.workdir = WORK / f"{pid}-{os.getpid()}"
        if self.workdir.exists():
            shutil.rmtree(self.workdir)
        self.workdir.mkdir(parents=True)
        self.coverage: dict = {"evaluations": 0, "distinct_nontrivial": 0, "rule": "", "samples": []}
        self.assumptions: list[str] = []
        self.violations: list[dict] = []   # unknown violations
        self.known_hits: list[str] = []
        self.notes: list[str] = []
        self.level = "proof"
        self._known = json.loads((ROOT / "known_findings.json").read_text()) if (ROOT / "known_findings.json").exists() else {"findings": []}

    # ---- proof side -------------------------------------------------------------
    def coq_props(self, props_file: str | None = None, extra_allowed: set[str] = frozenset(), extra_targets: list[str] = ()) -> dict:
        """Build props/CXX.v and everything it (and `extra_targets`, e.g. "exec/RunC01.vo") depends on, re-compile
        props/CXX.v to capture every Print Assumptions.  Records obligations/discharged into the coverage."""
        props = COQ / "props" / (props_file or f"{self.pid}.v")
        deps = coq_deps(props)
        for t in extra_targets:
            deps += coq_deps(COQ / (t[:-1] if t.endswith(".vo") else t))
        bad = scan_forbidden(sorted(set(deps)))
        ok, log = coq_build(targets=[f"props/{props.stem}.vo", *extra_targets])
        vsrc = props.read_text()
        thms = re.findall(r"^\s*(?:Theorem|Lemma|Corollary)\s+([A-Za-z0-9_']+)", strip_coq_comments(vsrc), re.M)
        cmd = ["timeout", "600", "coqc", *COQ_FLAGS, "-o", str(self.workdir / (props.stem + ".vo")), str(props)]
        details = {"theorems": thms, "build_ok": ok, "forbidden": bad, "per_theorem": []}
        failed: list[str] = []
        if not ok:
            failed.append("coq build failed: " + log[-1500:])
            out = ""
        else:
            r = subprocess.run(cmd, capture_output=True, text=True)
            out = r.stdout + r.stderr
            if r.returncode != 0:
                failed.append(f"{props.name} does not compile: {out[-1500:]}")
        pa = parse_print_assumptions(vsrc, out)
        printed = {p["theorem"] for p in pa}
        discharged = 0
        for t in thms:
            rec = next((p for p in pa if p["theorem"] == t), None)
            if rec is None or rec["block"] is None:
                failed.append(f"{t}: no Print Assumptions output")
                details["per_theorem"].append({"theorem": t, "ok": False})
                continue
            ax = rec["block"]["axioms"]
            notok = [a for a in ax if a not in ALLOWED_AXIOMS and a not in extra_allowed]
            if notok:
                failed.append(f"{t}: depends on non-whitelisted axioms {notok}")
            else:
                discharged += 1
            details["per_theorem"].append({"theorem": t, "axioms": ax, "ok": not notok})
        if bad:
            failed.extend(bad)
        details["failed"] = failed
        self.coverage["obligations"] = len(thms)
        self.coverage["discharged"] = discharged if not failed else min(discharged, max(0, len(thms) - 1))
        self.coverage["checker_cmd"] = "make -C coq (coq_makefile, full .vo build); " + " ".join(cmd[2:])
        self.coverage["theorems"] = details["per_theorem"]
        allax = sorted({a for p in details["per_theorem"] for a in p.get("axioms", [])})
        self.coverage["axioms_reported_by_Print_Assumptions"] = allax
        if failed:
            rp = self.write_replay({"kind": "proof-obligation", "broken": failed, "note": "a theorem of the property no longer checks"})
            self.violations.append({"replay": rp, "what": failed[0][:200], "nofail": True})
        return details

    # ---- translator tie -----------------------------------------------------------
    def gen_equiv(self, gen_name: str, gen_text, equiv_file: str, extra_libs: tuple = ()) -> dict:
        """Second tie for pure discrete functions: `gen_text` is the Gallina module regenerated from the CURRENT Python source
        (a str, or a callable returning the text or (text, metadata) - it may raise py2coq.Untranslatable); the committed
        coq/gen/<equiv_file> proves it equal to the hand-written model.  Adds the equivalence theorems to the obligations and
        records coverage["translator"].  Never raises: returns {"ok": False, "broken": [...]} and the harness goes on with its
        correspondence run; call `gen_equiv_verdict()` at the end (finish() does it as a safety net)."""
        r = gen_equiv_compile(self.workdir, gen_name, gen_text, equiv_file, extra_libs=extra_libs)
        cov = self.coverage
        cov["obligations"] = cov.get("obligations", 0) + len(r["theorems"])
        cov["discharged"] = cov.get("discharged", 0) + sum(1 for p in r["per_theorem"] if p["ok"])
        cov["theorems"] = list(cov.get("theorems", [])) + r["per_theorem"]
        cov["checker_cmd"] = (cov.get("checker_cmd", "") + "; " + r["cmd"]).lstrip("; ")
        meta = r["meta"] or []
        tr = cov.setdefault("translator", {"modules": []})
        tr["modules"].append({
            "generated_module": gen_name, "equiv_file": r["equiv_file"], "ok": r["ok"], "broken": r["broken"],
            "functions_translated": [m["function"] for m in meta], "definitions": [d for m in meta for d in m["definitions"]],
            "sources": [{k: m[k] for k in ("file", "function", "mode", "source_sha256", "source_lines")} for m in meta],
            "generated_bytes": len(r["text"] or ""), "generated_lines": len((r["text"] or "").splitlines()),
            "equivalence_theorems": r["theorems"], "wall_s": r["wall_s"]})
        if not r["ok"]:
            self._gen_broken = getattr(self, "_gen_broken", []) + r["broken"]
        return {"ok": r["ok"], "broken": r["broken"]}

    def gen_equiv_verdict(self) -> None:
        """If an equivalence obligation broke and no other stream produced a failing input: the property is no longer shown."""
        broken = getattr(self, "_gen_broken", None)
        if not broken or getattr(self, "_gen_reported", False):
            return
        self._gen_reported = True
        if any(not v["nofail"] for v in self.violations):
            self.notes.append("translator tie also broken: " + broken[0][:300])
            return
        self.report(None, "translated source no longer provably equal to the model: " + " ".join(broken[0].split())[:260],
                    {"kind": "translator-equivalence", "broken": broken, "translator": self.coverage.get("translator"),
                     "note": "the Gallina regenerated from the current Python source is not (provably) the hand-written model any more, so the "
                             "property theorems are not re-established for the code as it is now; no failing input was found by the other streams"},
                    no_failing_input=True)

    # ---- model evaluation -------------------------------------------------------
    def eval_coq(self, sources: dict[str, str], timeout: int = 900, jobs: int = 16) -> dict[str, list[str]]:
        """Compile each generated .v (name -> text) and return, per file, the list of string values
        printed by its `Eval vm_compute in (... : string)` commands, in order."""
        d = self.workdir / "cases"
        d.mkdir(exist_ok=True)
        procs = {}
        names = list(sources)
        results: dict[str, list[str]] = {}
        errs = {}
        i = 0
        running: dict[str, subprocess.Popen] = {}
        files = {}
        for n in names:
            f = d / f"{n}.v"
            f.write_text(sources[n])
            files[n] = f
        pending = list(names)
        while pending or running:
            while pending and len(running) < jobs:
                n = pending.pop(0)
                out = open(d / f"{n}.out", "w")
                running[n] = subprocess.Popen(["timeout", str(timeout), "coqc", *COQ_FLAGS, str(files[n])], stdout=out, stderr=subprocess.STDOUT, cwd=d)
            for n, p in list(running.items()):
                if p.poll() is not None:
                    del running[n]
                    txt = (d / f"{n}.out").read_text()
                    if p.returncode != 0:
                        errs[n] = txt[-2000:]
                    results[n] = [m.replace('""', '"') for m in re.findall(r'=\s*"((?:[^"]|"")*)"', txt)]
            time.sleep(0.02)
        if errs:
            n, e = next(iter(errs.items()))
            raise RuntimeError(f"coqc failed on generated case file {n}: {e}")
        return results

    # ---- verdicts ---------------------------------------------------------------
    def write_replay(self, obj: dict) -> str:
        REPLAY.mkdir(parents=True, exist_ok=True)
        obj = {"property": self.pid, "seed": self.seed, "tier": self.tier, **obj}
        s = json.dumps(obj, sort_keys=True, default=str)
        h = hashlib.sha1(s.encode()).hexdigest()[:12]
        p = REPLAY / f"{self.pid}-{h}.json"
        p.write_text(json.dumps(obj, indent=1, default=str))
        return str(p)

    def report(self, finding_key: str | None, what: str, replay_obj: dict, no_failing_input: bool = False) -> None:
        """Report a property violation.  `finding_key` is the signature computed by the property's own
        classifier (harness side, coded once); it is matched against known_findings.json."""
        for f in self._known.get("findings", []):
            if f.get("property") == self.pid and f.get("status") == "known" and finding_key is not None and f.get("signature") == finding_key:
                msg = f"KNOWN-FINDING: property={self.pid} {f['what']}"
                if msg not in self.known_hits:
                    self.known_hits.append(msg)
                return
        rp = self.write_replay({"what": what, "signature": finding_key, **replay_obj})
        self.violations.append({"replay": rp, "what": what[:300], "nofail": no_failing_input})

    def finish(self) -> int:
        self.gen_equiv_verdict()      # no-op unless gen_equiv() recorded a broken obligation that was not reported yet
        cov = self.coverage
        # the evidence schema types a few coverage keys: keep a harness slip from producing an invalid evidence file
        if not isinstance(cov.get("exhaustive", False), bool):
            cov["exhaustive_part"] = str(cov["exhaustive"])
            cov["exhaustive"] = False
        for k in ("evaluations", "distinct_nontrivial"):
            if k in cov and not isinstance(cov[k], int):
                cov[k] = int(cov[k])
        if "samples" in cov and not isinstance(cov["samples"], list):
            cov["samples"] = [cov["samples"]]
        if "rule" in cov and not isinstance(cov["rule"], str):
            cov["rule"] = str(cov["rule"])
        cov.setdefault("trusted_base", [
            "Coq 8.16.1 kernel + vm_compute (no native_compute)",
            "hand-written Gallina model tied to /repo by the correspondence run of this check (harness/*.py, generated case files evaluated by coqc)",
            "axioms: exactly those listed under axioms_reported_by_Print_Assumptions (Coq standard library only)",
        ])
        cov["known_findings_hit"] = self.known_hits
        cov["notes"] = self.notes
        ev = {
            "property_id": self.pid, "tier": self.tier, "seed": self.seed, "level": self.level,
            "coverage": cov, "assumptions": self.assumptions, "wall_s": round(time.time() - self.t0, 2),
            "violations": len(self.violations),
        }
        EVID.mkdir(exist_ok=True)
        (EVID / f"{self.pid}.json").write_text(json.dumps(ev, indent=1, default=str) + "\n")
        for k in self.known_hits:
            print(k)
        seen = set()
        for v in self.violations:
            if v["replay"] in seen:
                continue
            seen.add(v["replay"])
            print(f"# {v['what']}")
            print(f"VIOLATION property={self.pid} replay={v['replay']}" + (" no-failing-input-found" if v["nofail"] else ""))
        shutil.rmtree(self.workdir, ignore_errors=True)
        print(f"[{self.pid}] tier={self.tier} seed={self.seed} evaluations={cov.get('evaluations')} nontrivial={cov.get('distinct_nontrivial')} "
              f"obligations={cov.get('obligations')} discharged={cov.get('discharged')} violations={len(self.violations)} wall={ev['wall_s']}s")
        return 1 if self.violations else 0


# --------------------------------------------------------------------------------------
# helpers for writing Coq literals


def coq_Z(n: int) -> str:
    return f"({n})%Z" if n < 0 else f"{n}%Z"


def coq_list(items, scope: str | None = None) -> str:
    s = "[" + "; ".join(items) + "]"
    return s


def coq_bool(b: bool) -> str:
    return "true" if b else "false"


def coq_string(s: str) -> str:
    return '"' + s.replace('"', '""') + '"'


def coq_float(x: float) -> str:
    import math
    if math.isnan(x):
        return "nan"
    if math.isinf(x):
        return "infinity" if x > 0 else "neg_infinity"
    if x == 0.0:
        return "(-0)%float" if math.copysign(1.0, x) < 0 else "0%float"
    h = float(x).hex()
    return f"({h})%float" if x < 0 else f"{h}%float"


def chunks(xs, n):
    xs = list(xs)
    for i in range(0, len(xs), n):
        yield xs[i:i + n]


def run_property(modname: str) -> int:
    import argparse
    import importlib

    ap = argparse.ArgumentParser()
    ap.add_argument("--tier", default=os.environ.get("VERIF_TIER", "quick"))
    ap.add_argument("--seed", type=int, default=int(os.environ.get("VERIF_SEED", "0")))
    args, _ = ap.parse_known_args(sys.argv[2:])
    mod = importlib.import_module(f"harness.{modname.lower()}")
    ck = Check(modname.upper(), args.tier, args.seed)
    try:
        mod.run(ck)
    except Exception as e:  # a crash of the machinery is reported as a broken check, never silently passed
        import traceback
        traceback.print_exc()
        rp = ck.write_replay({"kind": "harness-error", "error": repr(e)})
        ck.violations.append({"replay": rp, "what": f"check machinery failed: {e!r}"[:300], "nofail": True})
    return ck.finish()
