"""C17 - the constructor accepts exactly the documented hyperparameter domain: DistributedShampoo(...) and the
grafting / preconditioner config dataclasses vs the Coq model Hyper.ctor."""
from __future__ import annotations

import itertools
import math
import multiprocessing as mp
import time

from harness import common, gen_targets
from harness.common import Check

META = {
    "property_id": "C17",
    "design_ref": "DESIGN.md §4 C17",
    "technique": "Coq proof (reflection of Python's int/float/NaN comparisons into an order on extended rationals, case analysis of the guard chain) + grid correspondence (1-way, 2-way, random 3-way and all-random) evaluated by vm_compute on exact rational values",
    "level_text": "Theorems on the Gallina model of the grafting/preconditioner config __post_init__ guards, the guard chain of DistributedShampoo.__init__ (in code order, with the two -1 substitutions) and the three type dispatches: for every configuration whose max_preconditioner_dim is a Python int < 2^63 and whose num_tolerated_failed_amortized_computations is not NaN (platform_typed), construction succeeds iff the configuration is in the documented domain (ctor_accepts_iff_documented, ctor_classify), raises ValueError outside the ranges and only there, NotImplementedError for an unsupported config type inside the ranges, and stores beta1 / precondition_frequency for beta3 = -1 / start = -1 (ctor_defaults, ctor_resolved_in_range).  The unguarded iff is refuted on the faithful model in both directions (ctor_accepts_iff_documented_refuted_mpd: max_preconditioner_dim = 2^63 is >= 1 but torch.split overflows; ctor_accepts_iff_documented_refuted_nan: num_tolerated = NaN passes `if x < 0`); both witnesses are replayed on /repo in every run.  The model is tied to /repo by the full one-at-a-time and two-at-a-time grid over {boundary, interior, +-1 ulp / +-1, far outside, +-inf, NaN, int-vs-float} per hyperparameter around two valid baselines, plus random 3-way and all-random configurations; outcome class and the resolved param_groups[0] defaults are compared exactly inside coqc.",
    "level_note": "Trusted: Coq kernel + vm_compute; the hand-written model (checked against the code only on the generated grid); the model has one dense parameter in one group, and its claim that nothing else matters is exercised by a harness-only `variant` axis (parameter shapes/dtypes, two groups, the unvalidated flags and preconditioner_dtype, omitted arguments = documented defaults, shared/reused config objects) and a real DDPShampooConfig on a 1-process gloo group; the sharded distributed configs are not constructed (see not_exercised in the evidence); per-group overrides in params=[{...}] are neither validated nor resolved by the code and are only probed; which ValueError guard fired is compared only informationally (by message keyword).",
    "ready": True,
}

INF, NAN = math.inf, math.nan
NA = math.nextafter

# ---------------------------------------------------------------------------------------------
# values: Python ints and floats, encoded hashably / as JSON / as Coq terms


def enc(x):
    if isinstance(x, bool):
        raise TypeError("bool hyperparameters are not generated")
    if isinstance(x, int):
        return ("i", str(x))
    if isinstance(x, float):
        if math.isnan(x):
            return ("f", "nan")
        if math.isinf(x):
            return ("f", "inf" if x > 0 else "-inf")
        return ("f", x.hex())
    if isinstance(x, range):       # another Sequence[int]; step 1 only
        assert x.step == 1
        return ("range", (enc(x.start), enc(x.stop)))
    if isinstance(x, (list, tuple)):
        return ("tuple" if isinstance(x, tuple) else "list", tuple(enc(e) for e in x))
    if isinstance(x, str):
        return ("s", x)
    raise TypeError(repr(x))


def dec(e):
    t, v = e[0], e[1]
    if t == "i":
        return int(v)
    if t == "f":
        return float(v) if v in ("nan", "inf", "-inf") else float.fromhex(v)
    if t == "list":
        return [dec(x) for x in v]
    if t == "tuple":
        return tuple(dec(x) for x in v)
    if t == "range":
        return range(dec(v[0]), dec(v[1]))
    if t == "s":
        return v
    raise TypeError(repr(e))


def znum(n: int) -> str:
    """Coq numeral; hexadecimal for big values (decimal parsing is quadratic, 5e-324 has a 1075-bit denominator)."""
    if abs(n) < 10 ** 18:
        return str(n)
    return ("-" if n < 0 else "") + hex(abs(n))


def coq_num(e) -> str:
    t, v = e[0], e[1]
    if t == "i":
        return f"(PInt ({znum(int(v))})%Z)"
    assert t == "f", e
    if v == "nan":
        return "NaN"
    if v == "inf":
        return "PInf"
    if v == "-inf":
        return "NInf"
    n, d = float.fromhex(v).as_integer_ratio()
    return f"(PFlt (Qmake ({znum(n)})%Z ({znum(d)})%positive))"


def coq_iro(e) -> str:
    if e[0] == "range":
        return "(IroSeq [" + "; ".join(coq_num(enc(i)) for i in dec(e)) + "])"
    if e[0] in ("list", "tuple"):
        return "(IroSeq [" + "; ".join(coq_num(x) for x in e[1]) + "])"
    return f"(IroScalar {coq_num(e)})"


def coq_zlist(e) -> str:
    return "([" + "; ".join(f"({x[1]})%Z" for x in e[1]) + "] : list Z)"


# "sub_X" = an instance of a user-defined subclass of the library class X (inherits fields and __post_init__; the model
# carries the class in gkind / pc_kind and the fact in the flag gsub / pc_sub); "unsupported" = a direct subclass of the abstract base.
GK = {"none": "GraftNone", "sgd": "GraftSGD", "adagrad": "GraftAdaGrad", "rmsprop": "GraftRMSprop", "adam": "GraftAdam", "unsupported": "GraftUnsupported",
      "sub_sgd": "GraftSGD", "sub_adagrad": "GraftAdaGrad", "sub_rmsprop": "GraftRMSprop", "sub_adam": "GraftAdam"}
PK = {"shampoo": "PCShampoo", "eigcorr": "PCEigenvalueCorrected", "unsupported": "PCUnsupported", "sub_shampoo": "PCShampoo", "sub_eigcorr": "PCEigenvalueCorrected"}
GBASE = {k: k[4:] if k.startswith("sub_") else k for k in GK}      # the library class whose fields the object has
PBASE = {k: k[4:] if k.startswith("sub_") else k for k in PK}
UNSUPPORTED_DIST = ("unsupported", "sub_ddp", "sub_fsdp", "sub_fullyshard", "sub_hsdp", "sub_hybrid")
DK = {"none": "DistNone", **{k: "DistUnsupported" for k in UNSUPPORTED_DIST},
      "ddp": "DistNone"}      # a real DDPShampooConfig on a 1-process gloo group: a supported type, same model value as None

# Harness-only axis: HOW the same hyperparameter values reach the constructor and WHICH arguments the code does not
# validate accompany them.  The model has no such field: it claims the outcome does not depend on any of this.
VARIANTS = [
    "std",
    # unvalidated constructor arguments
    "nesterov", "no_bias_corr", "coupled_wd", "no_merge", "pdtype_f64", "pdtype_bf16", "pdtype_f16",
    # the parameters the optimizer is built for
    "param_0d", "param_1d", "param_3d", "param_two", "param_f64", "param_bf16", "param_f16", "param_empty", "param_nograd", "param_1x1",
    # config objects
    "amort_sub",        # a user-defined subclass of EigenConfig / QRConfig as amortized_computation_config: the constructor does not
                        # dispatch on it (matrix_functions.py does, by exact type, at the first root/eigenvector computation)
    "amort_alt",        # other amortized_computation_config (CoupledNewton for Shampoo, Eigh for eigenvalue-corrected)
    "pc_singleton",     # the module-level DefaultShampooConfig / DefaultEigenvalueCorrectedShampooConfig object (when nt = 3, ignored = [])
    "betas_list",       # betas given as a list
    # call forms
    "omit_defaults",    # every argument whose value equals the documented default is omitted (signature / dataclass defaults)
    "dict_params",      # params = [{"params": [...]}]
    "two_groups",       # two parameter groups without overrides: every group must carry the same resolved defaults
    "twice",            # the same config objects used for two constructions in a row; the second outcome is reported
]

AXES = ["lr", "beta1", "beta2", "beta3", "epsilon", "momentum", "dampening", "weight_decay", "mpd", "freq", "start", "iro",
        "gkind", "geps", "gb2", "pc_kind", "nt", "ignored", "dist", "variant"]
MODEL_AXES = AXES[:-1]
NUM_AXES = {"lr", "beta1", "beta2", "beta3", "epsilon", "momentum", "dampening", "weight_decay", "mpd", "freq", "start", "geps", "gb2", "nt"}

# ---------------------------------------------------------------------------------------------
# grids: (tag, value); tags: boundary / interior / just_in / just_out / far_in / far_out / inf / nan / typemix / kind


def g_ge0():          # [0, inf)
    return [("boundary", 0.0), ("boundary", -0.0), ("just_out", NA(0.0, -1.0)), ("just_in", NA(0.0, 1.0)), ("interior", 0.01), ("far_in", 1e300),
            ("far_out", -1e300), ("far_out", -1.0), ("inf", INF), ("inf", -INF), ("nan", NAN), ("typemix", 0), ("typemix", -1), ("typemix", 1), ("far_in", 10 ** 400), ("far_out", -10 ** 400)]


def g_gt0():          # (0, inf)
    return [("boundary", 0.0), ("boundary", -0.0), ("just_out", NA(0.0, -1.0)), ("just_in", NA(0.0, 1.0)), ("interior", 1e-12), ("far_in", 1e300),
            ("far_out", -1e300), ("inf", INF), ("inf", -INF), ("nan", NAN), ("typemix", 0), ("typemix", 1), ("typemix", -1)]


def g_co01():         # [0, 1)
    return [("boundary", 0.0), ("boundary", -0.0), ("just_out", NA(0.0, -1.0)), ("just_in", NA(0.0, 1.0)), ("interior", 0.5), ("just_in", NA(1.0, 0.0)),
            ("boundary", 1.0), ("just_out", NA(1.0, 2.0)), ("far_out", 2.0), ("far_out", -1e300), ("far_out", 1e300), ("inf", INF), ("inf", -INF), ("nan", NAN),
            ("typemix", 0), ("typemix", 1), ("typemix", 2)]


def g_oc01():         # (0, 1]
    return [("boundary", 0.0), ("boundary", -0.0), ("just_out", NA(0.0, -1.0)), ("just_in", NA(0.0, 1.0)), ("interior", 0.5), ("just_in", NA(1.0, 0.0)),
            ("boundary", 1.0), ("just_out", NA(1.0, 2.0)), ("far_out", 2.0), ("far_out", -1e300), ("far_out", 1e300), ("inf", INF), ("inf", -INF), ("nan", NAN),
            ("typemix", 0), ("typemix", 1), ("typemix", 2)]


def g_beta3():
    return g_co01() + [("boundary", -1.0), ("typemix", -1), ("just_out", NA(-1.0, 0.0)), ("just_out", NA(-1.0, -2.0)), ("far_out", -2)]


I63 = 2 ** 63


def g_mpd():          # int >= 1 (and < 2^63 for torch.split)
    return [("boundary", 1), ("just_out", 0), ("just_in", 2), ("far_out", -1), ("interior", 1024), ("boundary", I63 - 1), ("just_out", I63), ("far_out", 10 ** 30), ("interior", 2 ** 31 - 1), ("interior", 2 ** 31),
            ("far_out", -10 ** 30), ("typemix", 1.0), ("typemix", 2.0), ("just_out", NA(1.0, 0.0)), ("typemix", 1.5), ("inf", INF), ("inf", -INF), ("nan", NAN)]


def g_freq():         # >= 1
    return [("boundary", 1), ("just_out", 0), ("just_in", 2), ("far_out", -1), ("interior", 10), ("far_in", 10 ** 30), ("far_out", -10 ** 30), ("typemix", 1.0),
            ("far_in", 2 ** 53 + 1),     # an int no float equals: the start/frequency comparison must be exact
            ("just_out", NA(1.0, 0.0)), ("just_in", NA(1.0, 2.0)), ("typemix", 10.5), ("inf", INF), ("inf", -INF), ("nan", NAN)]


def g_start():        # -1 or >= freq   (baseline frequencies are 1 and 10)
    return [("boundary", -1), ("just_out", -2), ("just_out", 0), ("boundary", 1), ("just_in", 2), ("just_out", 9), ("boundary", 10), ("just_in", 11), ("interior", 20),
            ("typemix", -1.0), ("just_out", NA(-1.0, 0.0)), ("just_out", NA(-1.0, -2.0)), ("typemix", 0.5), ("just_out", NA(10.0, 0.0)), ("typemix", 10.0), ("far_in", 10 ** 30),
            ("far_out", -10 ** 30), ("inf", INF), ("inf", -INF), ("nan", NAN),
            ("just_out", 2.0 ** 53), ("boundary", 2 ** 53 + 1), ("just_in", 2.0 ** 53 + 2)]      # around frequency 2^53+1


def g_iro():          # int >= 0 or sequence of ints >= 0
    return [("boundary", 0), ("just_in", 1), ("just_out", -1), ("interior", 2), ("typemix", 0.0), ("typemix", -0.0), ("just_in", NA(0.0, 1.0)), ("just_out", NA(0.0, -1.0)),
            ("far_in", 10 ** 30), ("far_out", -10 ** 30), ("inf", INF), ("inf", -INF), ("nan", NAN),
            ("boundary", []), ("boundary", [0]), ("boundary", [0, 0, 0]), ("interior", [1, 2]), ("interior", (2, 2, 3)), ("just_out", [2, -1]), ("just_out", [-1]),
            ("nan", [NAN]), ("inf", [INF]), ("nan", [0, NAN, 1]), ("just_out", [NA(0.0, -1.0)]), ("inf", (1, -INF)), ("boundary", ()),
            ("interior", range(1, 4)), ("boundary", range(0, 2)), ("just_out", range(-1, 2))]


def g_nt():           # int >= 0
    return [("interior", 3), ("boundary", 0), ("just_in", 1), ("just_out", -1), ("far_out", -2), ("far_in", 10 ** 30), ("far_out", -10 ** 30), ("typemix", 0.0),
            ("just_out", NA(0.0, -1.0)), ("just_in", NA(0.0, 1.0)), ("inf", INF), ("inf", -INF), ("nan", NAN)]


def g_ignored():      # unique ints
    return [("boundary", []), ("interior", [0]), ("interior", [1]), ("interior", [0, 1]), ("just_out", [0, 0]), ("just_out", [1, 0, 1]), ("interior", [5]), ("interior", [-1]), ("just_out", [2, 2])]


GRID = {
    "lr": g_ge0(), "beta1": g_co01(), "beta2": g_oc01(), "beta3": g_beta3(), "epsilon": g_gt0(), "momentum": g_co01(), "dampening": g_co01(),
    "weight_decay": g_ge0(), "mpd": g_mpd(), "freq": g_freq(), "start": g_start(), "iro": g_iro(),
    "gkind": [("kind", k) for k in GK], "geps": g_gt0(), "gb2": g_oc01(), "pc_kind": [("kind", k) for k in PK], "nt": g_nt(), "ignored": g_ignored(),
    "dist": [("kind", k) for k in DK], "variant": [("kind", v) for v in VARIANTS],
}

BASE_A = dict(lr=0.01, beta1=0.9, beta2=1.0, beta3=-1.0, epsilon=1e-12, momentum=0.0, dampening=0.0, weight_decay=0.0, mpd=1024, freq=1, start=-1, iro=0,
              gkind="adagrad", geps=1e-10, gb2=0.99, pc_kind="shampoo", nt=3, ignored=[], dist="none", variant="std")
BASE_B = dict(lr=0.1, beta1=0.9, beta2=0.99, beta3=0.8, epsilon=1e-8, momentum=0.5, dampening=0.1, weight_decay=1e-3, mpd=2, freq=10, start=20, iro=(2, 2, 3),
              gkind="adam", geps=1e-8, gb2=0.999, pc_kind="eigcorr", nt=0, ignored=[], dist="none", variant="std")
BASES = {"A": BASE_A, "B": BASE_B}


def case_key(case: dict) -> tuple:
    return tuple(enc(case[a]) for a in AXES)


def key_to_case(key: tuple) -> dict:
    return {a: dec(e) for a, e in zip(AXES, key)}


# ---------------------------------------------------------------------------------------------
# implementation side

_IMPL = {}


def _impl():
    if not _IMPL:
        import logging
        from dataclasses import dataclass

        import torch
        from distributed_shampoo import distributed_shampoo as ds
        from distributed_shampoo import shampoo_types as st
        import matrix_functions_types as mft
        from matrix_functions_types import QRConfig

        logging.disable(logging.CRITICAL)

        from dataclasses import field

        # user-defined config types: direct subclasses of the abstract bases and subclasses of every library class
        @dataclass(kw_only=True)
        class OtherPreconditionerConfig(st.PreconditionerConfig):
            amortized_computation_config: mft.RootInvConfig = field(default_factory=lambda: mft.DefaultEigenConfig)

        @dataclass(kw_only=True)
        class SubShampooPC(st.ShampooPreconditionerConfig):
            pass

        @dataclass(kw_only=True)
        class SubEigCorrPC(st.EigenvalueCorrectedShampooPreconditionerConfig):
            pass

        @dataclass
        class OtherGraftingConfig(st.GraftingConfig):
            pass

        @dataclass
        class SubSGD(st.SGDGraftingConfig):
            pass

        @dataclass(kw_only=True)
        class SubAdaGrad(st.AdaGradGraftingConfig):
            pass

        @dataclass(kw_only=True)
        class SubRMSprop(st.RMSpropGraftingConfig):
            pass

        @dataclass(kw_only=True)
        class SubAdam(st.AdamGraftingConfig):
            pass

        @dataclass
        class OtherDistributedConfig(st.DistributedConfig):
            pass

        @dataclass(kw_only=True)
        class SubDDP(st.DDPShampooConfig):
            pass

        @dataclass(kw_only=True)
        class SubFSDP(st.FSDPShampooConfig):
            pass

        @dataclass(kw_only=True)
        class SubFullyShard(st.FullyShardShampooConfig):
            pass

        @dataclass
        class SubHSDP(st.HSDPShampooConfig):
            pass

        @dataclass
        class SubHybrid(st.HybridShardShampooConfig):
            pass

        @dataclass(kw_only=True)
        class SubEigenConfig(mft.EigenConfig):
            pass

        @dataclass(kw_only=True)
        class SubQRConfig(mft.QRConfig):
            pass

        dist_makers = {"unsupported": OtherDistributedConfig, "sub_ddp": SubDDP, "sub_fsdp": lambda: SubFSDP(param_to_metadata={}),
                       "sub_fullyshard": SubFullyShard, "sub_hsdp": lambda: SubHSDP(param_to_metadata={}, device_mesh=None),
                       "sub_hybrid": lambda: SubHybrid(device_mesh=None)}
        _IMPL.update(torch=torch, ds=ds, st=st, QRConfig=QRConfig, mft=mft, OtherPC=OtherPreconditionerConfig, OtherG=OtherGraftingConfig, dist_makers=dist_makers,
                     graft_cls={"sgd": st.SGDGraftingConfig, "adagrad": st.AdaGradGraftingConfig, "rmsprop": st.RMSpropGraftingConfig, "adam": st.AdamGraftingConfig,
                                "sub_sgd": SubSGD, "sub_adagrad": SubAdaGrad, "sub_rmsprop": SubRMSprop, "sub_adam": SubAdam},
                     pc_cls={"shampoo": st.ShampooPreconditionerConfig, "eigcorr": st.EigenvalueCorrectedShampooPreconditionerConfig,
                             "sub_shampoo": SubShampooPC, "sub_eigcorr": SubEigCorrPC}, SubEigenConfig=SubEigenConfig, SubQRConfig=SubQRConfig)
    return _IMPL


GUARD_BY_MSG = [
    ("graft", "Invalid epsilon value", "GGraftEps"), ("graft", "Invalid grafting beta2", "GGraftBeta2"),
    ("pc", "num_tolerated_failed_amortized_computations", "GNumTolerated"), ("pc", "Invalid ignored_dims", "GIgnoredUnique"),
    ("init", "Invalid learning rate", "GLr"), ("init", "beta parameter at index 0", "GBeta1"), ("init", "beta parameter at index 1", "GBeta2"),
    ("init", "Invalid beta3", "GBeta3"), ("init", "Invalid epsilon value", "GEps"), ("init", "Invalid momentum", "GMomentum"), ("init", "Invalid damping", "GDampening"),
    ("init", "Invalid weight_decay", "GWd"), ("init", "Invalid max preconditioner dim", "GMpd"), ("init", "Invalid precondition frequency", "GFreq"),
    ("init", "Invalid start preconditioning step", "GStartLow"), ("init", "Invalid exponent override", "GIro"),
    ("init", "Invalid start_preconditioning_step value", "GStartFreq"), ("init", "is not supported when", "GIgnoredIro"),
]


# documented defaults (docstring of DistributedShampoo / of the config dataclasses), used by the "omit_defaults" variant
DOC_DEFAULTS = dict(lr=1e-2, beta1=0.9, beta2=1.0, beta3=-1.0, epsilon=1e-12, momentum=0.0, dampening=0.0, weight_decay=0.0, mpd=1024, freq=1, start=-1, iro=0)
DOC_GRAFT_DEFAULTS = {"adagrad": dict(geps=1e-10), "rmsprop": dict(geps=1e-10, gb2=0.99), "adam": dict(geps=1e-10, gb2=0.999)}
KWNAME = dict(lr="lr", beta3="beta3", epsilon="epsilon", momentum="momentum", dampening="dampening", weight_decay="weight_decay", mpd="max_preconditioner_dim",
              freq="precondition_frequency", start="start_preconditioning_step", iro="inv_root_override")


def _is(c, a, v) -> bool:
    return enc(c[a]) == enc(v)


def _make_params(m, variant):
    torch = m["torch"]
    P = lambda shape, **k: torch.nn.Parameter(torch.zeros(shape, **k))   # noqa: E731
    kinds = {
        "param_0d": lambda: [P(())], "param_1d": lambda: [P((5,))], "param_3d": lambda: [P((2, 3, 4))], "param_two": lambda: [P((2, 3)), P((4,))],
        "param_f64": lambda: [P((2, 3), dtype=torch.float64)], "param_bf16": lambda: [P((2, 3), dtype=torch.bfloat16)], "param_f16": lambda: [P((2, 3), dtype=torch.float16)],
        "param_empty": lambda: [P((0, 3))], "param_nograd": lambda: [torch.nn.Parameter(torch.zeros(2, 3), requires_grad=False)], "param_1x1": lambda: [P((1, 1))],
        "dict_params": lambda: [{"params": [P((2, 3))]}], "two_groups": lambda: [{"params": [P((2, 3))]}, {"params": [P((3, 2))]}],
    }
    return kinds.get(variant, lambda: [P((2, 3))])()


def run_one(key: tuple):
    """Build the two config objects (grafting first, then preconditioner), then the optimizer.  Returns
    (class, beta3, start, guard_label, exception type name)."""
    m = _impl()
    st, ds, torch = m["st"], m["ds"], m["torch"]
    c = key_to_case(key)
    v = c["variant"]
    omit = v == "omit_defaults"
    phase = "graft"
    try:
        gk, gb = c["gkind"], GBASE[c["gkind"]]
        gkw = {}
        if gb in DOC_GRAFT_DEFAULTS:
            if not (omit and _is(c, "geps", DOC_GRAFT_DEFAULTS[gb]["geps"])):
                gkw["epsilon"] = c["geps"]
            if gb != "adagrad" and not (omit and _is(c, "gb2", DOC_GRAFT_DEFAULTS[gb]["gb2"])):
                gkw["beta2"] = c["gb2"]
        if gk == "none":
            graft = None
        elif gk == "unsupported":
            graft = m["OtherG"]()
        else:
            graft = m["graft_cls"][gk](**gkw)
        phase = "pc"
        pk, pb = c["pc_kind"], PBASE[c["pc_kind"]]
        PCls = m["pc_cls"].get(pk)
        pc_is_default = _is(c, "nt", 3) and _is(c, "ignored", [])
        kw = {}
        if not (omit and _is(c, "nt", 3)):
            kw["num_tolerated_failed_amortized_computations"] = c["nt"]
        if not (omit and _is(c, "ignored", [])):
            kw["ignored_dims"] = list(c["ignored"])
        omit_pc = False
        if pb == "shampoo":
            if v == "pc_singleton" and pc_is_default and pk == "shampoo":
                pc = st.DefaultShampooConfig
            elif v == "amort_alt":
                pc = PCls(amortized_computation_config=m["mft"].CoupledNewtonConfig(), **kw)
            elif v == "amort_sub":
                pc = PCls(amortized_computation_config=m["SubEigenConfig"](), **kw)
            else:
                pc = PCls(**kw)
                omit_pc = omit and pc_is_default and pk == "shampoo"
        elif pb == "eigcorr":
            if v == "pc_singleton" and pc_is_default and pk == "eigcorr":
                pc = st.DefaultSOAPConfig
            elif v == "amort_alt":
                pc = PCls(**kw)     # default: EighEigenvectorConfig
            elif v == "amort_sub":
                pc = PCls(amortized_computation_config=m["SubQRConfig"](), **kw)
            else:
                pc = PCls(amortized_computation_config=m["QRConfig"](), **kw)
        else:
            pc = m["OtherPC"](**kw)
        phase = "init"
        if c["dist"] == "none":
            dcfg = None
        elif c["dist"] == "ddp":
            dcfg = st.DDPShampooConfig()
        else:
            dcfg = m["dist_makers"][c["dist"]]()
        betas = [c["beta1"], c["beta2"]] if v == "betas_list" else (c["beta1"], c["beta2"])
        args = dict(betas=betas, grafting_config=graft, distributed_config=dcfg, preconditioner_config=pc)
        for a, name in KWNAME.items():
            args[name] = c[a]
        if omit:
            for a, name in KWNAME.items():
                if _is(c, a, DOC_DEFAULTS[a]):
                    del args[name]
            if _is(c, "beta1", 0.9) and _is(c, "beta2", 1.0):
                del args["betas"]
            if graft is None:
                del args["grafting_config"]
            if dcfg is None:
                del args["distributed_config"]
            if omit_pc:
                del args["preconditioner_config"]
        args.update({"nesterov": dict(use_nesterov=True), "no_bias_corr": dict(use_bias_correction=False), "coupled_wd": dict(use_decoupled_weight_decay=False),
                     "no_merge": dict(use_merge_dims=False), "pdtype_f64": dict(preconditioner_dtype=torch.float64), "pdtype_bf16": dict(preconditioner_dtype=torch.bfloat16),
                     "pdtype_f16": dict(preconditioner_dtype=torch.float16)}.get(v, {}))

        def build():
            opt = ds.DistributedShampoo(_make_params(m, v), **args)
            got = [(enc(g["beta3"]), enc(g["start_preconditioning_step"])) for g in opt.param_groups]
            if any(x != got[0] for x in got):
                return ("Other", None, None, None, "ParamGroupsDiffer")
            return ("OK", got[0][0], got[0][1], None, None)

        if v == "twice":
            first = None
            try:
                first = build()
            except Exception as e:  # noqa
                first = type(e).__name__
            try:
                second = build()
            except Exception as e:  # noqa
                if first != type(e).__name__:
                    return ("Other", None, None, None, "SecondConstructionDiffers")
                raise
            return second if second == first else ("Other", None, None, None, "SecondConstructionDiffers")
        return build()
    except NotImplementedError:
        return ("NotImplementedError", None, None, None, "NotImplementedError")
    except ValueError as e:
        msg = str(e)
        lab = next((g for ph, kw_, g in GUARD_BY_MSG if ph == phase and kw_ in msg), None)
        return ("ValueError", None, None, lab, type(e).__name__)
    except Exception as e:  # noqa
        return ("Other", None, None, None, type(e).__name__)


def _init_ddp():
    """A 1-process gloo group, so that a real DDPShampooConfig can be dispatched (no network: in-memory HashStore)."""
    import torch.distributed as dist
    _impl()
    dist.init_process_group("gloo", store=dist.HashStore(), rank=0, world_size=1)


def run_chunk(keys):
    return [run_one(k) for k in keys]


# ---------------------------------------------------------------------------------------------
# case files

HEADER = """From Coq Require Import ZArith QArith List String.
From Shampoo Require Import Show Hyper HyperProofs HyperChecker.
Import ListNotations.
"""


def coq_obs(res) -> str:
    cls, b3, stp = res[0], res[1], res[2]
    if cls == "OK":
        return f"(ObsOK {coq_num(b3)} {coq_num(stp)})"
    return {"ValueError": "ObsValueError", "NotImplementedError": "ObsNotImplemented", "Other": "ObsOther"}[cls]


def _sub_flags(key: tuple) -> list[str]:
    gk, pk = key[AXES.index("gkind")][1], key[AXES.index("pc_kind")][1]
    return ["true" if gk.startswith("sub_") else "false", "true" if pk.startswith("sub_") else "false"]


def coq_raw(key: tuple) -> str:
    parts = []
    for a, e in zip(AXES, key):
        if a in NUM_AXES:
            parts.append(coq_num(e))
        elif a == "iro":
            parts.append(coq_iro(e))
        elif a == "ignored":
            parts.append(coq_zlist(e))
        elif a == "gkind":
            parts.append(GK[e[1]])
        elif a == "pc_kind":
            parts.append(PK[e[1]])
        elif a == "dist":
            parts.append(DK[e[1]])
    parts += _sub_flags(key)
    return "(mk_raw " + " ".join(parts) + ")"      # "variant" is not a field of the model


def case_file(chunk) -> str:
    """chunk: list of (key, res).  Three result strings: agree, C17_checkb, agree_guard ('T' when no label is known)."""
    table: dict[str, str] = {}

    def share(term: str) -> str:     # every literal is defined once per file (5e-324 has a 324-digit denominator)
        if term not in table:
            table[term] = f"v{len(table)}"
        return table[term]

    items = []
    for key, res in chunk:
        parts = []
        for a, e in zip(AXES, key):
            if a in NUM_AXES:
                parts.append(share(coq_num(e)))
            elif a == "iro":
                parts.append(share(coq_iro(e)))
            elif a == "ignored":
                parts.append(share(coq_zlist(e)))
            elif a != "variant":     # not a field of the model
                parts.append({"gkind": GK, "pc_kind": PK, "dist": DK}[a][e[1]])
        parts += _sub_flags(key)
        obs = f"(ObsOK {share(coq_num(res[1]))} {share(coq_num(res[2]))})" if res[0] == "OK" else coq_obs(res)
        lab = f"(Some {res[3]})" if res[0] == "ValueError" and res[3] else "None"
        items.append("(mk_raw " + " ".join(parts) + f", {obs}, {lab})")
    tdefs = [f"Definition {n} := {t}." for t, n in table.items()]
    return "\n".join([
        HEADER, "\n".join(tdefs),
        "Definition cases : list (raw_cfg * observed * option guard) := [\n" + ";\n".join(items) + "].",
        "Eval vm_compute in show_bools (map (fun c => agree (fst (fst c)) (snd (fst c))) cases).",
        "Eval vm_compute in show_bools (map (fun c => C17_checkb (fst (fst c)) (snd (fst c))) cases).",
        "Eval vm_compute in show_bools (map (fun c => match snd c with Some g => agree_guard (fst (fst c)) g | None => true end) cases).",
    ]) + "\n"


# ---------------------------------------------------------------------------------------------


def diff_from(case: dict, base: dict) -> dict:
    return {a: case[a] for a in AXES if enc(case[a]) != enc(base[a])}


def describe(key: tuple) -> tuple[str, dict]:
    case = key_to_case(key)
    best = min(BASES, key=lambda b: len(diff_from(case, BASES[b])))
    return best, diff_from(case, BASES[best])


def signature(key: tuple) -> str:
    b, d = describe(key)
    return "C17:" + b + ":" + ",".join(f"{a}={d[a]!r}" for a in AXES if a in d)


def json_case(key: tuple) -> list:
    def j(e):
        return [e[0], [j(x) for x in e[1]]] if e[0] in ("list", "tuple", "range") else [e[0], e[1]]
    return [[a, j(e)] for a, e in zip(AXES, key)]


def unjson_case(lst) -> tuple:
    def u(e):
        return (e[0], tuple(u(x) for x in e[1])) if e[0] in ("list", "tuple", "range") else (e[0], e[1])
    d = {a: u(e) for a, e in lst}
    return tuple(d[a] for a in AXES)


def _nunsup(c) -> int:
    return sum((c["gkind"] == "unsupported" or c["gkind"].startswith("sub_"), c["pc_kind"] == "unsupported" or c["pc_kind"].startswith("sub_"), c["dist"] in UNSUPPORTED_DIST))


def run(ck: Check) -> None:
    common.assert_repo_imports()
    ck.coq_props()
    gen_targets.run(ck)          # translator tie: Gallina regenerated from the source + coq/gen/EquivC17.v
    thorough = ck.tier == "thorough"

    cases: dict[tuple, dict] = {}      # key -> {"way":..., "tags":[...], "base":...}

    def add(case, way, tags, base):
        k = case_key(case)
        if k not in cases:
            cases[k] = {"way": way, "tags": tags, "base": base}

    for bn, base in BASES.items():
        add(dict(base), "baseline", [], bn)
        for a in AXES:
            for tag, v in GRID[a]:
                add({**base, a: v}, "1-way", [(a, tag)], bn)
        for a1, a2 in itertools.combinations(AXES, 2):
            for (t1, v1), (t2, v2) in itertools.product(GRID[a1], GRID[a2]):
                add({**base, a1: v1, a2: v2}, "2-way", [(a1, t1), (a2, t2)], bn)
    n3 = 150000 if thorough else 4000
    for _ in range(n3):
        bn = ck.rng.choice(sorted(BASES))
        axes = ck.rng.sample(AXES, 3)
        case, tags = dict(BASES[bn]), []
        for a in axes:
            tag, v = ck.rng.choice(GRID[a])
            case[a] = v
            tags.append((a, tag))
        add(case, "3-way", tags, bn)
    nall = 150000 if thorough else 4000
    for _ in range(nall):
        bn = ck.rng.choice(sorted(BASES))
        case, tags = dict(BASES[bn]), []
        k = ck.rng.choice((4, 6, 10, len(AXES)))
        for a in ck.rng.sample(AXES, k):
            # mostly valid picks, so that later guards and the dispatches are reached too
            good = [(t, v) for t, v in GRID[a] if t in ("boundary", "interior", "just_in", "far_in", "typemix", "kind")]
            tag, v = ck.rng.choice(good) if ck.rng.random() < 0.8 else ck.rng.choice(GRID[a])
            case[a] = v
            tags.append((a, tag))
        add(case, "random", tags, bn)

    keys = list(cases)
    t_gen = time.time()
    vi, di = AXES.index("variant"), AXES.index("dist")
    plain = [k for k in keys if k[di][1] != "ddp"]
    ddp = [k for k in keys if k[di][1] == "ddp"]
    keys = plain + ddp
    with mp.get_context("fork").Pool(16) as pool:
        results = [r for rs in pool.map(run_chunk, list(common.chunks(plain, 200))) for r in rs]
    with mp.get_context("fork").Pool(1, initializer=_init_ddp) as pool:      # one worker owning a 1-process gloo group
        results += [r for rs in pool.map(run_chunk, list(common.chunks(ddp, 200))) for r in rs]
    pairs = list(zip(keys, results))
    t_impl = time.time()

    sources = {f"c17_{fi:04d}": case_file(chunk) for fi, chunk in enumerate(common.chunks(pairs, 1500))}
    out = ck.eval_coq(sources)
    t_coq = time.time()
    agree = "".join(out[n][0] for n in sources)
    check = "".join(out[n][1] for n in sources)
    guard = "".join(out[n][2] for n in sources)
    assert len(agree) == len(check) == len(guard) == len(pairs), (len(agree), len(check), len(guard), len(pairs))

    bad = [i for i, b in enumerate(agree) if b != "T"]
    failing = [i for i, b in enumerate(check) if b != "T"]
    if bad:
        def size(i):
            return (len(describe(keys[i])[1]), len(str(keys[i])))
        if failing:
            # group failing inputs by the set of axes that differ from the baseline; report the smallest of each group
            groups: dict[tuple, list[int]] = {}
            for i in failing:
                b, d = describe(keys[i])
                groups.setdefault(tuple(sorted(d)), []).append(i)
            reported: list[set] = []
            for axes_, idx in sorted(groups.items(), key=lambda kv: (len(kv[0]), kv[0])):
                if len(reported) >= 5 or any(s_ <= set(axes_) for s_ in reported):
                    continue    # a superset of an already reported minimal change
                reported.append(set(axes_))
                i = min(idx, key=size)
                b, d = describe(keys[i])
                ck.report(signature(keys[i]),
                          f"constructor violates C17 on baseline {b} with {d}: observed {results[i][0]}"
                          + (f" beta3={dec(results[i][1])!r} start={dec(results[i][2])!r}" if results[i][0] == "OK" else f" ({results[i][4]})")
                          + f"; C17_checkb = false ({len(idx)} failing inputs vary {list(axes_)})",
                          {"kind": "property-fails", "case": json_case(keys[i]), "baseline": b, "changed": {a: repr(v) for a, v in d.items()},
                           "observed": list(results[i][:1]) + [results[i][4]], "observed_defaults": [results[i][1], results[i][2]],
                           "n_failing": len(failing), "n_disagreeing": len(bad), "predicate": "C17_checkb (documented domain <-> outcome class, resolved defaults)"})
        else:
            i = min(bad, key=size)
            b, d = describe(keys[i])
            ck.report(None, f"model/implementation correspondence broken ({len(bad)} cases, smallest: baseline {b} with {d}: observed {results[i][0]} ({results[i][4]})) "
                            "but every observed outcome still passes C17_checkb",
                      {"kind": "correspondence", "broken": "Hyper.agree (model ctor vs DistributedShampoo.__init__ / config __post_init__)", "case": json_case(keys[i]),
                       "baseline": b, "changed": {a: repr(v) for a, v in d.items()}, "observed": [results[i][0], results[i][4]], "n_disagreeing": len(bad),
                       "theorems_not_transferring": ["C17_ctor_accepts_iff_documented", "C17_ctor_classify", "C17_ctor_raises_valueerror_outside", "C17_ctor_defaults",
                                                     "C17_ctor_accepts_iff_documented_refuted_mpd", "C17_ctor_accepts_iff_documented_refuted_nan"]}, no_failing_input=True)

    # the two `_refuted` witnesses, replayed on the implementation (they are grid points: baseline A with one change)
    wit = {"mpd=2^63 (in range, RuntimeError expected)": ({**BASE_A, "mpd": I63}, "Other"), "nt=NaN (out of range, accepted)": ({**BASE_A, "nt": NAN}, "OK")}
    for nm, (case, expect) in wit.items():
        r = results[keys.index(case_key(case))]
        ck.notes.append(f"finding witness {nm}: implementation gives {r[0]}" + (f" ({r[4]})" if r[4] else "") + ("" if r[0] == expect else f"  -- no longer {expect}: the _refuted theorem does not describe /repo any more"))

    nguard = sum(1 for r in results if r[0] == "ValueError" and r[3])
    gbad = [i for i, b in enumerate(guard) if b != "T"]
    if gbad:
        ck.notes.append(f"informational: {len(gbad)} of {nguard} ValueError cases name another guard than the model's first failing guard (by message keyword), e.g. {describe(keys[gbad[0]])} -> {results[gbad[0]][3]}")

    # evidence
    hist_out, hist_way, hist_tag, hist_guard, hist_exc = {}, {}, {}, {}, {}
    per_axis: dict[str, dict[str, int]] = {a: {} for a in AXES}
    nontriv = 0
    for k, r in pairs:
        info = cases[k]
        hist_out[r[0]] = hist_out.get(r[0], 0) + 1
        hist_way[info["way"]] = hist_way.get(info["way"], 0) + 1
        if r[0] == "ValueError":
            hist_guard[str(r[3])] = hist_guard.get(str(r[3]), 0) + 1
        if r[0] == "Other":
            hist_exc[r[4]] = hist_exc.get(r[4], 0) + 1
        edge = False
        for a, t in info["tags"]:
            hist_tag[t] = hist_tag.get(t, 0) + 1
            per_axis[a][t] = per_axis[a].get(t, 0) + 1
            edge = edge or t in ("boundary", "just_in", "just_out", "inf", "nan")
        nontriv += edge
    sample_idx = [len(pairs) // 5, len(pairs) // 2, len(pairs) - 1]
    ck.coverage.update({
        "evaluations": len(pairs),
        "distinct_nontrivial": nontriv,
        "rule": "distinct configurations (deduplicated): both baselines, every grid value of every hyperparameter one at a time, every pair of grid values of every pair of hyperparameters, "
                f"{n3} random 3-way and {nall} random many-way draws; non-trivial = a configuration in which at least one varied hyperparameter sits at a boundary, +-1 ulp / +-1 next to it, +-inf or NaN",
        "exhaustive": True,
        "exhaustive_scope": "1-way and 2-way grid around the two baselines (the 3-way and many-way parts are sampled)",
        "samples": [{"baseline": describe(keys[i])[0], "changed": {a: repr(v) for a, v in describe(keys[i])[1].items()}, "observed": results[i][0],
                     "defaults": [dec(results[i][1]), dec(results[i][2])] if results[i][0] == "OK" else None} for i in sample_idx],
        "distribution": {"outcome_class": hist_out, "way": hist_way, "value_kind": hist_tag, "valueerror_guard": hist_guard, "other_exception_types": hist_exc,
                         "grid_sizes": {a: len(GRID[a]) for a in AXES}, "value_kind_per_hyperparameter": per_axis},
        "disagreements": len(bad),
        "checker_failures": len(failing),
        "guard_label_cases": nguard,
        "guard_label_disagreements": len(gbad),
        "phase_seconds": {"proofs_and_generation": round(t_gen - ck.t0, 1), "implementation": round(t_impl - t_gen, 1), "coqc_case_files": round(t_coq - t_impl, 1)},
    })
    # ---- quantifier audit: measured number of generated configurations per input class the property names or allows
    def isnan(x):
        return isinstance(x, float) and math.isnan(x)

    def seq(x):
        return isinstance(x, (list, tuple, range))

    audit = {f"variant:{v}": 0 for v in VARIANTS if v != "std"}
    tagmin = {}
    for a in MODEL_AXES:
        for t in ("boundary", "just_in", "just_out", "nan", "inf"):
            if t in per_axis[a]:
                tagmin[t] = min(tagmin.get(t, 10 ** 9), per_axis[a][t])
    classes = {
        "one hyperparameter varied (1-way grid, every value of every hyperparameter, both baselines)": lambda c, i, r: i["way"] == "1-way",
        "two hyperparameters varied (full 2-way cross product of the grids)": lambda c, i, r: i["way"] == "2-way",
        "three hyperparameters varied (sampled)": lambda c, i, r: i["way"] == "3-way",
        "many hyperparameters varied (sampled)": lambda c, i, r: i["way"] == "random",
        "accepted configurations (outcome OK: the inside of the domain)": lambda c, i, r: r[0] == "OK",
        "NaN somewhere": lambda c, i, r: any(isnan(c[a]) for a in NUM_AXES) or (seq(c["iro"]) and any(isnan(e) for e in c["iro"])) or isnan(c["iro"]),
        "NaN together with a second out-of-range value": lambda c, i, r: sum(t in ("nan",) for _, t in i["tags"]) >= 1 and sum(t in ("just_out", "far_out", "inf", "nan") for _, t in i["tags"]) >= 2,
        "+-inf somewhere": lambda c, i, r: any(isinstance(c[a], float) and math.isinf(c[a]) for a in NUM_AXES),
        "+-1 ulp next to a boundary (nextafter)": lambda c, i, r: any(t in ("just_in", "just_out") and isinstance(c[a], float) for a, t in i["tags"] if a in NUM_AXES),
        "-0.0": lambda c, i, r: any(isinstance(c[a], float) and c[a] == 0.0 and math.copysign(1.0, c[a]) < 0 for a in NUM_AXES),
        "int given where a float is documented / float where an int is documented": lambda c, i, r: any(t == "typemix" for _, t in i["tags"]),
        "beta3 = -1 (int or float) with beta1 varied": lambda c, i, r: c["beta3"] == -1 and not _is(c, "beta1", 0.9),
        "beta3 = -1 and beta1 = 0 (substituted value is a boundary)": lambda c, i, r: c["beta3"] == -1 and c["beta1"] == 0,
        "start = -1 (int or float) with precondition_frequency varied": lambda c, i, r: c["start"] == -1 and not _is(c, "freq", 1) and not _is(c, "freq", 10),
        "both -1 substitutions in one call": lambda c, i, r: c["beta3"] == -1 and c["start"] == -1,
        "start in {f-1, f, f+1} for integer f = precondition_frequency >= 1": lambda c, i, r: isinstance(c["freq"], int) and not isinstance(c["start"], float) and c["freq"] >= 1 and c["start"] - c["freq"] in (-1, 0, 1),
        "start strictly between -1 and precondition_frequency": lambda c, i, r: not isnan(c["start"]) and not isnan(c["freq"]) and -1 < c["start"] < c["freq"],
        "ints beyond 2^53 compared with floats (exact int/float comparison)": lambda c, i, r: (isinstance(c["freq"], int) and abs(c["freq"]) > 2 ** 53 and isinstance(c["start"], float)) or (isinstance(c["start"], int) and abs(c["start"]) > 2 ** 53 and isinstance(c["freq"], float)),
        "max_preconditioner_dim at 2^31-1 / 2^31 / 2^63-1 / 2^63": lambda c, i, r: c["mpd"] in (2 ** 31 - 1, 2 ** 31, I63 - 1, I63),
        "max_preconditioner_dim = 1 (finest blocking)": lambda c, i, r: _is(c, "mpd", 1),
        "inv_root_override as list": lambda c, i, r: isinstance(c["iro"], list),
        "inv_root_override as tuple": lambda c, i, r: isinstance(c["iro"], tuple),
        "inv_root_override as range (another Sequence)": lambda c, i, r: isinstance(c["iro"], range),
        "inv_root_override empty sequence": lambda c, i, r: seq(c["iro"]) and len(c["iro"]) == 0,
        "inv_root_override sequence with a negative / NaN entry": lambda c, i, r: seq(c["iro"]) and any(isnan(e) or e < 0 for e in c["iro"]),
        "ignored dims non-empty with override 0 / 0.0 / -0.0": lambda c, i, r: len(c["ignored"]) > 0 and not seq(c["iro"]) and c["iro"] == 0,
        "ignored dims non-empty with a non-zero scalar override": lambda c, i, r: len(c["ignored"]) > 0 and not seq(c["iro"]) and c["iro"] != 0,
        "ignored dims non-empty with a sequence override (even all-zero)": lambda c, i, r: len(c["ignored"]) > 0 and seq(c["iro"]),
        "ignored dims with a repeated entry": lambda c, i, r: len(set(c["ignored"])) != len(c["ignored"]),
        "ignored dims out of the parameter's order (5, -1)": lambda c, i, r: any(d in (5, -1) for d in c["ignored"]),
        "grafting None / SGD (no validated field)": lambda c, i, r: c["gkind"] in ("none", "sgd"),
        "AdaGrad grafting with epsilon varied": lambda c, i, r: GBASE[c["gkind"]] == "adagrad" and not _is(c, "geps", 1e-10) and not _is(c, "geps", 1e-8),
        "RMSprop grafting with epsilon or beta2 varied": lambda c, i, r: GBASE[c["gkind"]] == "rmsprop" and any(a in ("geps", "gb2") for a, _ in i["tags"]),
        "Adam grafting with epsilon or beta2 varied": lambda c, i, r: GBASE[c["gkind"]] == "adam" and any(a in ("geps", "gb2") for a, _ in i["tags"]),
        "RMSprop/Adam grafting with epsilon AND beta2 both out of range": lambda c, i, r: GBASE[c["gkind"]] in ("rmsprop", "adam") and not (c["geps"] > 0) and not (0 < c["gb2"] <= 1),
        "Shampoo preconditioner config": lambda c, i, r: c["pc_kind"] == "shampoo",
        "eigenvalue-corrected (SOAP) preconditioner config": lambda c, i, r: c["pc_kind"] == "eigcorr",
        **{f"unsupported type: user-defined subclass of {nm}": (lambda ax, kd: lambda c, i, r: c[ax] == kd)(ax, kd) for ax, kd, nm in (
            ("gkind", "unsupported", "GraftingConfig (direct)"), ("gkind", "sub_sgd", "SGDGraftingConfig"), ("gkind", "sub_adagrad", "AdaGradGraftingConfig"),
            ("gkind", "sub_rmsprop", "RMSpropGraftingConfig"), ("gkind", "sub_adam", "AdamGraftingConfig"),
            ("pc_kind", "unsupported", "PreconditionerConfig (direct)"), ("pc_kind", "sub_shampoo", "ShampooPreconditionerConfig"),
            ("pc_kind", "sub_eigcorr", "EigenvalueCorrectedShampooPreconditionerConfig"),
            ("dist", "unsupported", "DistributedConfig (direct)"), ("dist", "sub_ddp", "DDPShampooConfig"), ("dist", "sub_fsdp", "FSDPShampooConfig"),
            ("dist", "sub_fullyshard", "FullyShardShampooConfig"), ("dist", "sub_hsdp", "HSDPShampooConfig"), ("dist", "sub_hybrid", "HybridShardShampooConfig"))},
        "unsupported grafting subclass with valid inherited fields (NotImplementedError expected)": lambda c, i, r: c["gkind"].startswith("sub_") and r[0] == "NotImplementedError",
        "unsupported grafting subclass with an invalid inherited field (its __post_init__ raises ValueError first)": lambda c, i, r: c["gkind"].startswith("sub_") and r[0] == "ValueError" and r[3] in ("GGraftEps", "GGraftBeta2"),
        "unsupported preconditioner subclass with valid inherited fields": lambda c, i, r: c["pc_kind"].startswith("sub_") and r[0] == "NotImplementedError",
        "unsupported preconditioner subclass with an invalid inherited field": lambda c, i, r: c["pc_kind"].startswith("sub_") and r[0] == "ValueError" and r[3] in ("GNumTolerated", "GIgnoredUnique"),
        "num_tolerated_failed_amortized_computations at 0 / -1": lambda c, i, r: c["nt"] in (0, -1),
        "unsupported grafting config type": lambda c, i, r: c["gkind"] == "unsupported" or c["gkind"].startswith("sub_"),
        "unsupported preconditioner config type": lambda c, i, r: c["pc_kind"] == "unsupported" or c["pc_kind"].startswith("sub_"),
        "unsupported distributed config type": lambda c, i, r: c["dist"] in UNSUPPORTED_DIST,
        "unsupported type together with an out-of-range value (ValueError must win)": lambda c, i, r: _nunsup(c) >= 1 and r[0] == "ValueError",
        "two unsupported types at once": lambda c, i, r: _nunsup(c) >= 2,
        "supported distributed config: DDPShampooConfig on a 1-process gloo group": lambda c, i, r: c["dist"] == "ddp",
        "DDPShampooConfig with an out-of-range value": lambda c, i, r: c["dist"] == "ddp" and r[0] == "ValueError",
        "pc_singleton variant actually using the module-level default object": lambda c, i, r: c["variant"] == "pc_singleton" and c["pc_kind"] in ("shampoo", "eigcorr") and _is(c, "nt", 3) and _is(c, "ignored", []),
        "a harness-only variant together with an out-of-range value": lambda c, i, r: c["variant"] != "std" and r[0] == "ValueError",
        "a harness-only variant with an accepted configuration": lambda c, i, r: c["variant"] != "std" and r[0] == "OK",
    }
    for nm in classes:
        audit[nm] = 0
    for k, r in pairs:
        c, info = key_to_case(k), cases[k]
        if c["variant"] != "std":
            audit[f"variant:{c['variant']}"] += 1
        for nm, pred in classes.items():
            try:
                audit[nm] += bool(pred(c, info, r))
            except TypeError:
                pass
    for t, n in tagmin.items():
        audit[f"'{t}' value of a hyperparameter: fewest cases over all 18 model hyperparameters having such a value"] = n
    ck.coverage["quantifier_audit"] = audit
    ck.coverage["not_exercised"] = {
        "FSDPShampooConfig / HSDPShampooConfig / FullyShardShampooConfig / HybridShardShampooConfig": "need sharded (DTensor / flat-shard) parameters and a device mesh; their dispatch arms have the same form as the DDP arm, which is exercised; C07/C08 construct them under stubs",
        "DDPShampooConfig with world size > 1": "needs several processes; C06 constructs it under the rank simulator",
        "per-group hyperparameter overrides inside params=[{...}]": "DistributedShampoo validates and resolves only the constructor arguments (torch.optim semantics); the property's observable is the param_groups *defaults*.  Probed, not judged: see per_group_override_probe",
        "numpy / torch-tensor scalars and bool for numeric hyperparameters": "documented types are Python float / int; bool for max_preconditioner_dim is rejected by torch.split",
        "ignored_dims given as a tuple, a str as inv_root_override": "documented types are list[int] and int | Sequence[int]",
        "shampoo_pt2_compile_config other than None": "not validated by the constructor; compiled construction is C18's subject",
        "CUDA parameters / devices": "no GPU in the sandbox",
        "sequence inv_root_override with step != 1 ranges or user-defined Sequence classes": "list, tuple and range cover isinstance(..., Sequence)",
    }

    ck.coverage["type_dispatch"] = {
        "grafting_config": "exact type (`type(cfg) is SGDGraftingConfig`, `type(cfg) in (AdaGrad, RMSprop, Adam)`): a user-defined subclass of any of the four classes, or of GraftingConfig, "
                           "gives NotImplementedError (after its inherited __post_init__ accepted the fields); modelled by gkind + gsub",
        "preconditioner_config": "exact type (`type(cfg) is ShampooPreconditionerConfig` / `is EigenvalueCorrectedShampooPreconditionerConfig`): subclasses give NotImplementedError; modelled by pc_kind + pc_sub",
        "distributed_config": "exact type for all five library classes: a subclass of any of them (or of DistributedConfig) gives NotImplementedError before any process group is touched; modelled as DistUnsupported",
        "amortized_computation_config": "NOT dispatched by the constructor: a user-defined subclass of EigenConfig / QRConfig is accepted at construction (variant amort_sub); "
                                        "matrix_functions.py dispatches on it by exact type at the first root / eigenvector computation, which is outside the constructor",
    }

    # per-group overrides: what the constructor does with them (information for the coordinator; no verdict)
    probe = {}
    try:
        m = _impl()
        for ov in (dict(lr=-1.0), dict(beta3=-1.0), dict(start_preconditioning_step=-1), dict(betas=(1.0, 1.0)), dict(epsilon=0.0), dict(weight_decay=NAN)):
            try:
                o = m["ds"].DistributedShampoo([{"params": [m["torch"].nn.Parameter(m["torch"].zeros(2, 3))], **ov}], betas=(0.5, 1.0), precondition_frequency=5)
                g = o.param_groups[0]
                probe[repr(ov)] = f"accepted; group holds beta3={g['beta3']!r} start={g['start_preconditioning_step']!r} {next(iter(ov))}={g[next(iter(ov))]!r}"
            except Exception as e:  # noqa
                probe[repr(ov)] = f"{type(e).__name__}: {str(e)[:80]}"
    except Exception as e:  # noqa
        probe["error"] = repr(e)
    ck.coverage["per_group_override_probe"] = probe

    ck.assumptions += [
        "config objects are built grafting first, preconditioner second, then DistributedShampoo(...) (only affects which ValueError comes first)",
        "the model has one dense parameter in one group and distributed_config None/unsupported; the harness-only `variant` axis (other parameter shapes/dtypes, two groups, unvalidated flags, preconditioner_dtype, config-object reuse, omitted arguments) and a real 1-process DDPShampooConfig check that the outcome does not depend on them",
        "float hyperparameters are written to the case files as exact rationals (float.as_integer_ratio), ints exactly",
    ]
    ck.gen_equiv_verdict()


def replay(obj) -> bool:
    common.assert_repo_imports()
    key = unjson_case(obj["case"])
    r = run_one(key)
    print("configuration:", {a: v for a, v in key_to_case(key).items()})
    print("implementation gives", r[0], r[4] or "", [dec(r[1]), dec(r[2])] if r[0] == "OK" else "", "| recorded:", obj.get("observed"), obj.get("observed_defaults"))
    return True
